//! C05 "API variants": the public entry points of the container API that the main sweep does not
//! go through. One case = one history, written through every writer variant (default sync marker,
//! serialize_all, write_all, owned configuration, configuration option set through the three
//! available ways, sink observed through inner()/inner_mut()) and compared with the file the plain
//! `serialize` loop with a pinned marker produces; and that file read back through the iterator API,
//! the borrowed API and `Reader::schema()`.

use super::{compression, dec_block, digits_normalised, header_len, plan, rd_long, write_file, CaseOut, Codec, CollT, FileSpec, Op, Params, RecT, Rk, Sk, Step, Val, SYNC};
use crate::envs::ChunkedBufRead;
use crate::explore::{hash64, Cover};
use crate::report::{hex, truncate, Violation};
use crate::subj::{guarded, Out};
use serde::{Deserialize, Serialize};
use serde_avro_fast::de::read::take::Take;
use serde_avro_fast::de::read::{ReadSlice, ReaderRead, SliceRead};
use serde_avro_fast::object_container_file_encoding::{write_all, Reader, Writer, WriterBuilder};
use serde_avro_fast::ser::{SerError, SerializerConfig};
use serde_json::json;
use std::cell::RefCell;
use std::collections::BTreeMap;
use std::io::Write;
use std::panic::{catch_unwind, AssertUnwindSafe};
use std::rc::Rc;
use vmodel::container::cf_parse;

pub const GUARDS: [&str; 14] = [
	"api_default_marker_files_equal_modulo_marker",
	"api_serialize_all_files_equal",
	"api_write_all_files_equal_modulo_marker",
	"api_owned_config_files_equal",
	"api_slow_sequence_option_borrowed_files_equal",
	"api_slow_sequence_option_owned_files_equal",
	"api_slow_sequence_option_via_serializer_config_accessor_files_equal",
	"api_inner_and_inner_mut_observations_equal_the_sink",
	"api_iterator_reads_ok",
	"api_iterator_equals_next_loop_on_cut_files",
	"api_borrowed_next_reads_ok",
	"api_borrowed_iterator_reads_ok",
	"api_borrowed_values_pointing_into_the_file",
	"api_reader_schema_equals_writer_schema",
];

#[derive(Clone, Copy, Debug, PartialEq, Eq, Hash, Serialize, Deserialize)]
pub enum WVar {
	/// no `sync_marker()` call
	DefaultMarker,
	/// every run of consecutive `serialize` calls replaced by one `serialize_all`
	SerializeAll,
	/// the free function `write_all` (serialize-only histories, default block size)
	WriteAll,
	/// `WriterBuilder::with_owned_config`
	OwnedConfig,
	/// `allow_slow_sequence_to_bytes` on a borrowed configuration, bytes presented as a sequence
	SlowSeqBorrowed,
	/// the same option on an owned configuration
	SlowSeqOwned,
	/// the same option set through `WriterBuilder::serializer_config()`
	SlowSeqAccessor,
	/// sink observed through `inner()` / `inner_mut()` after every call
	Tee,
}

impl WVar {
	pub fn label(self) -> &'static str {
		match self {
			WVar::DefaultMarker => "default sync marker (no sync_marker() call)",
			WVar::SerializeAll => "serialize_all on every run of serialize calls",
			WVar::WriteAll => "write_all(schema, compression, Vec, values)",
			WVar::OwnedConfig => "WriterBuilder::with_owned_config",
			WVar::SlowSeqBorrowed => "allow_slow_sequence_to_bytes on a borrowed config, bytes presented as a sequence",
			WVar::SlowSeqOwned => "allow_slow_sequence_to_bytes on an owned config, bytes presented as a sequence",
			WVar::SlowSeqAccessor => "allow_slow_sequence_to_bytes through WriterBuilder::serializer_config(), bytes presented as a sequence",
			WVar::Tee => "sink observed through inner()/inner_mut() after every call",
		}
	}
}

/// bytes presented as a sequence of u8 (needs `allow_slow_sequence_to_bytes`)
struct AsSeq<'a>(&'a [u8]);
impl Serialize for AsSeq<'_> {
	fn serialize<S: serde::Serializer>(&self, s: S) -> Result<S::Ok, S::Error> {
		s.collect_seq(self.0.iter())
	}
}

struct Tee {
	own: Vec<u8>,
	shared: Rc<RefCell<Vec<u8>>>,
}
impl Write for Tee {
	fn write(&mut self, buf: &[u8]) -> std::io::Result<usize> {
		self.own.extend_from_slice(buf);
		self.shared.borrow_mut().extend_from_slice(buf);
		Ok(buf.len())
	}
	fn flush(&mut self) -> std::io::Result<()> {
		Ok(())
	}
}

fn build_meta<'c, 's, W: Write>(builder: WriterBuilder<'c, 's>, sink: W, meta: u8) -> Result<Writer<'c, 's, W>, SerError> {
	match meta {
		0 => builder.build(sink),
		1 => builder.build_with_user_metadata(sink, super::UserMeta::new()),
		2 => {
			let m: BTreeMap<String, String> = super::user_meta(2).into_iter().map(|(k, v)| (k, String::from_utf8(v).unwrap())).collect();
			builder.build_with_user_metadata(sink, m)
		}
		n => {
			let m: super::UserMeta = super::user_meta(n).into_iter().map(|(k, v)| (k, serde_bytes::ByteBuf::from(v))).collect();
			builder.build_with_user_metadata(sink, m)
		}
	}
}

/// Apply the history. `group`: runs of serialize calls become one serialize_all; `slow_seq`: bytes
/// are presented as sequences; `after` runs after every writer call.
fn drive<W: Write>(w: &mut Writer<'_, '_, W>, steps: &[Step], pre: &mut SerializerConfig<'_>, group: bool, slow_seq: bool, after: &mut dyn FnMut(&mut Writer<'_, '_, W>, usize) -> Result<(), String>) -> Result<(), String> {
	let mut i = 0;
	while i < steps.len() {
		let (r, what, next) = match &steps[i] {
			Step::Ser(_) if group => {
				let mut j = i;
				let mut run: Vec<&Val> = Vec::new();
				while let Some(Step::Ser(v)) = steps.get(j) {
					run.push(v);
					j += 1;
				}
				(w.serialize_all(run.iter()), format!("serialize_all({} values)", run.len()), j)
			}
			Step::Ser(Val::Bytes(b)) if slow_seq => (w.serialize(AsSeq(b)), format!("serialize(sequence of {} u8)", b.len()), i + 1),
			Step::Ser(v) => (w.serialize(v), format!("serialize({v:?})"), i + 1),
			Step::Push(vs) => {
				let mut buf = Vec::new();
				for v in vs {
					buf = serde_avro_fast::to_datum(v, buf, pre).map_err(|e| format!("to_datum for push_serialized returned Err: {e}"))?;
				}
				(w.push_serialized(&buf, vs.len() as u64), format!("push_serialized({} objects)", vs.len()), i + 1)
			}
			Step::Finish => (w.finish_block(), "finish_block()".to_owned(), i + 1),
		};
		r.map_err(|e| format!("writer call #{i} {what} returned Err: {e}"))?;
		after(w, i)?;
		i = next;
	}
	Ok(())
}

fn finish<W: Write>(w: Writer<'_, '_, W>, r: Result<(), String>) -> Result<W, String> {
	match r {
		Ok(()) => w.into_inner().map_err(|e| format!("into_inner returned Err: {e}")),
		Err(e) => {
			let dropped = catch_unwind(AssertUnwindSafe(move || drop(w)));
			Err(format!("{e}{}", if dropped.is_err() { " [dropping the writer afterwards panicked]" } else { "" }))
		}
	}
}

/// Write the history through one of the other writer entry points.
pub fn write_variant(spec: &FileSpec, steps: &[Step], var: WVar) -> Out<Vec<u8>> {
	guarded(|| {
		let schema: serde_avro_fast::Schema = spec.sk.json().parse().map_err(|e| format!("MACHINERY: schema: {e}"))?;
		let mut config = SerializerConfig::new(&schema);
		let mut pre = SerializerConfig::new(&schema);
		let comp = compression(spec.codec, spec.level);
		let mut nothing = |_: &mut Writer<'_, '_, Vec<u8>>, _: usize| Ok(());
		let berr = |e: SerError| format!("WriterBuilder::build returned Err: {e}");
		match var {
			WVar::DefaultMarker => {
				let mut w = build_meta(WriterBuilder::new(&mut config).compression(comp).approx_block_size(spec.abs), Vec::new(), spec.meta).map_err(berr)?;
				let r = drive(&mut w, steps, &mut pre, false, false, &mut nothing);
				finish(w, r)
			}
			WVar::SerializeAll => {
				let mut w = build_meta(WriterBuilder::new(&mut config).compression(comp).approx_block_size(spec.abs).sync_marker(SYNC), Vec::new(), spec.meta).map_err(berr)?;
				let r = drive(&mut w, steps, &mut pre, true, false, &mut nothing);
				finish(w, r)
			}
			WVar::WriteAll => {
				let mut vals: Vec<&Val> = Vec::new();
				for s in steps {
					match s {
						Step::Ser(v) => vals.push(v),
						_ => return Err("MACHINERY: write_all variant on a history with push/finish".into()),
					}
				}
				write_all(&schema, comp, Vec::new(), vals.iter()).map_err(|e| format!("write_all returned Err: {e}"))
			}
			WVar::OwnedConfig => {
				let mut w = build_meta(WriterBuilder::with_owned_config(SerializerConfig::new(&schema)).compression(comp).approx_block_size(spec.abs).sync_marker(SYNC), Vec::new(), spec.meta).map_err(berr)?;
				let r = drive(&mut w, steps, &mut pre, false, false, &mut nothing);
				finish(w, r)
			}
			WVar::SlowSeqBorrowed => {
				config.allow_slow_sequence_to_bytes();
				let mut w = build_meta(WriterBuilder::new(&mut config).compression(comp).approx_block_size(spec.abs).sync_marker(SYNC), Vec::new(), spec.meta).map_err(berr)?;
				let r = drive(&mut w, steps, &mut pre, false, true, &mut nothing);
				finish(w, r)
			}
			WVar::SlowSeqOwned => {
				let mut owned = SerializerConfig::new(&schema);
				owned.allow_slow_sequence_to_bytes();
				let mut w = build_meta(WriterBuilder::with_owned_config(owned).compression(comp).approx_block_size(spec.abs).sync_marker(SYNC), Vec::new(), spec.meta).map_err(berr)?;
				let r = drive(&mut w, steps, &mut pre, false, true, &mut nothing);
				finish(w, r)
			}
			WVar::SlowSeqAccessor => {
				let mut b = WriterBuilder::with_owned_config(SerializerConfig::new(&schema));
				b.serializer_config().allow_slow_sequence_to_bytes();
				if !std::ptr::eq(b.serializer_config().schema(), &schema) {
					return Err("WriterBuilder::serializer_config() does not give the configuration the builder was made from (schema differs)".into());
				}
				let mut w = build_meta(b.compression(comp).approx_block_size(spec.abs).sync_marker(SYNC), Vec::new(), spec.meta).map_err(berr)?;
				let r = drive(&mut w, steps, &mut pre, false, true, &mut nothing);
				finish(w, r)
			}
			WVar::Tee => {
				let shared = Rc::new(RefCell::new(Vec::new()));
				let sink = Tee { own: Vec::new(), shared: shared.clone() };
				let mut w = build_meta(WriterBuilder::new(&mut config).compression(comp).approx_block_size(spec.abs).sync_marker(SYNC), sink, spec.meta).map_err(berr)?;
				let mut check = |w: &mut Writer<'_, '_, Tee>, i: usize| -> Result<(), String> {
					let seen = shared.borrow().clone();
					if w.inner().own != seen {
						return Err(format!("after writer call #{i}: inner() shows {} bytes, the sink received {} bytes", w.inner().own.len(), seen.len()));
					}
					if w.inner_mut().own != seen {
						return Err(format!("after writer call #{i}: inner_mut() shows {} bytes, the sink received {} bytes", w.inner_mut().own.len(), seen.len()));
					}
					Ok(())
				};
				check(&mut w, usize::MAX).map_err(|e| e.replace(&format!("writer call #{}", usize::MAX), "build"))?;
				let r = drive(&mut w, steps, &mut pre, false, false, &mut check);
				let t = finish(w, r)?;
				if t.own != *shared.borrow() {
					return Err("into_inner() returns a sink whose content differs from what the sink received".into());
				}
				Ok(t.own)
			}
		}
	})
}

/// positions of the 16-byte sync markers of a well-formed file whose header ends at `header_end`
fn sync_positions(bytes: &[u8], header_end: usize) -> Option<Vec<usize>> {
	let mut pos = vec![header_end - 16];
	let mut i = header_end;
	while i < bytes.len() {
		let _count = rd_long(bytes, &mut i).ok()?;
		let size = rd_long(bytes, &mut i).ok()?;
		if size < 0 || i + size as usize + 16 > bytes.len() {
			return None;
		}
		i += size as usize;
		pos.push(i);
		i += 16;
	}
	Some(pos)
}

/// None = `got` equals `pinned` outside the marker positions and holds one and the same marker at
/// all of them; Some(description) otherwise. Also returns the marker found.
fn equal_modulo_marker(pinned: &[u8], got: &[u8]) -> (Option<String>, Option<[u8; 16]>) {
	let Some(h) = header_len(pinned) else { return (Some("MACHINERY: pinned file has no marker".into()), None) };
	let Some(pos) = sync_positions(pinned, h) else { return (Some("MACHINERY: pinned file is not well-formed".into()), None) };
	if got.len() != pinned.len() {
		return (Some(format!("it has {} bytes, the pinned-marker file of the same history has {}", got.len(), pinned.len())), None);
	}
	let marker: [u8; 16] = got[pos[0]..pos[0] + 16].try_into().unwrap();
	let mut k = 0;
	let mut i = 0;
	while i < got.len() {
		if k < pos.len() && i == pos[k] {
			if got[i..i + 16] != marker {
				return (Some(format!("the 16 bytes after block #{} (offset {i}) are not the header's sync marker", k - 1)), Some(marker));
			}
			i += 16;
			k += 1;
			continue;
		}
		if got[i] != pinned[i] {
			return (Some(format!("byte at offset {i} is {:02x}, the pinned-marker file of the same history has {:02x} there (outside the marker positions)", got[i], pinned[i])), Some(marker));
		}
		i += 1;
	}
	(None, Some(marker))
}

fn describe_file(sk: Sk, bytes: &[u8]) -> String {
	match cf_parse(bytes) {
		Err(e) => format!("the independent parser rejects it: {e}"),
		Ok(f) => {
			let mut n = 0usize;
			for b in &f.blocks {
				match dec_block(sk, &b.data, b.count) {
					Ok(v) => n += v.len(),
					Err(e) => return format!("the independent parser finds {} block(s), one undecodable: {e}", f.blocks.len()),
				}
			}
			format!("the independent parser finds {} block(s) {:?} holding {n} values", f.blocks.len(), f.blocks.iter().take(6).map(|b| (b.count, b.raw.len())).collect::<Vec<_>>())
		}
	}
}

fn first_diff(a: &[u8], b: &[u8]) -> String {
	match a.iter().zip(b.iter()).position(|(x, y)| x != y) {
		Some(i) => format!("first difference at offset {i}"),
		None => format!("one is a prefix of the other ({} vs {} bytes)", a.len(), b.len()),
	}
}

// ---------------------------------------------------------------------------------------------
// reader entry points

fn iter_owned<'de, R>(rd: &mut Reader<R>, sk: Sk, cap: usize) -> Vec<Result<Val, String>>
where
	R: serde_avro_fast::de::read::Read + Take + std::io::BufRead + ReadSlice<'de>,
	<R as Take>::Take: std::io::BufRead + ReadSlice<'de>,
{
	fn go<T, I: Iterator<Item = Result<T, serde_avro_fast::de::DeError>>>(it: I, cap: usize, f: impl Fn(T) -> Val) -> Vec<Result<Val, String>> {
		it.take(cap).map(|r| r.map(&f).map_err(|e| e.to_string())).collect()
	}
	match sk {
		Sk::Bytes => go(rd.deserialize::<serde_bytes::ByteBuf>(), cap, |b| Val::Bytes(b.into_vec())),
		Sk::Long => go(rd.deserialize::<i64>(), cap, Val::Long),
		Sk::Str => go(rd.deserialize::<String>(), cap, Val::Str),
		Sk::Rec => go(rd.deserialize::<RecT>(), cap, |r| Val::Rec(r.a, r.b)),
		Sk::Null => go(rd.deserialize::<()>(), cap, |()| Val::Null),
		Sk::ArrLong => go(rd.deserialize::<Vec<i64>>(), cap, Val::Arr),
		Sk::RecColl => go(rd.deserialize::<CollT>(), cap, |c| Val::Coll(c.xs, c.m)),
	}
}

fn next_loop<'de, R>(rd: &mut Reader<R>, sk: Sk, cap: usize) -> Vec<Result<Val, String>>
where
	R: serde_avro_fast::de::read::Read + Take + std::io::BufRead + ReadSlice<'de>,
	<R as Take>::Take: std::io::BufRead + ReadSlice<'de>,
{
	let mut out = Vec::new();
	while out.len() < cap {
		let r = match sk {
			Sk::Bytes => rd.deserialize_next::<serde_bytes::ByteBuf>().map(|o| o.map(|b| Val::Bytes(b.into_vec()))),
			Sk::Long => rd.deserialize_next::<i64>().map(|o| o.map(Val::Long)),
			Sk::Str => rd.deserialize_next::<String>().map(|o| o.map(Val::Str)),
			Sk::Rec => rd.deserialize_next::<RecT>().map(|o| o.map(|r| Val::Rec(r.a, r.b))),
			Sk::Null => rd.deserialize_next::<()>().map(|o| o.map(|()| Val::Null)),
			Sk::ArrLong => rd.deserialize_next::<Vec<i64>>().map(|o| o.map(Val::Arr)),
			Sk::RecColl => rd.deserialize_next::<CollT>().map(|o| o.map(|c| Val::Coll(c.xs, c.m))),
		};
		match r {
			Ok(None) => break,
			Ok(Some(v)) => out.push(Ok(v)),
			Err(e) => out.push(Err(e.to_string())),
		}
	}
	out
}

/// (results through the iterator API, results through the deserialize_next loop), same reader kind
fn read_both_ways(bytes: &[u8], sk: Sk, rk: Rk, cap: usize) -> Out<(Vec<Result<Val, String>>, Vec<Result<Val, String>>)> {
	fn open<'de, R>(src: R) -> Result<Reader<R>, String>
	where
		R: serde_avro_fast::de::read::Read + Take + std::io::BufRead + ReadSlice<'de>,
		<R as Take>::Take: std::io::BufRead + ReadSlice<'de>,
	{
		Reader::new(src).map_err(|e| format!("opening the reader failed: {e}"))
	}
	guarded(|| {
		Ok(match rk {
			Rk::Slice => (iter_owned(&mut Reader::from_slice(bytes).map_err(|e| format!("opening the reader failed: {e}"))?, sk, cap), next_loop(&mut open(SliceRead::new(bytes))?, sk, cap)),
			Rk::SliceBufRead => (iter_owned(&mut Reader::from_reader(bytes).map_err(|e| format!("opening the reader failed: {e}"))?, sk, cap), next_loop(&mut open(ReaderRead::new(bytes))?, sk, cap)),
			Rk::BufReader(c) => (iter_owned(&mut open(ReaderRead::new(std::io::BufReader::with_capacity(c, bytes)))?, sk, cap), next_loop(&mut open(ReaderRead::new(std::io::BufReader::with_capacity(c, bytes)))?, sk, cap)),
			Rk::Chunked(k) => (iter_owned(&mut open(ReaderRead::new(ChunkedBufRead::uniform(bytes, k)))?, sk, cap), next_loop(&mut open(ReaderRead::new(ChunkedBufRead::uniform(bytes, k)))?, sk, cap)),
		})
	})
}

#[derive(Deserialize)]
struct RecB<'a> {
	a: i64,
	#[serde(borrow)]
	b: &'a str,
}

/// a value read through the borrowed API, and the address range of its borrowed part (if the target borrows)
type Borrowed = (Val, Option<(usize, usize)>);

fn range_of(b: &[u8]) -> Option<(usize, usize)> {
	if b.is_empty() {
		None
	} else {
		Some((b.as_ptr() as usize, b.len()))
	}
}

fn borrowed_reads(bytes: &[u8], sk: Sk, cap: usize) -> Out<(Vec<Result<Borrowed, String>>, Vec<Result<Borrowed, String>>)> {
	guarded(|| {
		// deserialize_next_borrowed loop
		let mut rd = Reader::from_slice(bytes).map_err(|e| format!("opening the reader failed: {e}"))?;
		let mut by_next: Vec<Result<Borrowed, String>> = Vec::new();
		while by_next.len() < cap {
			let r: Result<Option<Borrowed>, serde_avro_fast::de::DeError> = match sk {
				Sk::Bytes => rd.deserialize_next_borrowed::<&[u8]>().map(|o| o.map(|b| (Val::Bytes(b.to_vec()), range_of(b)))),
				Sk::Str => rd.deserialize_next_borrowed::<&str>().map(|o| o.map(|s| (Val::Str(s.to_owned()), range_of(s.as_bytes())))),
				Sk::Rec => rd.deserialize_next_borrowed::<RecB>().map(|o| o.map(|r| (Val::Rec(r.a, r.b.to_owned()), range_of(r.b.as_bytes())))),
				Sk::Long => rd.deserialize_next_borrowed::<i64>().map(|o| o.map(|n| (Val::Long(n), None))),
				Sk::Null => rd.deserialize_next_borrowed::<()>().map(|o| o.map(|()| (Val::Null, None))),
				Sk::ArrLong => rd.deserialize_next_borrowed::<Vec<i64>>().map(|o| o.map(|v| (Val::Arr(v), None))),
				Sk::RecColl => rd.deserialize_next_borrowed::<CollT>().map(|o| o.map(|c| (Val::Coll(c.xs, c.m), None))),
			};
			match r {
				Ok(None) => break,
				Ok(Some(x)) => by_next.push(Ok(x)),
				Err(e) => by_next.push(Err(e.to_string())),
			}
		}
		// deserialize_borrowed iterator
		let mut rd = Reader::from_slice(bytes).map_err(|e| format!("opening the reader failed: {e}"))?;
		fn go<T, I: Iterator<Item = Result<T, serde_avro_fast::de::DeError>>>(it: I, cap: usize, f: impl Fn(T) -> Borrowed) -> Vec<Result<Borrowed, String>> {
			it.take(cap).map(|r| r.map(&f).map_err(|e| e.to_string())).collect()
		}
		let by_iter = match sk {
			Sk::Bytes => go(rd.deserialize_borrowed::<&[u8]>(), cap, |b| (Val::Bytes(b.to_vec()), range_of(b))),
			Sk::Str => go(rd.deserialize_borrowed::<&str>(), cap, |s| (Val::Str(s.to_owned()), range_of(s.as_bytes()))),
			Sk::Rec => go(rd.deserialize_borrowed::<RecB>(), cap, |r| (Val::Rec(r.a, r.b.to_owned()), range_of(r.b.as_bytes()))),
			Sk::Long => go(rd.deserialize_borrowed::<i64>(), cap, |n| (Val::Long(n), None)),
			Sk::Null => go(rd.deserialize_borrowed::<()>(), cap, |()| (Val::Null, None)),
			Sk::ArrLong => go(rd.deserialize_borrowed::<Vec<i64>>(), cap, |v| (Val::Arr(v), None)),
			Sk::RecColl => go(rd.deserialize_borrowed::<CollT>(), cap, |c| (Val::Coll(c.xs, c.m), None)),
		};
		Ok((by_next, by_iter))
	})
}

fn show(rs: &[Result<Val, String>]) -> String {
	truncate(&format!("{:?}", rs.iter().map(|r| match r { Ok(v) => format!("Ok({v:?})"), Err(e) => format!("Err({e:?})") }).collect::<Vec<_>>()), 500)
}

// ---------------------------------------------------------------------------------------------

pub fn run_api_case(spec: &FileSpec, params: &Params, cover: &mut Cover, verbose: bool) -> CaseOut {
	let mut out = CaseOut { violations: Vec::new(), sigs: Vec::new() };
	let label = spec.label();
	let mut push = |class: &str, what: String| {
		let sig = format!("{class}|{}|{:?}|{}", spec.codec.name(), spec.sk, truncate(&digits_normalised(&what), 100));
		if verbose {
			println!("  VIOLATES [{class}] {what}");
		}
		out.violations.push(Violation { class: class.to_owned(), what: format!("{label}: {what}"), replay: json!({"check": "C05", "spec": spec, "reader": serde_json::Value::Null, "params": params, "sig": sig}) });
		out.sigs.push(sig);
	};
	let Some((steps, expected)) = plan(spec) else {
		cover.count("specs_skipped_size_not_representable", 1);
		return out;
	};
	cover.evaluations += 1;
	cover.impl_runs += 1;
	// the reference point: the plain serialize loop with the pinned marker (judged by the main sweep)
	let pinned = match write_file(spec, &steps) {
		Out::Ok(b) => b,
		_ => {
			cover.count("api_cases_without_pinned_file(judged by the main sweep)", 1);
			return out;
		}
	};
	if verbose {
		println!("  pinned-marker file: {} bytes{}", pinned.len(), if pinned.len() <= 300 { format!(": {}", hex(&pinned)) } else { String::new() });
		println!("  values written: {}", truncate(&format!("{expected:?}"), 400));
	}
	cover.count("api_cases", 1);
	cover.nontrivial.insert(hash64(spec));
	let only_ser = steps.iter().all(|s| matches!(s, Step::Ser(_)));
	let has_ser_run = steps.windows(2).any(|w| matches!(w, [Step::Ser(_), Step::Ser(_)]));
	let mut vars = vec![WVar::DefaultMarker, WVar::SerializeAll, WVar::OwnedConfig, WVar::Tee];
	if spec.sk == Sk::Bytes {
		vars.extend([WVar::SlowSeqBorrowed, WVar::SlowSeqOwned, WVar::SlowSeqAccessor]);
	}
	for var in vars {
		cover.impl_runs += 1;
		cover.states += steps.len() as u64 + 1;
		cover.transitions += steps.len() as u64;
		let r = write_variant(spec, &steps, var);
		if verbose {
			println!("  writer variant [{}] -> {}", var.label(), match &r { Out::Ok(b) => format!("{} bytes", b.len()), Out::Err(e) => format!("Err({e})"), Out::Panic(p) => format!("panic({p})") });
		}
		let bytes = match r {
			Out::Ok(b) => b,
			Out::Err(e) => {
				push("api-writer-variant-err", format!("[{}] fails although the serialize loop with a pinned marker succeeds: {e}", var.label()));
				continue;
			}
			Out::Panic(p) => {
				push("api-writer-variant-panic", format!("[{}] panicked: {p}", var.label()));
				continue;
			}
		};
		cover.outcomes.insert(hash64(&(var, hash64(&bytes) == hash64(&pinned))));
		match var {
			WVar::DefaultMarker => {
				let (diff, marker) = equal_modulo_marker(&pinned, &bytes);
				match diff {
					Some(d) => push("api-default-marker", format!("[{}] the file is not the pinned-marker file with another marker: {d}; {}", var.label(), describe_file(spec.sk, &bytes))),
					None => {
						cover.count("api_default_marker_files_equal_modulo_marker", 1);
						// noted, not judged: a second default marker differs from the first
						if let Out::Ok(b2) = write_variant(spec, &steps, var) {
							let (_, m2) = equal_modulo_marker(&pinned, &b2);
							cover.count(if m2 != marker { "api_default_marker_pairs_distinct(noted)" } else { "api_default_marker_pairs_equal(noted, not judged)" }, 1);
						}
					}
				}
			}
			_ => {
				if bytes != pinned {
					push("api-writer-variant-differs", format!("[{}] writes a different file than the serialize loop on a borrowed config ({} vs {} bytes, {}); {}", var.label(), bytes.len(), pinned.len(), first_diff(&bytes, &pinned), describe_file(spec.sk, &bytes)));
				} else {
					let k = match var {
						WVar::SerializeAll => {
							if has_ser_run {
								cover.count("api_serialize_all_on_runs_of_2_or_more", 1);
							}
							"api_serialize_all_files_equal"
						}
						WVar::OwnedConfig => "api_owned_config_files_equal",
						WVar::SlowSeqBorrowed => "api_slow_sequence_option_borrowed_files_equal",
						WVar::SlowSeqOwned => "api_slow_sequence_option_owned_files_equal",
						WVar::SlowSeqAccessor => "api_slow_sequence_option_via_serializer_config_accessor_files_equal",
						_ => "api_inner_and_inner_mut_observations_equal_the_sink",
					};
					cover.count(k, 1);
				}
			}
		}
	}
	// write_all: serialize-only histories, against the default block size
	if only_ser && spec.meta == 0 {
		let spec64 = FileSpec { abs: 64 * 1024, ..spec.clone() };
		cover.impl_runs += 2;
		if let Out::Ok(pinned64) = write_file(&spec64, &steps) {
			match write_variant(spec, &steps, WVar::WriteAll) {
				Out::Ok(bytes) => {
					if verbose {
						println!("  writer variant [{}] -> {} bytes", WVar::WriteAll.label(), bytes.len());
					}
					match equal_modulo_marker(&pinned64, &bytes).0 {
						Some(d) => push("api-write-all", format!("[{}] the file is not the file of the serialize loop with the default block size (modulo the marker): {d}; {}; {} values were given", WVar::WriteAll.label(), describe_file(spec.sk, &bytes), expected.len())),
						None => cover.count("api_write_all_files_equal_modulo_marker", 1),
					}
				}
				Out::Err(e) => push("api-writer-variant-err", format!("[{}] fails although the serialize loop succeeds: {e}", WVar::WriteAll.label())),
				Out::Panic(p) => push("api-writer-variant-panic", format!("[{}] panicked: {p}", WVar::WriteAll.label())),
			}
		}
	}

	// --- reader entry points on the pinned file
	let cap = expected.len() + 3;
	for rk in [Rk::Slice, Rk::SliceBufRead, Rk::BufReader(7), Rk::Chunked(3), Rk::Chunked(4096)] {
		cover.impl_runs += 2;
		match read_both_ways(&pinned, spec.sk, rk, cap) {
			Out::Ok((it, lp)) => {
				let want: Vec<Result<Val, String>> = expected.iter().cloned().map(Ok).collect();
				if verbose {
					println!("  Reader::deserialize() iterator through {:<24} -> {} items, {} Ok", rk.label(), it.len(), it.iter().filter(|r| r.is_ok()).count());
				}
				if it != want {
					push("api-iterator-differs", format!("Reader::deserialize() through {} yields {}; the {} written values were {}; the deserialize_next loop yields {}", rk.label(), show(&it), expected.len(), truncate(&format!("{expected:?}"), 300), show(&lp)));
				} else {
					cover.count("api_iterator_reads_ok", 1);
				}
			}
			Out::Err(e) => push("api-iterator-differs", format!("Reader::deserialize() through {}: {e}", rk.label())),
			Out::Panic(p) => push("api-reader-panic", format!("Reader::deserialize() through {} panicked: {p}", rk.label())),
		}
	}
	// cut files: the iterator must report what the deserialize_next loop reports (Ok values and Err positions)
	for cut in [1usize, 17] {
		if pinned.len() <= cut + 4 {
			continue;
		}
		let damaged = &pinned[..pinned.len() - cut];
		for rk in [Rk::Slice, Rk::Chunked(5)] {
			cover.impl_runs += 2;
			match read_both_ways(damaged, spec.sk, rk, cap) {
				Out::Ok((it, lp)) => {
					let kinds = |v: &[Result<Val, String>]| v.iter().map(|r| r.as_ref().ok().cloned()).collect::<Vec<_>>();
					if kinds(&it) != kinds(&lp) {
						push("api-iterator-vs-next", format!("on the file cut by {cut} byte(s), through {}: Reader::deserialize() yields {} but the deserialize_next loop yields {}", rk.label(), show(&it), show(&lp)));
					} else {
						cover.count("api_iterator_equals_next_loop_on_cut_files", 1);
						if lp.iter().any(|r| r.is_err()) {
							cover.count("api_cut_files_where_both_report_an_error", 1);
						}
					}
				}
				Out::Err(_) => cover.count("api_cut_files_reader_cannot_be_opened(both ways)", 1),
				Out::Panic(p) => push("api-reader-panic", format!("reading the file cut by {cut} byte(s) through {} panicked: {p}", rk.label())),
			}
		}
	}
	// borrowed API (slice only)
	cover.impl_runs += 2;
	match borrowed_reads(&pinned, spec.sk, cap) {
		Out::Ok((by_next, by_iter)) => {
			let lo = pinned.as_ptr() as usize;
			let hi = lo + pinned.len();
			for (name, got, okc) in [("deserialize_next_borrowed", &by_next, "api_borrowed_next_reads_ok"), ("deserialize_borrowed", &by_iter, "api_borrowed_iterator_reads_ok")] {
				if verbose {
					println!("  {name} on the slice -> {} items, {} Ok", got.len(), got.iter().filter(|r| r.is_ok()).count());
				}
				let vals: Vec<Result<Val, String>> = got.iter().map(|r| r.as_ref().map(|x| x.0.clone()).map_err(|e| e.clone())).collect();
				if spec.codec == Codec::Null {
					let want: Vec<Result<Val, String>> = expected.iter().cloned().map(Ok).collect();
					if vals != want {
						push("api-borrowed-differs", format!("{name} with a borrowing target on the uncompressed file yields {}; the written values were {}", show(&vals), truncate(&format!("{expected:?}"), 300)));
						continue;
					}
					let mut outside = None;
					for (i, r) in got.iter().enumerate() {
						if let Ok((_, Some((p, l)))) = r {
							if *p < lo || p + l > hi {
								outside = Some(i);
							} else {
								cover.count("api_borrowed_values_pointing_into_the_file", 1);
							}
						}
					}
					if let Some(i) = outside {
						push("api-borrowed-not-from-input", format!("{name}: value #{i} was handed out as borrowed but does not point into the file slice"));
					} else {
						cover.count(okc, 1);
					}
				} else {
					// compressed: borrowing may fail (documented): the items before the first Err must be the
					// written values in order; without any Err, all of them
					let first_err = vals.iter().position(|r| r.is_err()).unwrap_or(vals.len());
					let mut bad = None;
					for i in 0..first_err {
						if vals[i].as_ref().ok() != expected.get(i) {
							bad = Some(i);
							break;
						}
					}
					if bad.is_none() && first_err == vals.len() && vals.len() != expected.len() {
						bad = Some(vals.len().min(expected.len()));
					}
					if let Some(i) = bad {
						push("api-borrowed-differs", format!("{name} on the compressed file: item #{i} is not the written value #{i} (or values are missing without any Err): {}; written {}", show(&vals), truncate(&format!("{expected:?}"), 300)));
					} else {
						cover.count(okc, 1);
						if vals.iter().any(|r| r.is_err()) {
							cover.count("api_borrowed_err_on_compressed_file(acceptable)", 1);
						}
					}
				}
			}
		}
		Out::Err(e) => push("api-borrowed-differs", format!("borrowed API: {e}")),
		Out::Panic(p) => push("api-reader-panic", format!("the borrowed API panicked: {p}")),
	}
	// Reader::schema()
	let sch = guarded(|| {
		let rd = Reader::from_slice(&pinned).map_err(|e| e.to_string())?;
		let s = rd.schema();
		Ok((s.json().to_owned(), *s.rabin_fingerprint()))
	});
	let writer_schema: serde_avro_fast::Schema = spec.sk.json().parse().expect("schema");
	match sch {
		Out::Ok((j, fp)) => {
			if j != writer_schema.json() || fp != *writer_schema.rabin_fingerprint() {
				push("api-reader-schema", format!("Reader::schema() is {j} (fingerprint {}), the writer's schema is {} (fingerprint {})", hex(&fp), writer_schema.json(), hex(writer_schema.rabin_fingerprint())));
			} else {
				cover.count("api_reader_schema_equals_writer_schema", 1);
			}
		}
		Out::Err(e) | Out::Panic(e) => push("api-reader-schema", format!("Reader::schema(): {e}")),
	}
	out
}

pub fn api_specs(thorough: bool) -> Vec<FileSpec> {
	let mut v = Vec::new();
	let mut hist: Vec<(u32, Vec<Op>)> = Vec::new();
	if thorough {
		for ops in super::sequences(&[Op::S, Op::P, Op::F], 3) {
			for abs in [0u32, 2, 64 * 1024] {
				hist.push((abs, ops.clone()));
			}
		}
		hist.push((3, vec![Op::S; 6]));
		hist.push((5, vec![Op::P, Op::S, Op::S, Op::F, Op::S, Op::S, Op::S]));
	} else {
		hist.extend([
			(64 * 1024, vec![]),
			(64 * 1024, vec![Op::S]),
			(0, vec![Op::S, Op::S, Op::S, Op::S]),
			(3, vec![Op::S, Op::S, Op::S, Op::S]),
			(64 * 1024, vec![Op::S, Op::S, Op::S, Op::S]),
			(2, vec![Op::S, Op::F, Op::S, Op::P, Op::S]),
			(5, vec![Op::P, Op::S, Op::S, Op::F, Op::S, Op::S, Op::S]),
			(64 * 1024, vec![Op::F, Op::P, Op::S, Op::S]),
			(1, vec![Op::S, Op::S, Op::F]),
		]);
	}
	for codec in Codec::ALL {
		for sk in Sk::ALL.into_iter().chain(Sk::COLL) {
			for (abs, ops) in &hist {
				v.push(FileSpec { codec, level: 0, sk, abs: *abs, ops: ops.clone(), meta: 0, api: true });
			}
		}
		// the iterator given to write_all / serialize_all ends exactly at a block boundary (default 64 KiB), or just around it
		let k64 = 64 * 1024u32;
		for (sk, ops) in [
			(Sk::Bytes, vec![Op::Mid { n: 64, len: 1024, inc: true }]),
			(Sk::Bytes, vec![Op::Big { s: 65536, inc: true }]),
			(Sk::Bytes, vec![Op::Big { s: 65536, inc: false }, Op::S]),
			(Sk::Str, vec![Op::S, Op::Mid { n: 66, len: 1000, inc: true }, Op::S]),
			(Sk::Long, vec![Op::Run { s: 65536, inc: true }]),
			(Sk::Long, vec![Op::Run { s: 65535, inc: false }, Op::S]),
			(Sk::Rec, vec![Op::Mid { n: 32, len: 2048, inc: false }, Op::Mid { n: 32, len: 2048, inc: true }]),
			(Sk::ArrLong, vec![Op::Coll { n: 1001, map: false, push: false }, Op::S, Op::Coll { n: 5000, map: false, push: false }]),
		] {
			v.push(FileSpec { codec, level: 0, sk, abs: k64, ops, meta: 0, api: true });
		}
		v.push(FileSpec { codec, level: 0, sk: Sk::Bytes, abs: 2048, ops: vec![Op::Mid { n: 8, len: 1024, inc: true }, Op::F, Op::P, Op::Mid { n: 3, len: 1024, inc: false }], meta: 0, api: true });
	}
	v
}
