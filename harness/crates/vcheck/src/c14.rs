//! C14 — reusing a `SerializerConfig` never changes output; failures leave it clean.
//!
//! HIST: explicit-state BFS over operations applied to ONE `SerializerConfig`:
//!   ok(v)          successful serialization of a value (in-order record, out-of-order record,
//!                  nested out-of-order records, seq→bytes buffered …) — every ok(v) is a *probe*:
//!                  its result is compared with what a fresh configuration produces (= reference
//!                  encoder) in every state;
//!   fail_at(v,k)   the same value, its k-th nested `Serialize::serialize` call failing, every k;
//!   io_fail(v,n)   the same value into a sink that errors after n bytes, every n < |encoding|;
//!   natural(f)     presentations the crate itself rejects (unknown / duplicate / missing field with
//!                  buffers outstanding, element out of u8 range inside a buffered seq→bytes, …).
//! A state is rebuilt by replaying its history on a fresh configuration; the state key is exact:
//! the ordered (len, capacity) lists of both buffer pools read through hook H4
//! (`SerializerConfig::verif_pools`) — the complete mutable state of a configuration, given that a
//! zero-length `Vec`'s contents are unobservable. Invariant in every state: no panic, every
//! operation's outcome and bytes equal the fresh-configuration ones, every pooled buffer and
//! super-buffer has `len == 0`.

use crate::c13::Shared;
use crate::explore::{hash64, Cover};
use crate::gen;
use crate::pres::{self, intern, Pres};
use crate::report::{hex, Report, Violation};
use crate::subj::{guarded, Out};
use rayon::prelude::*;
use serde_avro_fast::ser::SerializerConfig;
use serde_json::json;
use std::collections::{BTreeSet, HashSet};
use vmodel::schema::{Env, RSchema};
use vmodel::value::{Canonical, RValue};

// ---------------------------------------------------------------------------------------------
// presentations of a value

#[derive(Clone, Copy, Debug, PartialEq)]
pub enum Order {
	Id,
	Rev,
	/// b, c, …, a: everything buffered, then the first field flushes them all
	RotL,
	/// odd positions first, then even ones (b, d, a, c, e): buffering and partial flushes alternate
	Mix,
	/// the k-th permutation (factorial number system) of the presented fields
	Perm(u8),
}
#[derive(Clone, Copy, Debug, PartialEq)]
pub enum BytesMode {
	Bytes,
	/// `serialize_seq(None)` + u8 elements: buffered in a pooled buffer
	SeqNone,
	/// `serialize_seq(Some(len))` + u8 elements
	SeqSome,
	/// `serialize_tuple(len)` + u8 elements
	Tuple,
}
#[derive(Clone, Copy, Debug)]
pub struct Recipe {
	pub outer: Order,
	pub inner: Order,
	pub bytes: BytesMode,
	/// 0 struct, 1 map + serialize_entry, 2 map + serialize_key/serialize_value
	pub style: u8,
	/// leave out fields whose value is null
	pub omit_null: bool,
}

fn is_nullish(v: &RValue) -> bool {
	matches!(v, RValue::Null) || matches!(v, RValue::Union(_, b) if matches!(**b, RValue::Null))
}

pub fn present(v: &RValue, s: &RSchema, env: &Env, r: &Recipe, depth: usize) -> Pres {
	match (env.resolve(s), v) {
		(RSchema::Null, RValue::Null) => Pres::Unit,
		(RSchema::Int, RValue::Int(i)) => Pres::I32(*i),
		(RSchema::Long, RValue::Long(i)) => Pres::I64(*i),
		(RSchema::String, RValue::Str(x)) => Pres::Str(x.clone()),
		(RSchema::Bytes, RValue::Bytes(b)) => match r.bytes {
			BytesMode::Bytes => Pres::Bytes(b.clone()),
			BytesMode::SeqNone => Pres::Seq { len: None, elems: b.iter().map(|x| Pres::U8(*x)).collect() },
			BytesMode::SeqSome => Pres::Seq { len: Some(b.len()), elems: b.iter().map(|x| Pres::U8(*x)).collect() },
			BytesMode::Tuple => Pres::Tuple(b.iter().map(|x| Pres::U8(*x)).collect()),
		},
		(RSchema::Fixed { .. }, RValue::Fixed(b)) => match r.bytes {
			BytesMode::Bytes => Pres::Bytes(b.clone()),
			BytesMode::SeqNone => Pres::Seq { len: None, elems: b.iter().map(|x| Pres::U8(*x)).collect() },
			BytesMode::SeqSome => Pres::Seq { len: Some(b.len()), elems: b.iter().map(|x| Pres::U8(*x)).collect() },
			BytesMode::Tuple => Pres::Tuple(b.iter().map(|x| Pres::U8(*x)).collect()),
		},
		(RSchema::Union(bs), RValue::Union(i, inner)) => {
			if matches!(env.resolve(&bs[*i]), RSchema::Null) {
				Pres::None
			} else {
				Pres::Some(Box::new(present(inner, &bs[*i], env, r, depth)))
			}
		}
		(RSchema::Array(item), RValue::Array(items)) => Pres::seq(items.iter().map(|i| present(i, item, env, r, depth)).collect()),
		(RSchema::Record { name, fields }, RValue::Record(vals)) => {
			let mut f: Vec<(&'static str, Pres)> = Vec::new();
			for ((fname, fs), fv) in fields.iter().zip(vals) {
				if r.omit_null && is_nullish(fv) {
					continue;
				}
				f.push((intern(fname), present(fv, fs, env, r, depth + 1)));
			}
			match if depth == 0 { r.outer } else { r.inner } {
				Order::Id => {}
				Order::Rev => f.reverse(),
				Order::RotL => {
					if !f.is_empty() {
						f.rotate_left(1)
					}
				}
				Order::Perm(k) => {
					let mut k = k as usize;
					let mut rest: Vec<_> = f.drain(..).collect();
					let mut fact: usize = (1..=rest.len()).product();
					while !rest.is_empty() {
						fact /= rest.len();
						let i = (k / fact) % rest.len();
						k %= fact;
						f.push(rest.remove(i));
					}
				}
				Order::Mix => {
					let (odd, even): (Vec<_>, Vec<_>) = f.drain(..).enumerate().partition(|(i, _)| i % 2 == 1);
					f.extend(odd.into_iter().chain(even).map(|(_, x)| x));
				}
			}
			match r.style {
				0 => Pres::Struct { name: intern(name), fields: f },
				st => Pres::Map { len: Some(f.len()), entries: f.into_iter().map(|(k, v)| (Pres::str(k), v)).collect(), split: st == 2 },
			}
		}
		(s, v) => panic!("MACHINERY: C14 present: {v:?} does not conform to {s:?}"),
	}
}

pub const TAG_BUFFERED: u8 = 1;
pub const TAG_NESTED_OOO: u8 = 2;
pub const TAG_SEQBYTES: u8 = 4;
/// element of a known-length seq / tuple presented to bytes or fixed
pub const TAG_SIZED_SEQ: u8 = 8;

/// One tag byte per `Pres::serialize` call, in call order: where (relative to the serializer's
/// buffering) the call happens. Used only for coverage accounting of fail_at(v, k).
fn annotate(p: &Pres, s: &RSchema, env: &Env, buffered: bool, nested_ooo: bool, out: &mut Vec<u8>) {
	let tag = (buffered as u8) * TAG_BUFFERED | (nested_ooo as u8) * TAG_NESTED_OOO;
	let s = env.resolve(s);
	// a presentation other than None/Unit given to a union goes to its non-null branch
	let s = match s {
		RSchema::Union(bs) if !matches!(p, Pres::None | Pres::Unit) => bs.iter().map(|b| env.resolve(b)).find(|b| !matches!(b, RSchema::Null)).unwrap_or(s),
		s => s,
	};
	match p {
		Pres::Some(inner) => {
			out.push(tag);
			annotate(inner, s, env, buffered, nested_ooo, out);
		}
		Pres::Struct { .. } | Pres::Map { .. } if matches!(s, RSchema::Record { .. }) => {
			out.push(tag);
			let RSchema::Record { fields, .. } = s else { unreachable!() };
			let entries: Vec<(String, &Pres, bool)> = match p {
				Pres::Struct { fields, .. } => fields.iter().map(|(k, v)| (k.to_string(), v, false)).collect(),
				Pres::Map { entries, .. } => entries
					.iter()
					.map(|(k, v)| {
						(
							match k {
								Pres::Str(s) => s.clone(),
								_ => String::new(),
							},
							v,
							true,
						)
					})
					.collect(),
				_ => unreachable!(),
			};
			let mut presented = vec![false; fields.len()];
			let mut cur = 0usize;
			for (k, v, key_is_call) in entries {
				if key_is_call {
					out.push(tag);
				}
				let Some(idx) = fields.iter().position(|(n, _)| *n == k) else { break };
				if presented[idx] {
					break;
				}
				let in_order = idx == cur;
				annotate(v, &fields[idx].1, env, buffered || !in_order, nested_ooo || (buffered && !in_order), out);
				presented[idx] = true;
				while cur < fields.len() && presented[cur] {
					cur += 1;
				}
			}
		}
		Pres::Seq { len, elems } => {
			out.push(tag);
			match s {
				RSchema::Bytes => {
					for _ in elems {
						out.push(tag | if len.is_none() { TAG_SEQBYTES } else { TAG_SIZED_SEQ });
					}
				}
				RSchema::Fixed { .. } => {
					for _ in elems {
						out.push(tag | TAG_SIZED_SEQ);
					}
				}
				RSchema::Array(item) => {
					for e in elems {
						annotate(e, item, env, buffered, nested_ooo, out);
					}
				}
				_ => {}
			}
		}
		Pres::Tuple(elems) => {
			out.push(tag);
			for _ in elems {
				out.push(tag | TAG_SIZED_SEQ);
			}
		}
		_ => out.push(tag),
	}
}

// ---------------------------------------------------------------------------------------------
// units

pub struct Val {
	pub name: String,
	pub pres: Pres,
	pub tags: Vec<u8>,
}

pub struct Unit {
	pub id: usize,
	pub name: String,
	pub schema: RSchema,
	pub allow_slow: bool,
	pub values: Vec<Val>,
	pub naturals: Vec<(String, Pres)>,
}

#[derive(Clone, Copy, Debug, PartialEq, Eq, Hash)]
pub enum Op {
	Ok(usize),
	FailAt(usize, usize),
	IoFail(usize, usize),
	Natural(usize),
}

fn u(i: usize, v: RValue) -> RValue {
	RValue::Union(i, Box::new(v))
}

fn recipe(outer: Order, inner: Order, bytes: BytesMode, style: u8, omit_null: bool) -> Recipe {
	Recipe { outer, inner, bytes, style, omit_null }
}

fn recipe_name(r: &Recipe) -> String {
	format!("outer={:?},inner={:?},bytes={:?},{}{}", r.outer, r.inner, r.bytes, ["struct", "map-entry", "map-split"][r.style as usize], if r.omit_null { ",nulls omitted" } else { "" })
}

/// edit the field list of the struct reached by following `path` (field names) from the top
fn edit_struct(p: &mut Pres, path: &[&str], f: &mut dyn FnMut(&mut Vec<(&'static str, Pres)>)) {
	match p {
		Pres::Struct { fields, .. } => match path.split_first() {
			None => f(fields),
			Some((head, rest)) => {
				let Some(child) = fields.iter_mut().find(|(k, _)| k == head) else { panic!("MACHINERY: C14 edit_struct: no field {head}") };
				edit_struct(&mut child.1, rest, f)
			}
		},
		Pres::Some(inner) => edit_struct(inner, path, f),
		_ => panic!("MACHINERY: C14 edit_struct on {}", p.kind()),
	}
}

fn edited(base: &Pres, path: &[&str], mut f: impl FnMut(&mut Vec<(&'static str, Pres)>)) -> Pres {
	let mut p = base.clone();
	edit_struct(&mut p, path, &mut f);
	p
}

fn unit_top(id: usize, allow_slow: bool) -> Unit {
	use BytesMode::*;
	use Order::*;
	let inner = RSchema::record("Inner", vec![("x", RSchema::Int), ("y", RSchema::Bytes), ("z", RSchema::Union(vec![RSchema::Null, RSchema::String]))]);
	let schema = RSchema::record("Top", vec![("a", RSchema::Int), ("b", RSchema::String), ("c", RSchema::Union(vec![RSchema::Null, RSchema::Int])), ("d", inner), ("e", RSchema::Bytes)]);
	let full = RValue::Record(vec![
		RValue::Int(3),
		RValue::Str("ab".into()),
		u(1, RValue::Int(5)),
		RValue::Record(vec![RValue::Int(-70), RValue::Bytes(vec![1, 2, 3]), u(1, RValue::Str("q".into()))]),
		RValue::Bytes(vec![9, 8]),
	]);
	let nulls = RValue::Record(vec![
		RValue::Int(1000),
		RValue::Str("a longer string than the others".into()),
		u(0, RValue::Null),
		RValue::Record(vec![RValue::Int(0), RValue::Bytes(vec![]), u(0, RValue::Null)]),
		RValue::Bytes(vec![0xff; 9]),
	]);
	let env = Env::new(&schema);
	let list: Vec<(&RValue, Recipe)> = vec![
		(&full, recipe(Id, Id, Bytes, 0, false)),
		(&full, recipe(Rev, Id, Bytes, 0, false)),
		(&full, recipe(Rev, Rev, Bytes, 0, false)),
		(&full, recipe(Id, Id, SeqNone, 0, false)),
		(&full, recipe(Rev, Rev, SeqNone, 0, false)),
		(&full, recipe(RotL, RotL, SeqSome, 1, false)),
		(&nulls, recipe(Rev, Rev, Bytes, 2, true)),
		(&nulls, recipe(RotL, Id, SeqNone, 0, true)),
		(&full, recipe(Mix, Mix, SeqNone, 0, false)),
		(&nulls, recipe(Mix, Rev, Bytes, 1, false)),
	];
	let values = make_values(&schema, &env, &list);
	let base = present(&full, &schema, &env, &recipe(Rev, Rev, Bytes, 0, false), 0);
	let base_seq = present(&full, &schema, &env, &recipe(Rev, Rev, SeqNone, 0, false), 0);
	let base_id = present(&full, &schema, &env, &recipe(Id, Id, Bytes, 0, false), 0);
	let naturals: Vec<(String, Pres)> = vec![
		("a, b, d presented: nullable c omitted and d ahead of its turn BEFORE the missing required e".into(), edited(&base_id, &[], |f| f.retain(|(k, _)| ["a", "b", "d"].contains(k)))),
		("nested: only x presented in Inner (nullable z after missing required y), Inner in order".into(), edited(&base_id, &["d"], |f| f.retain(|(k, _)| *k == "x"))),
		("unknown field after two buffered fields".into(), edited(&base, &[], |f| f.insert(2, ("zz", Pres::I32(0))))),
		("duplicate of a buffered field (e, d, e, …)".into(), edited(&base, &[], |f| f.insert(2, ("e", Pres::Bytes(vec![7]))))),
		("duplicate of an emitted field after the flush (…, a, b)".into(), edited(&base, &[], |f| f.push(("b", Pres::str("again"))))),
		("required field a missing at end() with four buffers outstanding".into(), edited(&base, &[], |f| f.retain(|(k, _)| *k != "a"))),
		("required field x of the nested record missing, nested record itself buffered".into(), edited(&base, &["d"], |f| f.retain(|(k, _)| *k != "x"))),
		("unknown field inside the nested buffered record after one nested buffer".into(), edited(&base, &["d"], |f| f.insert(1, ("zz", Pres::I32(0))))),
		("type mismatch in a buffered field (b presented as bool)".into(), edited(&base, &[], |f| f.iter_mut().filter(|(k, _)| *k == "b").for_each(|(_, v)| *v = Pres::Bool(true)))),
		(
			"element out of u8 range inside seq->bytes (len None) of the nested buffered record".into(),
			edited(&base_seq, &["d"], |f| f.iter_mut().filter(|(k, _)| *k == "y").for_each(|(_, v)| *v = Pres::Seq { len: None, elems: vec![Pres::U8(1), Pres::U16(300), Pres::U8(2)] })),
		),
		(
			"seq->bytes advertising 3 elements, presenting 2, in a buffered field".into(),
			edited(&base, &[], |f| f.iter_mut().filter(|(k, _)| *k == "e").for_each(|(_, v)| *v = Pres::Seq { len: Some(3), elems: vec![Pres::U8(1), Pres::U8(2)] })),
		),
		(
			"non-integer element inside seq->bytes (len None) at the top level field e, in order".into(),
			edited(&present(&full, &schema, &env, &recipe(Id, Id, SeqNone, 0, false), 0), &[], |f| {
				f.iter_mut().filter(|(k, _)| *k == "e").for_each(|(_, v)| *v = Pres::Seq { len: None, elems: vec![Pres::U8(1), Pres::str("x")] })
			}),
		),
	];
	Unit { id, name: format!("Top/Inner/bytes allow_slow_sequence_to_bytes={allow_slow}"), schema, allow_slow, values, naturals }
}

fn unit_arrays(id: usize, allow_slow: bool) -> Unit {
	use BytesMode::*;
	use Order::*;
	let item = RSchema::record("Item", vec![("x", RSchema::Int), ("y", RSchema::Bytes)]);
	let leaf = RSchema::record("Leaf", vec![("u", RSchema::Int), ("w", RSchema::String)]);
	let mid = RSchema::record("Mid", vec![("m", leaf), ("k", RSchema::Long)]);
	let schema = RSchema::record("T2", vec![("p", RSchema::array(item)), ("q", RSchema::Int), ("r", mid)]);
	let v = RValue::Record(vec![
		RValue::Array(vec![RValue::Record(vec![RValue::Int(1), RValue::Bytes(vec![5, 6])]), RValue::Record(vec![RValue::Int(-1), RValue::Bytes(vec![])])]),
		RValue::Int(64),
		RValue::Record(vec![RValue::Record(vec![RValue::Int(8191), RValue::Str("w".into())]), RValue::Long(-65)]),
	]);
	let env = Env::new(&schema);
	let list: Vec<(&RValue, Recipe)> = vec![
		(&v, recipe(Id, Id, Bytes, 0, false)),
		(&v, recipe(Rev, Rev, Bytes, 0, false)),
		(&v, recipe(Rev, Rev, SeqNone, 0, false)),
		(&v, recipe(RotL, Rev, SeqNone, 1, false)),
		(&v, recipe(Id, Rev, SeqSome, 2, false)),
		(&v, recipe(Mix, Mix, SeqNone, 0, false)),
	];
	let values = make_values(&schema, &env, &list);
	let base = present(&v, &schema, &env, &recipe(Rev, Rev, Bytes, 0, false), 0);
	let naturals: Vec<(String, Pres)> = vec![
		("required field u missing three record levels deep, every level buffered".into(), edited(&base, &["r", "m"], |f| f.retain(|(k, _)| *k != "u"))),
		("duplicate field three record levels deep".into(), edited(&base, &["r", "m"], |f| f.push(("w", Pres::str("again"))))),
		("required field q missing at end()".into(), edited(&base, &[], |f| f.retain(|(k, _)| *k != "q"))),
	];
	Unit { id, name: format!("T2/array<Item>/Mid/Leaf allow_slow_sequence_to_bytes={allow_slow}"), schema, allow_slow, values, naturals }
}

fn unit_bytes(id: usize, allow_slow: bool) -> Unit {
	use BytesMode::*;
	use Order::*;
	let schema = RSchema::record("B", vec![("h", RSchema::Bytes), ("g", RSchema::Bytes)]);
	let v = RValue::Record(vec![RValue::Bytes(vec![1, 2, 3]), RValue::Bytes((0..20).collect())]);
	let env = Env::new(&schema);
	let list: Vec<(&RValue, Recipe)> = vec![(&v, recipe(Id, Id, SeqNone, 0, false)), (&v, recipe(Rev, Id, SeqNone, 0, false)), (&v, recipe(Rev, Id, Bytes, 1, false)), (&v, recipe(Id, Id, SeqSome, 2, false))];
	let values = make_values(&schema, &env, &list);
	let base = present(&v, &schema, &env, &recipe(Rev, Id, SeqNone, 0, false), 0);
	let naturals: Vec<(String, Pres)> = vec![
		("u16 300 inside seq->bytes (len None) of a buffered field".into(), edited(&base, &[], |f| f[0].1 = Pres::Seq { len: None, elems: vec![Pres::U8(0), Pres::U16(300)] })),
		("negative i8 inside seq->bytes (len None), in order".into(), edited(&base, &[], |f| {
			f.reverse();
			f[0].1 = Pres::Seq { len: None, elems: vec![Pres::U8(0), Pres::U8(1), Pres::I8(-1)] }
		})),
		("seq->bytes exceeding the advertised length".into(), edited(&base, &[], |f| f[0].1 = Pres::Seq { len: Some(1), elems: vec![Pres::U8(0), Pres::U8(1)] })),
	];
	Unit { id, name: format!("B{{h:bytes,g:bytes}} allow_slow_sequence_to_bytes={allow_slow}"), schema, allow_slow, values, naturals }
}

/// Q{a:int, b:[null,string], c:int, d:int}: a skipped nullable / ahead-of-turn field before a
/// missing required one (failing), records that leave work for end() (probes)
fn unit_opt_before_required(id: usize) -> Unit {
	use BytesMode::*;
	use Order::*;
	let schema = RSchema::record("Q", vec![("a", RSchema::Int), ("b", RSchema::Union(vec![RSchema::Null, RSchema::String])), ("c", RSchema::Int), ("d", RSchema::Int)]);
	let with_b = RValue::Record(vec![RValue::Int(5), u(1, RValue::Str("s".into())), RValue::Int(6), RValue::Int(7)]);
	let no_b = RValue::Record(vec![RValue::Int(5), u(0, RValue::Null), RValue::Int(6), RValue::Int(7)]);
	let env = Env::new(&schema);
	let list: Vec<(&RValue, Recipe)> = vec![
		(&with_b, recipe(Id, Id, Bytes, 0, false)),
		(&no_b, recipe(Id, Id, Bytes, 0, true)),
		(&no_b, recipe(Rev, Id, Bytes, 0, true)),
		(&no_b, recipe(Perm(1), Id, Bytes, 1, true)),
		(&with_b, recipe(Rev, Id, Bytes, 2, false)),
		(&no_b, recipe(Id, Id, Bytes, 0, false)),
	];
	let values = make_values(&schema, &env, &list);
	let base = present(&with_b, &schema, &env, &recipe(Id, Id, Bytes, 0, false), 0);
	let naturals: Vec<(String, Pres)> = vec![
		("only a and c presented: nullable b skipped, c ahead of its turn, required d missing".into(), edited(&base, &[], |f| f.retain(|(k, _)| *k == "a" || *k == "c"))),
		("only a and d presented: nullable b skipped, required c missing, d buffered".into(), edited(&base, &[], |f| f.retain(|(k, _)| *k == "a" || *k == "d"))),
		("only a presented: nullable b skipped, required c missing".into(), edited(&base, &[], |f| f.retain(|(k, _)| *k == "a"))),
		("c, a presented: c buffered then flushed... b skipped, d missing".into(), edited(&base, &[], |f| {
			f.retain(|(k, _)| *k == "a" || *k == "c");
			f.reverse()
		})),
		("nothing presented: required a missing first".into(), edited(&base, &[], |f| f.clear())),
	];
	Unit { id, name: "Q{a:int,b:[null,string],c:int,d:int} allow_slow_sequence_to_bytes=false".into(), schema, allow_slow: false, values, naturals }
}

/// S{h:bytes, f:fixed(3), t:bytes}: known-length seq / tuple -> bytes AND -> fixed, as probes and
/// failing at element k >= 1
fn unit_sized(id: usize) -> Unit {
	use BytesMode::*;
	use Order::*;
	let schema = RSchema::record("S", vec![("h", RSchema::Bytes), ("f", RSchema::fixed("Fx", 3)), ("t", RSchema::Bytes)]);
	let v = RValue::Record(vec![RValue::Bytes(vec![7, 8, 9]), RValue::Fixed(vec![4, 4, 5]), RValue::Bytes(vec![1, 2])]);
	let env = Env::new(&schema);
	let list: Vec<(&RValue, Recipe)> = vec![
		(&v, recipe(Id, Id, Bytes, 0, false)),
		(&v, recipe(Id, Id, SeqSome, 0, false)),
		(&v, recipe(Id, Id, Tuple, 0, false)),
		(&v, recipe(Rev, Id, SeqSome, 0, false)),
		(&v, recipe(Rev, Id, Tuple, 1, false)),
		(&v, recipe(Perm(2), Id, SeqNone, 0, false)),
	];
	let values = make_values(&schema, &env, &list);
	let seq = present(&v, &schema, &env, &recipe(Id, Id, SeqSome, 0, false), 0);
	let tup = present(&v, &schema, &env, &recipe(Id, Id, Tuple, 0, false), 0);
	let set = |base: &Pres, key: &'static str, p: Pres, rev: bool| {
		edited(base, &[], |f| {
			f.iter_mut().filter(|(k, _)| *k == key).for_each(|(_, v)| *v = p.clone());
			if rev {
				f.reverse()
			}
		})
	};
	let u8p = |v: &[u8]| -> Vec<Pres> { v.iter().map(|x| Pres::U8(*x)).collect() };
	let mut naturals: Vec<(String, Pres)> = Vec::new();
	for rev in [false, true] {
		let pos = if rev { "fields reversed (buffered)" } else { "in order" };
		naturals.push((format!("seq len Some(3) -> bytes h with 300u16 as third element, {pos}"), set(&seq, "h", Pres::Seq { len: Some(3), elems: vec![Pres::U8(1), Pres::U8(2), Pres::U16(300)] }, rev)));
		naturals.push((format!("tuple -> fixed f with a str as third element, {pos}"), set(&tup, "f", Pres::Tuple(vec![Pres::U8(1), Pres::U8(2), Pres::str("x")]), rev)));
		naturals.push((format!("seq len Some(3) -> fixed f with a fourth element, {pos}"), set(&seq, "f", Pres::Seq { len: Some(3), elems: u8p(&[1, 2, 3, 4]) }, rev)));
		naturals.push((format!("seq len Some(2) -> bytes t with a third element, {pos}"), set(&seq, "t", Pres::Seq { len: Some(2), elems: u8p(&[1, 2, 3]) }, rev)));
		naturals.push((format!("tuple -> bytes t with negative i8 as second element, {pos}"), set(&tup, "t", Pres::Tuple(vec![Pres::U8(1), Pres::I8(-1)]), rev)));
		naturals.push((format!("tuple of 2 -> fixed(3) f (size mismatch up front), {pos}"), set(&tup, "f", Pres::Tuple(u8p(&[1, 2])), rev)));
	}
	Unit { id, name: "S{h:bytes,f:fixed(3),t:bytes} allow_slow_sequence_to_bytes=true".into(), schema, allow_slow: true, values, naturals }
}

fn make_values(schema: &RSchema, env: &Env, list: &[(&RValue, Recipe)]) -> Vec<Val> {
	list.iter()
		.enumerate()
		.map(|(i, (v, r))| {
			let pres = present(v, schema, env, r, 0);
			let mut tags = Vec::new();
			annotate(&pres, schema, env, false, false, &mut tags);
			let _ = vmodel::value::encode(v, schema, env, &mut Canonical).unwrap_or_else(|e| panic!("MACHINERY: C14 model cannot encode: {e}"));
			Val { name: format!("v{i}[{}]", recipe_name(r)), pres, tags }
		})
		.collect()
}

/// Thorough only: the Top schema with ALL 120 orders of the outer record (nested order and bytes
/// mode varying with the permutation), allow_slow on.
fn unit_top_perms(id: usize, second: bool) -> Unit {
	let mut unit = unit_top(id, true);
	let full = if !second {
		RValue::Record(vec![
			RValue::Int(3),
			RValue::Str("ab".into()),
			u(1, RValue::Int(5)),
			RValue::Record(vec![RValue::Int(-70), RValue::Bytes(vec![1, 2, 3]), u(1, RValue::Str("q".into()))]),
			RValue::Bytes(vec![9, 8]),
		])
	} else {
		RValue::Record(vec![
			RValue::Int(1000),
			RValue::Str("a longer string than the others".into()),
			u(0, RValue::Null),
			RValue::Record(vec![RValue::Int(0), RValue::Bytes(vec![]), u(0, RValue::Null)]),
			RValue::Bytes(vec![0xff; 9]),
		])
	};
	let env = Env::new(&unit.schema);
	let list: Vec<(&RValue, Recipe)> = (0..120u8)
		.map(|k| (&full, recipe(Order::Perm(k), [Order::Rev, Order::Mix, Order::Id][k as usize % 3], [BytesMode::SeqNone, BytesMode::Bytes][(k as usize / 3) % 2], (k % 3 == 2) as u8 * (1 + k % 2), false)))
		.collect();
	let values = make_values(&unit.schema, &env, &list);
	drop(env);
	unit.values = values;
	unit.name = format!("Top/Inner/bytes, all 120 outer orders of datum {}, allow_slow_sequence_to_bytes=true", if second { "B (nulls, empty and longer fields)" } else { "A" });
	unit
}

pub fn units(thorough: bool) -> Vec<Unit> {
	let mut v = vec![unit_top(0, true), unit_top(1, false), unit_arrays(2, true), unit_arrays(3, false), unit_bytes(4, true), unit_bytes(5, false), unit_opt_before_required(6), unit_sized(7)];
	if thorough {
		v.push(unit_top_perms(8, false));
		v.push(unit_top_perms(9, true));
	}
	v
}

/// expected bytes of the values of a unit according to the reference encoder (same order as
/// `Unit::values`)
fn model_bytes(u: &Unit) -> Vec<Vec<u8>> {
	// the values are rebuilt here so that `Unit` does not have to carry RValues around
	let env = Env::new(&u.schema);
	u.values
		.iter()
		.map(|v| {
			// decode the crate-independent way: present() is injective on our values, so re-derive from the
			// fresh bytes is not wanted; instead encode the RValue the presentation was made from
			let rv = rvalue_of(&v.pres, &u.schema, &env);
			vmodel::value::encode(&rv, &u.schema, &env, &mut Canonical).unwrap()
		})
		.collect()
}

fn u8s(elems: &[Pres]) -> Vec<u8> {
	elems
		.iter()
		.map(|e| match e {
			Pres::U8(x) => *x,
			_ => panic!("MACHINERY: C14 rvalue_of element"),
		})
		.collect()
}

/// The value a (valid, complete-or-nullable-omitted) presentation of this module denotes.
fn rvalue_of(p: &Pres, s: &RSchema, env: &Env) -> RValue {
	let s = env.resolve(s);
	match (p, s) {
		(Pres::None, RSchema::Union(bs)) | (Pres::Unit, RSchema::Union(bs)) => u(bs.iter().position(|b| matches!(env.resolve(b), RSchema::Null)).unwrap(), RValue::Null),
		(Pres::Some(inner), RSchema::Union(bs)) => {
			let i = bs.iter().position(|b| !matches!(env.resolve(b), RSchema::Null)).unwrap();
			u(i, rvalue_of(inner, &bs[i], env))
		}
		(Pres::Unit, RSchema::Null) => RValue::Null,
		(Pres::I32(i), RSchema::Int) => RValue::Int(*i),
		(Pres::I64(i), RSchema::Long) => RValue::Long(*i),
		(Pres::Str(x), RSchema::String) => RValue::Str(x.clone()),
		(Pres::Bytes(b), RSchema::Bytes) => RValue::Bytes(b.clone()),
		(Pres::Bytes(b), RSchema::Fixed { .. }) => RValue::Fixed(b.clone()),
		(Pres::Seq { elems, .. }, RSchema::Bytes) | (Pres::Tuple(elems), RSchema::Bytes) => RValue::Bytes(u8s(elems)),
		(Pres::Seq { elems, .. }, RSchema::Fixed { .. }) | (Pres::Tuple(elems), RSchema::Fixed { .. }) => RValue::Fixed(u8s(elems)),
		(Pres::Seq { elems, .. }, RSchema::Array(item)) => RValue::Array(elems.iter().map(|e| rvalue_of(e, item, env)).collect()),
		(Pres::Struct { .. }, RSchema::Record { fields, .. }) | (Pres::Map { .. }, RSchema::Record { fields, .. }) => {
			let entries: Vec<(String, &Pres)> = match p {
				Pres::Struct { fields, .. } => fields.iter().map(|(k, v)| (k.to_string(), v)).collect(),
				Pres::Map { entries, .. } => entries
					.iter()
					.map(|(k, v)| {
						(
							match k {
								Pres::Str(s) => s.clone(),
								_ => panic!("MACHINERY: C14 rvalue_of key"),
							},
							v,
						)
					})
					.collect(),
				_ => unreachable!(),
			};
			RValue::Record(
				fields
					.iter()
					.map(|(n, fs)| match entries.iter().find(|(k, _)| k == n) {
						Some((_, v)) => rvalue_of(v, fs, env),
						None => match env.resolve(fs) {
							RSchema::Null => RValue::Null,
							RSchema::Union(bs) => u(bs.iter().position(|b| matches!(env.resolve(b), RSchema::Null)).unwrap(), RValue::Null),
							_ => panic!("MACHINERY: C14 rvalue_of: required field {n} not presented"),
						},
					})
					.collect(),
			)
		}
		(p, s) => panic!("MACHINERY: C14 rvalue_of: {p:?} for {s:?}"),
	}
}

// ---------------------------------------------------------------------------------------------
// executing operations

struct FailingSink {
	inner: Shared,
	left: usize,
}
impl std::io::Write for FailingSink {
	fn write(&mut self, buf: &[u8]) -> std::io::Result<usize> {
		if buf.is_empty() {
			return Ok(0);
		}
		if self.left == 0 {
			return Err(std::io::Error::new(std::io::ErrorKind::Other, "injected sink error"));
		}
		let k = self.left.min(buf.len());
		self.inner.0.borrow_mut().extend_from_slice(&buf[..k]);
		self.left -= k;
		Ok(k)
	}
	fn flush(&mut self) -> std::io::Result<()> {
		Ok(())
	}
}

/// Outcome of one operation: Ok/Err/Panic, and what reached the sink
#[derive(Clone, Debug, PartialEq)]
pub struct OpObs {
	pub out: Out<()>,
	pub bytes: Vec<u8>,
}
impl OpObs {
	fn same_as(&self, o: &OpObs) -> bool {
		self.out.kind() == o.out.kind() && self.bytes == o.bytes
	}
	fn show(&self) -> String {
		match &self.out {
			Out::Ok(()) => format!("Ok [{}]", hex(&self.bytes)),
			Out::Err(e) => format!("Err({e}) after [{}] reached the sink", hex(&self.bytes)),
			Out::Panic(e) => format!("PANIC({e}) after [{}] reached the sink", hex(&self.bytes)),
		}
	}
}

pub fn apply(u: &Unit, config: &mut SerializerConfig<'_>, op: Op) -> OpObs {
	let sink = Shared::default();
	let out = match op {
		Op::Ok(v) => guarded(|| serde_avro_fast::to_datum(&u.values[v].pres, sink.clone(), config).map(|_| ()).map_err(|e| e.to_string())),
		Op::FailAt(v, k) => pres::with_failure(Some(k), || guarded(|| serde_avro_fast::to_datum(&u.values[v].pres, sink.clone(), config).map(|_| ()).map_err(|e| e.to_string()))).0,
		Op::IoFail(v, n) => guarded(|| serde_avro_fast::to_datum(&u.values[v].pres, FailingSink { inner: sink.clone(), left: n }, config).map(|_| ()).map_err(|e| e.to_string())),
		Op::Natural(f) => guarded(|| serde_avro_fast::to_datum(&u.naturals[f].1, sink.clone(), config).map(|_| ()).map_err(|e| e.to_string())),
	};
	OpObs { out, bytes: sink.snapshot() }
}

fn new_config<'s>(u: &Unit, cs: &'s serde_avro_fast::Schema) -> SerializerConfig<'s> {
	let mut c = SerializerConfig::new(cs);
	if u.allow_slow {
		c.allow_slow_sequence_to_bytes();
	}
	c
}

pub type Pools = (Vec<(usize, usize)>, Vec<(usize, usize)>);

/// Replay a history on a fresh configuration; observation of the last operation + pools afterwards.
pub fn exec(u: &Unit, cs: &serde_avro_fast::Schema, ops: &[Op], hist: &[u16]) -> (Option<OpObs>, Pools) {
	let mut config = new_config(u, cs);
	let mut last = None;
	for &o in hist {
		last = Some(apply(u, &mut config, ops[o as usize]));
	}
	(last, config.verif_pools())
}

pub fn op_text(u: &Unit, op: Op) -> String {
	match op {
		Op::Ok(v) => format!("ok({})", u.values[v].name),
		Op::FailAt(v, k) => format!("fail_at({}, serde call {k})", u.values[v].name),
		Op::IoFail(v, n) => format!("io_fail({}, sink errors after {n} bytes)", u.values[v].name),
		Op::Natural(f) => format!("rejected({})", u.naturals[f].0),
	}
}

pub struct Alphabet {
	pub ops: Vec<Op>,
	/// what each operation does on a fresh configuration
	pub fresh: Vec<OpObs>,
	pub calls: Vec<usize>,
}

/// Operation alphabet of a unit + the fresh-configuration reference for every operation.
/// Returns also violations found while building it (fresh bytes != reference encoder).
pub fn alphabet(u: &Unit, cs: &serde_avro_fast::Schema, cover: &mut Cover, out: &mut Vec<Violation>) -> Alphabet {
	let model = model_bytes(u);
	let mut ops = Vec::new();
	let mut calls = Vec::new();
	let text = gen::schema_text(&u.schema);
	for (vi, v) in u.values.iter().enumerate() {
		let mut config = new_config(u, cs);
		let (obs, n_calls) = pres::with_failure(None, || apply(u, &mut config, Op::Ok(vi)));
		cover.impl_runs += 1;
		calls.push(n_calls);
		ops.push(Op::Ok(vi));
		match &obs.out {
			Out::Ok(()) => {
				if obs.bytes != model[vi] {
					out.push(Violation {
						class: "fresh-differs-from-model".into(),
						what: format!("unit {}: schema {text}; {} = {:?} on a FRESH configuration gives [{}], reference encoder [{}]", u.name, v.name, v.pres, hex(&obs.bytes), hex(&model[vi])),
						replay: json!({"check": "C14", "unit": u.id, "history": [ops.len() - 1]}),
					});
				}
				if v.tags.len() != n_calls {
					eprintln!("MACHINERY: C14 annotate() counts {} serde calls for {}, measured {n_calls}", v.tags.len(), v.name);
					std::process::exit(2);
				}
			}
			Out::Err(_) => {
				let needs_slow = !u.allow_slow && has_seq_bytes(&v.pres);
				if !needs_slow {
					out.push(Violation {
						class: "fresh-rejects-valid".into(),
						what: format!("unit {}: schema {text}; {} = {:?} on a FRESH configuration: {}", u.name, v.name, v.pres, obs.show()),
						replay: json!({"check": "C14", "unit": u.id, "history": [ops.len() - 1]}),
					});
				}
				cover.count("values_rejected_because_slow_seq_not_allowed", 1);
			}
			Out::Panic(_) => out.push(Violation {
				class: "panic".into(),
				what: format!("unit {}: schema {text}; {} = {:?} on a FRESH configuration: {}", u.name, v.name, v.pres, obs.show()),
				replay: json!({"check": "C14", "unit": u.id, "history": [ops.len() - 1]}),
			}),
		}
		for k in 0..n_calls {
			ops.push(Op::FailAt(vi, k));
		}
		if obs.out.is_ok() {
			for n in 0..obs.bytes.len() {
				ops.push(Op::IoFail(vi, n));
			}
		}
	}
	for f in 0..u.naturals.len() {
		ops.push(Op::Natural(f));
	}
	assert!(ops.len() < u16::MAX as usize);
	let mut fresh = Vec::new();
	for op in &ops {
		let mut config = new_config(u, cs);
		let o = apply(u, &mut config, *op);
		cover.impl_runs += 1;
		if !matches!(op, Op::Ok(_)) && o.out.is_ok() {
			// an operation meant to fail does not fail: not what C14 judges (it still takes part in the
			// exploration as an ordinary operation), but reported in the evidence
			cover.count("failing_operations_that_returned_ok_on_fresh_config", 1);
			eprintln!("note: C14 unit {}: {} returned Ok on a fresh configuration", u.name, op_text(u, *op));
		}
		fresh.push(o);
	}
	Alphabet { ops, fresh, calls }
}

fn has_seq_bytes(p: &Pres) -> bool {
	match p {
		Pres::Seq { elems, .. } => elems.iter().all(|e| matches!(e, Pres::U8(_))) || elems.iter().any(has_seq_bytes),
		Pres::Tuple(elems) => elems.iter().all(|e| matches!(e, Pres::U8(_))),
		Pres::Some(i) => has_seq_bytes(i),
		Pres::Struct { fields, .. } => fields.iter().any(|(_, v)| has_seq_bytes(v)),
		Pres::Map { entries, .. } => entries.iter().any(|(_, v)| has_seq_bytes(v)),
		_ => false,
	}
}

/// Judge the last operation of a history against the fresh-configuration reference.
pub fn judge(a: &Alphabet, hist: &[u16], obs: &OpObs, pools: &Pools) -> Vec<(String, String)> {
	let mut v = Vec::new();
	let o = *hist.last().unwrap() as usize;
	if obs.out.is_panic() {
		v.push(("panic".to_owned(), format!("last operation: {}; on a fresh configuration: {}", obs.show(), a.fresh[o].show())));
	} else if !obs.same_as(&a.fresh[o]) {
		v.push(("differs-from-fresh".to_owned(), format!("last operation on the reused configuration: {}; on a fresh configuration: {}", obs.show(), a.fresh[o].show())));
	}
	if pools.0.iter().any(|(len, _)| *len != 0) || pools.1.iter().any(|(len, _)| *len != 0) {
		v.push(("pooled-buffer-not-empty".to_owned(), format!("after the history the pools hold (len, capacity) field buffers {:?}, super-buffers {:?}: a pooled buffer is not empty", pools.0, pools.1)));
	}
	v
}

fn run_unit(u: &Unit, depth: usize, max_states: u64) -> (Cover, Vec<Violation>, serde_json::Value) {
	let mut cover = Cover::default();
	let mut out: Vec<Violation> = Vec::new();
	let text = gen::schema_text(&u.schema);
	let cs = match gen::to_crate_schema(&u.schema) {
		Ok(s) => s,
		Err(e) => {
			out.push(Violation { class: "schema-rejected".into(), what: e, replay: json!({"check": "C14", "unit": u.id, "history": []}) });
			return (cover, out, json!({}));
		}
	};
	let a = alphabet(u, &cs, &mut cover, &mut out);
	let n_ops = a.ops.len();
	// coverage of the operation alphabet
	for op in &a.ops {
		match op {
			Op::Ok(_) => cover.count("ops_ok", 1),
			Op::FailAt(v, k) => {
				cover.count("ops_fail_at", 1);
				let t = u.values[*v].tags.get(*k).copied().unwrap_or(0);
				if t & TAG_BUFFERED != 0 {
					cover.count("ops_fail_at_inside_out_of_order_field", 1);
				}
				if t & TAG_NESTED_OOO != 0 {
					cover.count("ops_fail_at_inside_nested_out_of_order_record_in_buffer", 1);
				}
				if t & TAG_SIZED_SEQ != 0 {
					cover.count("ops_fail_at_inside_known_length_seq_or_tuple_to_bytes_or_fixed", 1);
				}
				if t & TAG_SEQBYTES != 0 {
					cover.count("ops_fail_at_inside_buffered_seq_to_bytes", 1);
					if t & TAG_BUFFERED != 0 {
						cover.count("ops_fail_at_inside_buffered_seq_to_bytes_inside_buffered_field", 1);
					}
				}
			}
			Op::IoFail(..) => cover.count("ops_io_fail", 1),
			Op::Natural(_) => cover.count("ops_rejected_by_the_crate", 1),
		}
	}
	let mut probes: Vec<u16> = a.ops.iter().enumerate().filter(|(_, op)| matches!(op, Op::Ok(_))).map(|(i, _)| i as u16).collect();
	if probes.len() > 12 {
		// the 120-order units: every 10th order as lookahead probe (all 120 stay operations of the BFS itself)
		probes = probes.into_iter().step_by(10).collect();
	}
	cover.count("lookahead_probe_values", probes.len() as u64);
	let lookahead = std::env::var("C14_NO_LOOKAHEAD").is_err();
	if !lookahead {
		cover.caps.push("development switch C14_NO_LOOKAHEAD".into());
	}
	let mut seen: HashSet<Pools> = HashSet::new();
	let mut shapes: BTreeSet<(usize, usize)> = BTreeSet::new();
	seen.insert((vec![], vec![]));
	cover.states += 1;
	let mut frontier: Vec<Vec<u16>> = vec![vec![]];
	let (mut max_bufs, mut max_supers) = (0usize, 0usize);
	let mut capped = false;
	let mut max_depth = 0;
	let mut first_big: Option<(Vec<u16>, Pools)> = None;
	'levels: for d in 1..=depth {
		if frontier.is_empty() {
			break;
		}
		// One-step lookahead: the pools read through the hook need not be the whole state of a
		// configuration (a change may keep further state the hook does not show). So after EVERY
		// transition - also those that end in an already known pool state and are therefore not
		// expanded - every ok(v) is run once as a probe from the resulting state (history ++ [op] ++
		// [probe] re-executed on a fresh configuration) and judged like any other operation.
		type Probe = (Vec<u16>, OpObs, Pools);
		let results: Vec<(Vec<u16>, OpObs, Pools, u64, Vec<Probe>)> = frontier
			.par_iter()
			.flat_map_iter(|h| {
				let cs = &cs;
				let a = &a;
				let probes = &probes;
				(0..n_ops as u16).map(move |o| {
					let mut hh = h.clone();
					hh.push(o);
					let (obs, pools) = exec(u, cs, &a.ops, &hh);
					let obs = obs.unwrap();
					let mut failed: Vec<Probe> = Vec::new();
					let mut n = 0u64;
					if lookahead && !obs.out.is_panic() {
						for &p in probes.iter() {
							let mut h2 = hh.clone();
							h2.push(p);
							let (o2, pl2) = exec(u, cs, &a.ops, &h2);
							let o2 = o2.unwrap();
							n += 1;
							if !judge(a, &h2, &o2, &pl2).is_empty() && failed.len() < 3 {
								failed.push((h2, o2, pl2));
							}
						}
					}
					(hh, obs, pools, n, failed)
				})
			})
			.collect();
		let mut next: Vec<Vec<u16>> = Vec::new();
		for (hh, obs, pools, n_probes, failed_probes) in results {
			cover.transitions += 1 + n_probes;
			cover.evaluations += 1 + n_probes;
			cover.impl_runs += hh.len() as u64 + n_probes * (hh.len() as u64 + 1);
			cover.count("lookahead_probes_after_every_transition", n_probes);
			for (h2, o2, pl2) in failed_probes {
				if out.len() >= 60 {
					break;
				}
				let (o3, pl3) = exec(u, &cs, &a.ops, &h2);
				if o3.as_ref().map(|o| o.same_as(&o2)) != Some(true) || pl3 != pl2 {
					eprintln!("MACHINERY: C14 unit {} history {h2:?} is not deterministic", u.id);
					std::process::exit(2);
				}
				let hist_text: Vec<String> = h2.iter().map(|o| op_text(u, a.ops[*o as usize])).collect();
				for (class, what) in judge(&a, &h2, &o2, &pl2) {
					out.push(Violation {
						class,
						what: format!("unit {}: schema {text}; history on ONE SerializerConfig: {hist_text:?}; {what}; last value presented (probe): {:?}", u.name, op_pres(u, a.ops[*h2.last().unwrap() as usize])),
						replay: json!({"check": "C14", "unit": u.id, "history": h2, "history_text": hist_text, "schema": text}),
					});
				}
			}
			let o = *hh.last().unwrap() as usize;
			if matches!(a.ops[o], Op::Ok(_)) {
				cover.count("probes_compared_with_fresh_config", 1);
			}
			cover.outcomes.insert(hash64(&(u.id, o, obs.out.kind(), &obs.bytes)));
			if hh.len() >= 2 {
				cover.nontrivial.insert(hash64(&(u.id, &hh)));
			}
			let vs = judge(&a, &hh, &obs, &pools);
			let bad = !vs.is_empty();
			if bad && out.len() < 60 {
				// determinism guard
				let (obs2, pools2) = exec(u, &cs, &a.ops, &hh);
				if obs2.as_ref().map(|o| o.same_as(&obs)) != Some(true) || pools2 != pools {
					eprintln!("MACHINERY: C14 unit {} history {hh:?} is not deterministic", u.id);
					std::process::exit(2);
				}
				let hist_text: Vec<String> = hh.iter().map(|o| op_text(u, a.ops[*o as usize])).collect();
				for (class, what) in vs {
					out.push(Violation {
						class,
						what: format!("unit {}: schema {text}; history on ONE SerializerConfig: {hist_text:?}; {what}; last value presented: {:?}", u.name, op_pres(u, a.ops[o])),
						replay: json!({"check": "C14", "unit": u.id, "history": hh, "history_text": hist_text, "schema": text}),
					});
				}
			}
			max_bufs = max_bufs.max(pools.0.len());
			max_supers = max_supers.max(pools.1.len());
			if first_big.is_none() && pools.0.len() >= 2 && pools.1.len() >= 1 {
				first_big = Some((hh.clone(), pools.clone()));
			}
			shapes.insert((pools.0.len(), pools.1.len()));
			if seen.insert(pools) {
				cover.states += 1;
				max_depth = d;
				if !bad && !obs.out.is_panic() {
					next.push(hh);
				}
				if cover.states >= max_states {
					capped = true;
					break 'levels;
				}
			}
		}
		frontier = next;
	}
	if capped {
		cover.caps.push(format!("unit {}: state cap {max_states} hit at depth {max_depth}", u.id));
	}
	let closed = frontier.is_empty() && !capped;
	if let Some((h, p)) = &first_big {
		cover.sample(json!({"unit": u.name, "history": h.iter().map(|o| op_text(u, a.ops[*o as usize])).collect::<Vec<_>>(), "pools_after (len,cap)": {"field_buffers": p.0, "super_buffers": p.1}}));
	}
	let info = json!({
		"unit": u.name, "operations": n_ops, "values": u.values.len(), "distinct_pool_states": seen.len(), "max_depth_with_new_state": max_depth,
		"state_space_closed_before_depth_bound": closed, "max_pooled_field_buffers": max_bufs, "max_pooled_super_buffers": max_supers,
		"pool_sizes_reached (field buffers, super-buffers)": shapes.iter().collect::<Vec<_>>(),
	});
	cover.count("max_pooled_field_buffers", 0);
	(cover, out, info)
}

fn op_pres<'a>(u: &'a Unit, op: Op) -> &'a Pres {
	match op {
		Op::Ok(v) | Op::FailAt(v, _) | Op::IoFail(v, _) => &u.values[v].pres,
		Op::Natural(f) => &u.naturals[f].1,
	}
}

pub fn run(rep: &mut Report) {
	let thorough = rep.thorough();
	let (mut depth, max_states): (usize, u64) = if thorough { (16, 400_000) } else { (12, 100_000) };
	if let Some(d) = std::env::var("C14_DEPTH").ok().and_then(|d| d.parse().ok()) {
		depth = d;
		rep.cover.caps.push(format!("development switch C14_DEPTH={d}"));
	}
	let us = units(thorough);
	rep.rule = format!(
		"HIST: BFS over histories of operations on ONE SerializerConfig, {} units = 3 schemas (Top{{a:int,b:string,c:[null,int],d:Inner{{x:int,y:bytes,z:[null,string]}},e:bytes}}; T2{{p:array<Item{{x,y:bytes}}>,q:int,r:Mid{{m:Leaf{{u,w}},k:long}}}}; B{{h:bytes,g:bytes}}) x allow_slow_sequence_to_bytes on/off, Q{{a:int,b:[null,string],c:int,d:int}} (nullable / ahead-of-turn field before a missing required one), S{{h:bytes,f:fixed(3),t:bytes}} (known-length seq and tuple -> bytes and -> fixed), thorough: Top with all 120 outer orders of two data. Values: presentations of a fixed datum by (outer order, nested order, bytes as serialize_bytes / seq len None / seq len Some / tuple, struct / map-entry / map-split, nulls omitted). Operations: ok(v) for every value; fail_at(v,k) for EVERY serde call index k of v (pres::with_failure); io_fail(v,n) = sink erroring after n bytes for EVERY n < |encoding|; rejected(f) = presentations the crate rejects by itself (unknown/duplicate/missing field with buffers outstanding, bad element inside buffered seq->bytes, length mismatch). Depth bound {depth} (histories of up to {depth} operations, each followed by every operation as a probe); a state is rebuilt by replaying its history on a fresh configuration; exact key = ordered (len, capacity) of every pooled field buffer and super-buffer (hook H4), new states only are expanded, level-synchronous, state cap {max_states} per unit; because the hook need not show all state a configuration keeps, after EVERY transition (also into an already known pool state) every ok(v) (in the two 120-order units of the thorough tier: every 10th order) is additionally run once as a probe from the resulting state (history ++ [op] ++ [probe] on a fresh configuration, one-step lookahead) and judged the same way. Invariant after EVERY operation in every state: no panic; outcome kind and the bytes that reached the sink equal those of the same operation on a fresh configuration (for ok(v): = reference encoder); every pooled buffer and super-buffer has len 0. Non-trivial = executed histories of >= 2 operations (the configuration has been used before the judged operation), distinct on (unit, history); every such history is the representative history of a distinct pool state followed by one operation.",
		us.len()
	);
	rep.assumptions.push("a zero-length Vec's former contents are unobservable in safe Rust, hence (len, capacity) lists of the two pools + the allow_slow flag are the complete state of a SerializerConfig".into());
	rep.assumptions.push("reference encoder (vmodel) for the expected bytes of ok(v) on a fresh configuration".into());
	let results: Vec<(Cover, Vec<Violation>, serde_json::Value)> = us.par_iter().map(|u| run_unit(u, depth, max_states)).collect();
	let mut infos = Vec::new();
	let (mut max_bufs, mut max_supers) = (0u64, 0u64);
	for (c, v, info) in results {
		rep.cover.merge(c);
		rep.violations.extend(v);
		max_bufs = max_bufs.max(info["max_pooled_field_buffers"].as_u64().unwrap_or(0));
		max_supers = max_supers.max(info["max_pooled_super_buffers"].as_u64().unwrap_or(0));
		infos.push(info);
	}
	rep.extra.insert("units".into(), json!(infos));
	rep.cover.counters.insert("max_pooled_field_buffers".into(), max_bufs);
	rep.cover.counters.insert("max_pooled_super_buffers".into(), max_supers);
	// vacuity guards
	let c = &rep.cover.counters;
	let need = [
		"ops_fail_at_inside_out_of_order_field",
		"ops_fail_at_inside_nested_out_of_order_record_in_buffer",
		"ops_fail_at_inside_buffered_seq_to_bytes",
		"ops_fail_at_inside_buffered_seq_to_bytes_inside_buffered_field",
		"ops_fail_at_inside_known_length_seq_or_tuple_to_bytes_or_fixed",
		"lookahead_probes_after_every_transition",
		"ops_io_fail",
		"ops_rejected_by_the_crate",
		"probes_compared_with_fresh_config",
		"values_rejected_because_slow_seq_not_allowed",
	];
	let missing: Vec<&str> = need.iter().copied().filter(|k| c.get(*k).copied().unwrap_or(0) == 0).collect();
	if rep.violations.is_empty() && (!missing.is_empty() || max_bufs < 2 || max_supers < 1) {
		eprintln!("MACHINERY: C14 vacuous: never exercised {missing:?}; max pooled field buffers {max_bufs} (need >= 2), max pooled super-buffers {max_supers} (need >= 1)");
		std::process::exit(2);
	}
}

pub fn replay(v: &serde_json::Value) -> i32 {
	let r = &v["replay"];
	let unit = r["unit"].as_u64().unwrap_or(0) as usize;
	let hist: Vec<u16> = r["history"].as_array().map(|a| a.iter().filter_map(|x| x.as_u64()).map(|x| x as u16).collect()).unwrap_or_default();
	let us = units(true);
	let Some(u) = us.get(unit) else {
		eprintln!("no unit {unit}");
		return 2;
	};
	let cs = gen::to_crate_schema(&u.schema).unwrap();
	let mut cover = Cover::default();
	let mut out = Vec::new();
	let a = alphabet(u, &cs, &mut cover, &mut out);
	println!("unit    {}", u.name);
	println!("schema  {}", gen::schema_text(&u.schema));
	let mut bad = false;
	for v in &out {
		println!("  [{}] {}", v.class, v.what);
		bad = true;
	}
	let mut config = new_config(u, &cs);
	for (i, &o) in hist.iter().enumerate() {
		let Some(op) = a.ops.get(o as usize) else {
			eprintln!("operation index {o} out of range");
			return 2;
		};
		let obs = apply(u, &mut config, *op);
		let pools = config.verif_pools();
		println!("  {}. {}", i + 1, op_text(u, *op));
		println!("       reused config: {}", obs.show());
		println!("       fresh config : {}", a.fresh[o as usize].show());
		println!("       pools after  : field buffers (len,cap) {:?}, super-buffers {:?}", pools.0, pools.1);
		for (class, what) in judge(&a, &hist[..=i], &obs, &pools) {
			println!("       VIOLATED [{class}] {what}");
			bad = true;
		}
	}
	if bad {
		1
	} else {
		println!("no violation");
		0
	}
}
