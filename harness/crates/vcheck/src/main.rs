fn main(){}
