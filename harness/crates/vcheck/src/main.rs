//! vcheck: bounded exhaustive exploration of serde_avro_fast against a reference model.
//! Usage: vcheck <PROPERTY> --tier quick|thorough [--replay FILE]

mod c01;
mod c01_typed;
mod c02;
mod c03;
mod c04;
mod c05;
mod c06;
mod c07;
mod c08;
mod c09;
mod c10;
mod c11;
mod c12;
mod ggen;
mod hostile;
mod sgen;
mod shist;
mod c13;
mod c14;
mod c15;
mod c16;
mod cfw;
mod c17;
mod c18;
mod c19;
mod c19_nodes;
mod c19_ops;
mod c19_texts;
mod isolate;
mod lay;
mod c20;
mod c20_enum;
mod c20_gen;
mod envs;
mod explore;
mod gen;
mod obs;
mod pres;
mod report;
mod subj;

#[global_allocator]
static ALLOC: envs::CountingAlloc = envs::CountingAlloc;

fn main() {
	let args: Vec<String> = std::env::args().collect();
	if args.len() < 2 {
		eprintln!("usage: vcheck <PROPERTY> --tier quick|thorough [--replay FILE]");
		std::process::exit(2);
	}
	if args[1] == "worker" {
		// worker sub-processes: `vcheck worker <PROPERTY> …` (cases that may abort the process)
		subj::quiet_panics();
		let code = match args.get(2).map(|s| s.as_str()) {
			Some("C04") => c04::worker(&args[3..]),
			Some("C05") => c05::worker(&args[3..]),
			Some("C09") => c09::worker(&args[3..]),
			Some("C10") => vmiri::cli::cli_main(&args[3..]),
			Some("C17") => c17::worker(&args[3..]),
			Some("C19") => c19::worker_main(&args[3..]),
			other => {
				eprintln!("MACHINERY: no worker for {other:?}");
				2
			}
		};
		std::process::exit(code);
	}
	let prop = args[1].clone();
	let mut tier = std::env::var("VERIF_TIER").unwrap_or_else(|_| "quick".to_owned());
	let mut replay: Option<String> = None;
	let mut i = 2;
	while i < args.len() {
		match args[i].as_str() {
			"--tier" => {
				tier = args[i + 1].clone();
				i += 2;
			}
			"--replay" => {
				replay = Some(args[i + 1].clone());
				i += 2;
			}
			other => {
				eprintln!("unknown argument {other}");
				std::process::exit(2);
			}
		}
	}
	if tier != "quick" && tier != "thorough" {
		eprintln!("tier must be quick or thorough");
		std::process::exit(2);
	}
	subj::quiet_panics();
	if let Some(file) = replay {
		let text = std::fs::read_to_string(&file).unwrap_or_else(|e| {
			eprintln!("cannot read {file}: {e}");
			std::process::exit(2)
		});
		let v: serde_json::Value = serde_json::from_str(&text).expect("replay file is JSON");
		let code = match prop.as_str() {
			"C01" => c01::replay(&v),
			"C02" => c02::replay(&v),
			"C03" => c03::replay(&v),
			"C04" => c04::replay(&v),
			"C05" => c05::replay(&v),
			"C06" => c06::replay(&v),
			"C07" => c07::replay(&v),
			"C08" => c08::replay(&v),
			"C09" => c09::replay(&v),
			"C10" => c10::replay(&v),
			"C11" => c11::replay(&v),
			"C12" => c12::replay(&v),
			"C13" => c13::replay(&v),
			"C14" => c14::replay(&v),
			"C15" => c15::replay(&v),
			"C16" => c16::replay(&v),
			"C17" => c17::replay(&v),
			"C18" => c18::replay(&v),
			"C19" => c19::replay(&v),
			"C20" => c20::replay(&v),
			_ => {
				eprintln!("no replay for {prop}");
				2
			}
		};
		std::process::exit(code);
	}
	let mut rep = report::Report::new(&prop, &tier);
	match prop.as_str() {
		"C01" => c01::run(&mut rep),
		"C02" => c02::run(&mut rep),
		"C03" => c03::run(&mut rep),
		"C04" => c04::run(&mut rep),
		"C05" => c05::run(&mut rep),
		"C06" => c06::run(&mut rep),
		"C07" => c07::run(&mut rep),
		"C08" => c08::run(&mut rep),
		"C09" => c09::run(&mut rep),
		"C10" => c10::run(&mut rep),
		"C11" => c11::run(&mut rep),
		"C12" => c12::run(&mut rep),
		"C13" => c13::run(&mut rep),
		"C14" => c14::run(&mut rep),
		"C15" => c15::run(&mut rep),
		"C16" => c16::run(&mut rep),
		"C17" => c17::run(&mut rep),
		"C18" => c18::run(&mut rep),
		"C19" => c19::run(&mut rep),
		"C20" => c20::run(&mut rep),
		_ => {
			eprintln!("unknown property {prop}");
			std::process::exit(2);
		}
	}
	std::process::exit(rep.finish());
}
