//! Shared alphabets: schemas (Σ_S), boundary values (Σ_V), canonical presentations, expected
//! observations.

use crate::explore::Chooser;
use crate::obs::{Hint, VHint, O};
use crate::pres::{intern, Pres};
use vmodel::schema::{split_fullname, Env, Logical, RSchema, SpellCfg};
use vmodel::value::RValue;

pub struct Names(pub usize);
impl Names {
	pub fn fresh(&mut self, base: &str) -> String {
		self.0 += 1;
		format!("{base}{}", self.0)
	}
}

pub const N_LEAVES: usize = 31;

/// Leaf schemas: primitives, fixed, enums, every logical type.
pub fn leaf(i: usize, n: &mut Names) -> RSchema {
	use RSchema as S;
	match i {
		0 => S::Null,
		1 => S::Boolean,
		2 => S::Int,
		3 => S::Long,
		4 => S::Float,
		5 => S::Double,
		6 => S::Bytes,
		7 => S::String,
		8 => S::fixed(&n.fresh("ns.Fx"), 0),
		9 => S::fixed(&n.fresh("Fx"), 1),
		10 => S::fixed(&n.fresh("ns.Fx"), 3),
		11 => S::fixed(&n.fresh("Fx"), 12),
		12 => S::fixed(&n.fresh("Fx"), 16),
		13 => S::fixed(&n.fresh("Fx"), 17),
		14 => S::enum_(&n.fresh("En"), &["only"]),
		15 => S::enum_(&n.fresh("ns.En"), &["A", "B", "C"]),
		16 => S::decimal_bytes(10, 0),
		17 => S::decimal_bytes(10, 2),
		18 => S::decimal_bytes(38, 28),
		19 => S::decimal_fixed(&n.fresh("Dec"), 1, 2, 0),
		20 => S::decimal_fixed(&n.fresh("ns.Dec"), 2, 4, 2),
		21 => S::decimal_fixed(&n.fresh("Dec"), 16, 28, 0),
		22 => S::logical(Logical::BigDecimal, S::Bytes),
		23 => S::logical(Logical::Uuid, S::String),
		24 => S::logical(Logical::Date, S::Int),
		25 => S::logical(Logical::TimeMillis, S::Int),
		26 => S::logical(Logical::TimeMicros, S::Long),
		27 => S::logical(Logical::TimestampMillis, S::Long),
		28 => S::logical(Logical::TimestampMicros, S::Long),
		29 => S::logical(Logical::Duration, S::fixed(&n.fresh("Dur"), 12)),
		30 => S::decimal_fixed(&n.fresh("Dec"), 0, 1, 0),
		_ => unreachable!(),
	}
}

pub fn all_leaves(n: &mut Names) -> Vec<RSchema> {
	(0..N_LEAVES).map(|i| leaf(i, n)).collect()
}

/// A representative subset of leaves for the inner positions of deeper compositions.
pub const INNER_LEAVES: [usize; 10] = [0, 2, 3, 6, 7, 10, 15, 17, 20, 29];

fn is_null(s: &RSchema) -> bool {
	matches!(s, RSchema::Null)
}

/// Σ_S: the shared schema alphabet. `level` 1: leaves and one level of composition;
/// 2: two levels; 3: three levels (thorough).
pub fn schema_alphabet(level: usize) -> Vec<RSchema> {
	use RSchema as S;
	let mut n = Names(0);
	let mut out: Vec<RSchema> = Vec::new();
	out.extend(all_leaves(&mut n));
	// level 1
	let mut l1: Vec<RSchema> = Vec::new();
	for i in 0..N_LEAVES {
		l1.push(S::array(leaf(i, &mut n)));
		l1.push(S::map(leaf(i, &mut n)));
		l1.push(S::record(&n.fresh("ns.Rec"), vec![("a", leaf(i, &mut n))]));
		l1.push(S::record(&n.fresh("Rec"), vec![("a", leaf(i, &mut n)), ("b", S::Long)]));
		let l = leaf(i, &mut n);
		if !is_null(&l) {
			l1.push(S::Union(vec![S::Null, l.clone()]));
			l1.push(S::Union(vec![leaf(i, &mut n), S::Null]));
		}
	}
	l1.push(S::record(&n.fresh("Empty"), vec![]));
	l1.push(S::record(&n.fresh("a.b.Rec"), vec![("a", S::Int), ("b", S::String), ("c", S::Bytes)]));
	l1.extend(special_unions(&mut n));
	// named type references
	let f = n.fresh("ns.Fx");
	l1.push(S::record(&n.fresh("ns.Rec"), vec![("a", S::fixed(&f, 2)), ("b", S::rf(&f)), ("c", S::array(S::rf(&f)))]));
	let e = n.fresh("ns.En");
	l1.push(S::record(&n.fresh("ns.Rec"), vec![("a", S::enum_(&e, &["x", "y"])), ("b", S::map(S::rf(&e)))]));
	let e2 = n.fresh("En");
	l1.push(S::record(&n.fresh("Rec"), vec![("a", S::array(S::enum_(&e2, &["x", "y"]))), ("b", S::Union(vec![S::Null, S::rf(&e2)]))]));
	let r = n.fresh("Inner");
	l1.push(S::record(
		&n.fresh("Outer"),
		vec![("a", S::record(&r, vec![("v", S::Int)])), ("b", S::Union(vec![S::Null, S::rf(&r)])), ("c", S::rf(&r))],
	));
	// recursive record
	let rr = n.fresh("List");
	l1.push(S::record(&rr, vec![("v", S::Int), ("next", S::Union(vec![S::Null, S::rf(&rr)]))]));
	let tr = n.fresh("ns.Tree");
	l1.push(S::record(&tr, vec![("v", S::String), ("kids", S::array(S::rf(&tr)))]));
	out.extend(l1);
	if level >= 2 {
		let mut l2: Vec<RSchema> = Vec::new();
		for &i in &INNER_LEAVES {
			l2.push(S::array(S::array(leaf(i, &mut n))));
			l2.push(S::array(S::map(leaf(i, &mut n))));
			l2.push(S::map(S::array(leaf(i, &mut n))));
			l2.push(S::map(S::map(leaf(i, &mut n))));
			l2.push(S::array(S::record(&n.fresh("Rec"), vec![("a", leaf(i, &mut n))])));
			l2.push(S::record(&n.fresh("Rec"), vec![("a", S::array(leaf(i, &mut n))), ("b", S::map(leaf(i, &mut n)))]));
			l2.push(S::record(&n.fresh("x.Rec"), vec![("r", S::record(&n.fresh("y.Rec"), vec![("a", leaf(i, &mut n))])), ("z", S::Int)]));
			if i != 0 {
				l2.push(S::array(S::Union(vec![S::Null, leaf(i, &mut n)])));
				l2.push(S::map(S::Union(vec![leaf(i, &mut n), S::Null])));
				l2.push(S::Union(vec![S::Null, S::array(leaf(i, &mut n))]));
				l2.push(S::Union(vec![S::Null, S::record(&n.fresh("Rec"), vec![("a", leaf(i, &mut n))])]));
				l2.push(S::record(&n.fresh("Rec"), vec![("o", S::Union(vec![S::Null, leaf(i, &mut n)])), ("p", S::Union(vec![leaf(i, &mut n), S::Null]))]));
			}
		}
		l2.extend(pair_unions(&mut n));
		for u in special_unions(&mut n) {
			l2.push(S::array(u));
		}
		for u in special_unions(&mut n) {
			l2.push(S::record(&n.fresh("Rec"), vec![("u", u), ("z", S::Long)]));
		}
		out.extend(l2);
	}
	if level >= 3 {
		let mut l3: Vec<RSchema> = Vec::new();
		for &i in &[2usize, 7, 15, 17] {
			l3.push(S::array(S::array(S::array(leaf(i, &mut n)))));
			l3.push(S::map(S::array(S::map(leaf(i, &mut n)))));
			l3.push(S::array(S::record(&n.fresh("Rec"), vec![("m", S::map(S::Union(vec![S::Null, leaf(i, &mut n)])))])));
			l3.push(S::record(
				&n.fresh("Rec"),
				vec![("r", S::record(&n.fresh("Rec"), vec![("rr", S::record(&n.fresh("Rec"), vec![("a", leaf(i, &mut n))]))])), ("t", S::String)],
			));
			l3.push(S::Union(vec![S::Null, S::array(S::Union(vec![S::Null, S::map(leaf(i, &mut n))]))]));
		}
		out.extend(l3);
	}
	out
}

/// Unions whose branches collide or nearly collide on the serializer's type-directed lookup.
pub fn special_unions(n: &mut Names) -> Vec<RSchema> {
	use RSchema as S;
	vec![
		S::Union(vec![S::Int, S::Long]),
		S::Union(vec![S::Long, S::Int]),
		S::Union(vec![S::Float, S::Double]),
		S::Union(vec![S::String, S::Bytes]),
		S::Union(vec![S::Bytes, S::fixed(&n.fresh("Fx"), 2)]),
		S::Union(vec![S::String, S::enum_(&n.fresh("ns.En"), &["A", "B"])]),
		S::Union(vec![S::record(&n.fresh("ns.RecA"), vec![("a", S::Int)]), S::record(&n.fresh("RecB"), vec![("a", S::Int)])]),
		S::Union(vec![S::Int, S::logical(Logical::Date, S::Int)]),
		S::Union(vec![S::Long, S::logical(Logical::TimestampMicros, S::Long)]),
		S::Union(vec![S::String, S::logical(Logical::Uuid, S::String)]),
		S::Union(vec![S::Null, S::String, S::Int]),
		S::Union(vec![S::Boolean, S::Null, S::Double]),
		S::Union(vec![S::array(S::Int), S::map(S::Int)]),
		S::Union(vec![S::array(S::Long), S::logical(Logical::Duration, S::fixed(&n.fresh("Dur"), 12))]),
		S::Union(vec![S::map(S::Long), S::record(&n.fresh("Rec"), vec![("a", S::Long)])]),
		S::Union(vec![S::decimal_bytes(10, 2), S::String]),
		S::Union(vec![S::decimal_bytes(10, 0), S::Long]),
		S::Union(vec![S::decimal_fixed(&n.fresh("Dec"), 4, 8, 1), S::Bytes]),
		S::Union(vec![S::enum_(&n.fresh("En"), &["Nul", "x"]), S::Null, S::Long]),
		S::Union(vec![S::Null, S::enum_(&n.fresh("En"), &["a", "b"]), S::enum_(&n.fresh("ns.En"), &["a", "c"])]),
		S::Union(vec![S::fixed(&n.fresh("Fx"), 2), S::fixed(&n.fresh("ns.Fx"), 3)]),
		S::Union(vec![S::logical(Logical::BigDecimal, S::Bytes), S::Double]),
		// three to five equally suitable branches for a type-directed choice
		S::Union((0..3).map(|_| S::record(&n.fresh("RecN"), vec![("x", S::Int)])).collect()),
		S::Union((0..4).map(|_| S::record(&n.fresh("ns.RecN"), vec![("x", S::Int)])).collect()),
		S::Union((0..5).map(|_| S::record(&n.fresh("RecN"), vec![("x", S::Int)])).collect()),
		S::Union((0..3).map(|_| S::enum_(&n.fresh("EnN"), &["a", "b"])).collect()),
		S::Union((0..4).map(|_| S::enum_(&n.fresh("EnN"), &["a", "b"])).collect()),
		S::Union((0..3).map(|_| S::fixed(&n.fresh("FxN"), 2)).collect()),
		S::Union((0..5).map(|_| S::fixed(&n.fresh("FxN"), 2)).collect()),
		S::Union(vec![S::Int, S::logical(Logical::Date, S::Int), S::logical(Logical::TimeMillis, S::Int)]),
		S::Union(vec![S::Long, S::logical(Logical::TimeMicros, S::Long), S::logical(Logical::TimestampMillis, S::Long), S::logical(Logical::TimestampMicros, S::Long)]),
		S::Union(vec![S::logical(Logical::TimeMillis, S::Int), S::logical(Logical::TimeMicros, S::Long)]),
	]
}

/// Every ordered pair of distinct leaf kinds as a two-branch union (pairs whose branches have the
/// same unnamed base type are left to `special_unions`: the specification does not allow them).
pub fn pair_unions(n: &mut Names) -> Vec<RSchema> {
	let mut out = Vec::new();
	for i in 0..N_LEAVES {
		for j in 0..N_LEAVES {
			if i == j {
				continue;
			}
			let (a, b) = (leaf(i, n), leaf(j, n));
			let unnamed_base = |s: &RSchema| match s.base() {
				RSchema::Fixed { .. } | RSchema::Enum { .. } | RSchema::Record { .. } => None,
				other => Some(std::mem::discriminant(other)),
			};
			if let (Some(x), Some(y)) = (unnamed_base(&a), unnamed_base(&b)) {
				if x == y {
					continue;
				}
			}
			// two branches of the same logical kind share the serde name the crate gives them
			// ("Decimal"): no presentation can designate one of them
			if let (Some(x), Some(y)) = (a.logical_type(), b.logical_type()) {
				if std::mem::discriminant(x) == std::mem::discriminant(y) {
					continue;
				}
			}
			out.push(RSchema::Union(vec![a, b]));
		}
	}
	out
}

// ---------------------------------------------------------------------------------------------
// Values

pub const INTS_FULL: [i32; 17] = [0, -1, 1, 63, 64, -64, -65, 8191, 8192, -8192, -8193, 1048575, 1048576, 134217727, 134217728, i32::MIN, i32::MAX];
pub const INTS_SMALL: [i32; 4] = [0, -1, 64, i32::MIN];
pub const LONGS_FULL: [i64; 23] = [
	0,
	-1,
	1,
	63,
	64,
	-64,
	-65,
	8191,
	8192,
	1048576,
	134217728,
	i32::MAX as i64,
	i32::MIN as i64,
	(i32::MAX as i64) + 1,
	(1 << 34) - 1,
	1 << 34,
	1 << 41,
	1 << 48,
	(1 << 55) - 1,
	1 << 55,
	1 << 62,
	i64::MIN,
	i64::MAX,
];
pub const LONGS_SMALL: [i64; 4] = [0, -1, 8192, i64::MAX];
pub const F32_FULL: [u32; 10] = [0, 0x8000_0000, 0x3f80_0000, 0x0000_0001, 0x7f80_0000, 0xff80_0000, 0x7fc0_0000, 0x7fa0_1234, 0x7f7f_ffff, 0xffc0_0001];
pub const F32_SMALL: [u32; 3] = [0x3f80_0000, 0x7fa0_1234, 0x8000_0000];
pub const F64_FULL: [u64; 10] = [
	0,
	0x8000_0000_0000_0000,
	0x3ff0_0000_0000_0000,
	1,
	0x7ff0_0000_0000_0000,
	0xfff0_0000_0000_0000,
	0x7ff8_0000_0000_0000,
	0x7ff4_0000_0000_1234,
	0x7fef_ffff_ffff_ffff,
	0xfff8_0000_0000_0001,
];
pub const F64_SMALL: [u64; 3] = [0x3ff0_0000_0000_0000, 0x7ff4_0000_0000_1234, 0x8000_0000_0000_0000];

pub fn strings(full: bool) -> Vec<String> {
	let mut v = vec!["".to_owned(), "a".to_owned(), "é😀".to_owned()];
	if full {
		v.push("x".repeat(63));
		v.push("x".repeat(64));
		v.push("y".repeat(127));
		v.push("z".repeat(128));
		v.push("Null".to_owned());
		v.push("12.5".to_owned());
	}
	v
}
pub fn byte_strings(full: bool) -> Vec<Vec<u8>> {
	let mut v = vec![vec![], vec![0u8], vec![0xff, 0x00]];
	if full {
		v.push(vec![0x80]);
		v.push((0..64u8).collect());
		v.push(vec![0xc3; 65]);
	}
	v
}

/// unscaled decimal mantissas within the documented 96-bit limit
pub fn unscaled_full() -> Vec<i128> {
	let m96: i128 = (1i128 << 96) - 1;
	vec![0, 1, -1, 127, 128, -128, -129, 255, 256, -256, 32767, 32768, -32768, -32769, 1i128 << 63, -(1i128 << 63), (1i128 << 64), 1i128 << 95, -(1i128 << 95), m96, -m96]
}

/// Does `unscaled` fit `size` bytes two's complement?
pub fn fits(unscaled: i128, size: usize) -> bool {
	vmodel::value::i128_to_be_sized(unscaled, size).is_some()
}

/// Enumerate one value of `s`: every decision goes through the chooser.
/// `full`: use the complete boundary set for leaves (else the reduced one);
/// `max_items`: largest collection; `rec_budget`: how many more times a named reference may be unfolded.
pub fn gen_value(s: &RSchema, env: &Env, ch: &mut Chooser, full: bool, max_items: usize, rec_budget: usize) -> RValue {
	use RSchema as S;
	match s {
		S::Ref(_) => {
			let r = env.resolve(s);
			gen_value(r, env, ch, full, max_items, rec_budget)
		}
		S::Logical(l, b) => match l {
			Logical::Decimal { .. } => {
				let all = unscaled_full();
				let b = env.resolve(b);
				match b {
					S::Bytes => {
						let cands: Vec<i128> = if full { all } else { vec![0, -129, 1i128 << 95] };
						RValue::Bytes(vmodel::value::i128_to_be_min(*ch.choose(&cands)))
					}
					S::Fixed { size, .. } => {
						let mut cands: Vec<i128> = all.into_iter().filter(|u| fits(*u, *size)).collect();
						if !full && cands.len() > 3 {
							cands = vec![cands[0], cands[cands.len() / 2], cands[cands.len() - 1]];
						}
						if cands.is_empty() {
							cands.push(0);
						}
						RValue::Fixed(vmodel::value::i128_to_be_sized(*ch.choose(&cands), *size).unwrap())
					}
					_ => unreachable!("decimal over {b:?}"),
				}
			}
			Logical::BigDecimal => {
				let cands: Vec<(i128, i64)> =
					if full { vec![(0, 0), (1, 0), (-1, 2), (128, 1), (-129, 28), (1 << 95, 0), (-(1i128 << 95), 5), ((1i128 << 96) - 1, 28)] } else { vec![(0, 0), (-129, 2)] };
				let (u, sc) = *ch.choose(&cands);
				RValue::Bytes(vmodel::value::big_decimal_payload(u, sc))
			}
			Logical::Duration => {
				let cands: Vec<[u32; 3]> = if full {
					vec![[0, 0, 0], [1, 2, 3], [u32::MAX, 0, 1], [0, u32::MAX, u32::MAX], [u32::MAX, u32::MAX, u32::MAX], [0x01020304, 0x05060708, 0x090a0b0c]]
				} else {
					vec![[1, 2, 3], [u32::MAX, 0, 0x01020304]]
				};
				let d = ch.choose(&cands);
				let mut b = Vec::new();
				for x in d {
					b.extend_from_slice(&x.to_le_bytes());
				}
				RValue::Fixed(b)
			}
			Logical::Uuid => {
				let cands = ["00000000-0000-0000-0000-000000000000", "f81d4fae-7dec-11d0-a765-00a0c91e6bf6"];
				RValue::Str(ch.choose(&cands).to_string())
			}
			_ => gen_value(b, env, ch, full, max_items, rec_budget),
		},
		S::Null => RValue::Null,
		S::Boolean => RValue::Bool(ch.flag()),
		S::Int => RValue::Int(if full { *ch.choose(&INTS_FULL) } else { *ch.choose(&INTS_SMALL) }),
		S::Long => RValue::Long(if full { *ch.choose(&LONGS_FULL) } else { *ch.choose(&LONGS_SMALL) }),
		S::Float => RValue::Float(if full { *ch.choose(&F32_FULL) } else { *ch.choose(&F32_SMALL) }),
		S::Double => RValue::Double(if full { *ch.choose(&F64_FULL) } else { *ch.choose(&F64_SMALL) }),
		S::Bytes => RValue::Bytes(ch.choose(&byte_strings(full)).clone()),
		S::String => RValue::Str(ch.choose(&strings(full)).clone()),
		S::Fixed { size, .. } => {
			let pats: [u8; 3] = [0x00, 0xff, 0x5a];
			let p = *ch.choose(&pats[..if *size == 0 { 1 } else { 3 }]);
			RValue::Fixed((0..*size).map(|i| if p == 0x5a { (i as u8).wrapping_mul(37).wrapping_add(1) } else { p }).collect())
		}
		S::Enum { symbols, .. } => RValue::Enum(ch.pick(symbols.len())),
		S::Array(item) => {
			let n = ch.pick(max_items + 1);
			RValue::Array((0..n).map(|_| gen_value(item, env, ch, false, max_items.min(2), rec_budget)).collect())
		}
		S::Map(item) => {
			let n = ch.pick(max_items + 1);
			let keys = ["k", "", "clé2", "k3", "k4", "k5"];
			RValue::Map((0..n).map(|i| (keys[i % keys.len()].to_owned(), gen_value(item, env, ch, false, max_items.min(2), rec_budget))).collect())
		}
		S::Union(branches) => {
			// do not unfold recursion forever: when the budget is exhausted only take branches that terminate
			let mut idxs: Vec<usize> = (0..branches.len()).collect();
			if rec_budget == 0 {
				let t: Vec<usize> = idxs.iter().copied().filter(|&i| !matches!(branches[i], S::Ref(_))).collect();
				if !t.is_empty() {
					idxs = t;
				}
			}
			let i = *ch.choose(&idxs);
			let inner = gen_value(&branches[i], env, ch, full, max_items, rec_budget);
			RValue::Union(i, Box::new(inner))
		}
		S::Record { fields, .. } => {
			let many = fields.len() > 1;
			RValue::Record(
				fields
					.iter()
					.map(|(_, f)| {
						let budget = if matches!(f, S::Ref(_)) || contains_ref(f) { rec_budget.saturating_sub(1) } else { rec_budget };
						if rec_budget == 0 && matches!(f, S::Array(_)) && contains_ref(f) {
							return RValue::Array(vec![]);
						}
						gen_value(f, env, ch, full && !many, max_items.min(2), budget)
					})
					.collect(),
			)
		}
	}
}

pub fn contains_ref(s: &RSchema) -> bool {
	match s {
		RSchema::Ref(_) => true,
		RSchema::Array(i) | RSchema::Map(i) | RSchema::Logical(_, i) => contains_ref(i),
		RSchema::Union(v) => v.iter().any(contains_ref),
		RSchema::Record { fields, .. } => fields.iter().any(|(_, f)| contains_ref(f)),
		_ => false,
	}
}

// ---------------------------------------------------------------------------------------------
// Names under which the subject addresses union branches

/// The name the deserializer reports for a union branch / the serializer accepts for it.
pub fn branch_name(s: &RSchema, env: &Env) -> String {
	let r = env.resolve(s);
	match r {
		RSchema::Logical(l, b) => match l {
			Logical::Decimal { .. } => match env.resolve(b) {
				RSchema::Fixed { name, .. } => name.clone(),
				_ => "Decimal".into(),
			},
			Logical::BigDecimal => "BigDecimal".into(),
			Logical::Uuid => "Uuid".into(),
			Logical::Date => "Date".into(),
			Logical::TimeMillis => "TimeMillis".into(),
			Logical::TimeMicros => "TimeMicros".into(),
			Logical::TimestampMillis => "TimestampMillis".into(),
			Logical::TimestampMicros => "TimestampMicros".into(),
			Logical::Duration => "Duration".into(),
			Logical::Unknown(_) => branch_name(b, env),
		},
		RSchema::Null => "Null".into(),
		RSchema::Boolean => "Boolean".into(),
		RSchema::Int => "Int".into(),
		RSchema::Long => "Long".into(),
		RSchema::Float => "Float".into(),
		RSchema::Double => "Double".into(),
		RSchema::Bytes => "Bytes".into(),
		RSchema::String => "String".into(),
		RSchema::Array(_) => "Array".into(),
		RSchema::Map(_) => "Map".into(),
		RSchema::Union(_) => "Union".into(),
		RSchema::Record { name, .. } | RSchema::Enum { name, .. } | RSchema::Fixed { name, .. } => name.clone(),
		RSchema::Ref(_) => unreachable!(),
	}
}

/// Natural serde class of a branch (what a plain Rust value of the natural type calls).
pub fn natural_class(s: &RSchema, env: &Env) -> &'static str {
	let r = env.resolve(s);
	match r {
		RSchema::Logical(l, b) => match l {
			Logical::Decimal { .. } | Logical::BigDecimal => "str",
			Logical::Uuid => "str",
			Logical::Duration => "seq",
			Logical::Unknown(_) => natural_class(b, env),
			_ => natural_class(b, env),
		},
		RSchema::Null => "unit",
		RSchema::Boolean => "bool",
		RSchema::Int => "i32",
		RSchema::Long => "i64",
		RSchema::Float => "f32",
		RSchema::Double => "f64",
		RSchema::Bytes | RSchema::Fixed { .. } => "bytes",
		RSchema::String => "str",
		RSchema::Array(_) => "seq",
		RSchema::Map(_) | RSchema::Record { .. } => "map",
		RSchema::Enum { .. } => "unit_variant",
		RSchema::Union(_) => "union",
		RSchema::Ref(_) => unreachable!(),
	}
}

/// The subject documents that it leniently accepts a `str` for all of these node kinds.
fn accepts_str(s: &RSchema, env: &Env) -> bool {
	let r = env.resolve(s);
	match r {
		RSchema::Logical(l, b) => matches!(l, Logical::Decimal { .. } | Logical::BigDecimal | Logical::Uuid) || accepts_str(b, env),
		RSchema::String | RSchema::Bytes | RSchema::Fixed { .. } | RSchema::Enum { .. } => true,
		_ => false,
	}
}

pub fn union_unambiguous_by_type(branches: &[RSchema], env: &Env) -> bool {
	// decimal / big-decimal / uuid values are `str`s in serde's data model; a str is only an
	// unambiguous designation of such a branch if no other branch takes strs at all
	let str_logical = branches.iter().any(|b| matches!(env.resolve(b), RSchema::Logical(Logical::Decimal { .. } | Logical::BigDecimal | Logical::Uuid, _)));
	if str_logical && branches.iter().filter(|b| accepts_str(b, env)).count() >= 2 {
		return false;
	}
	let classes: Vec<&str> = branches.iter().map(|b| natural_class(b, env)).collect();
	for i in 0..classes.len() {
		for j in 0..i {
			if classes[i] == classes[j] {
				return false;
			}
		}
	}
	true
}

/// The union lookup table the crate documents in `union_variants_per_type_lookup.rs`, as the
/// harness's statement of "the type determines the branch": serde call classes, and for each
/// class the branch kinds that accept it with a priority (lowest wins, ties are conflicts).
#[derive(Clone, Copy, PartialEq, Eq, Debug)]
pub enum CallClass {
	Null,
	UnitVariant,
	Boolean,
	Integer4,
	Integer8,
	Float4,
	Float8,
	Str,
	SliceU8,
	SeqOrTuple,
	StructOrMap,
}

/// serde call class of the natural presentation of a value of this branch (see `pres_of`)
pub fn natural_call(s: &RSchema, env: &Env) -> CallClass {
	let r = env.resolve(s);
	match r {
		RSchema::Logical(l, b) => match l {
			Logical::Decimal { .. } | Logical::BigDecimal | Logical::Uuid => CallClass::Str,
			Logical::Duration => CallClass::SeqOrTuple,
			_ => natural_call(b, env),
		},
		RSchema::Null => CallClass::Null,
		RSchema::Boolean => CallClass::Boolean,
		RSchema::Int => CallClass::Integer4,
		RSchema::Long => CallClass::Integer8,
		RSchema::Float => CallClass::Float4,
		RSchema::Double => CallClass::Float8,
		RSchema::Bytes | RSchema::Fixed { .. } => CallClass::SliceU8,
		RSchema::String => CallClass::Str,
		RSchema::Array(_) => CallClass::SeqOrTuple,
		RSchema::Map(_) | RSchema::Record { .. } => CallClass::StructOrMap,
		RSchema::Enum { .. } => CallClass::UnitVariant,
		RSchema::Union(_) => CallClass::Null,
		RSchema::Ref(_) => unreachable!(),
	}
}

/// Priority with which a branch of this kind accepts a serde call of this class (None: not at all).
pub fn accepts_call(s: &RSchema, call: CallClass, env: &Env) -> Option<usize> {
	use CallClass as C;
	let r = env.resolve(s);
	let int = |four: usize, eight: usize| match call {
		C::Integer4 => Some(four),
		C::Integer8 => Some(eight),
		_ => None,
	};
	match r {
		RSchema::Logical(l, b) => match l {
			Logical::Decimal { .. } | Logical::BigDecimal => match call {
				C::Integer4 | C::Integer8 => Some(5),
				C::Float8 => Some(2),
				C::Str => Some(20),
				_ => None,
			},
			Logical::Uuid => (call == C::Str).then_some(0),
			Logical::Date | Logical::TimeMillis => int(0, 1),
			Logical::TimeMicros | Logical::TimestampMillis | Logical::TimestampMicros => int(1, 0),
			Logical::Duration => match call {
				C::StructOrMap | C::SeqOrTuple | C::SliceU8 => Some(5),
				_ => None,
			},
			Logical::Unknown(_) => accepts_call(b, call, env),
		},
		RSchema::Null => match call {
			C::Null => Some(0),
			C::UnitVariant => Some(2),
			_ => None,
		},
		RSchema::Boolean => (call == C::Boolean).then_some(0),
		RSchema::Int => int(0, 1),
		RSchema::Long => int(1, 0),
		RSchema::Float => match call {
			C::Float4 => Some(0),
			C::Float8 => Some(1),
			_ => None,
		},
		RSchema::Double => match call {
			C::Float8 => Some(0),
			C::Float4 => Some(1),
			_ => None,
		},
		RSchema::Bytes => match call {
			C::Str | C::UnitVariant => Some(10),
			C::SliceU8 => Some(0),
			C::SeqOrTuple => Some(2),
			_ => None,
		},
		RSchema::String => match call {
			C::Str => Some(0),
			C::SliceU8 | C::UnitVariant => Some(1),
			_ => None,
		},
		RSchema::Array(_) => (call == C::SeqOrTuple).then_some(0),
		RSchema::Map(_) | RSchema::Record { .. } => (call == C::StructOrMap).then_some(0),
		RSchema::Enum { .. } => match call {
			C::Integer4 | C::Integer8 => Some(10),
			C::Str => Some(5),
			C::UnitVariant => Some(0),
			_ => None,
		},
		RSchema::Fixed { .. } => match call {
			C::Str => Some(15),
			C::SliceU8 => Some(0),
			C::SeqOrTuple => Some(2),
			_ => None,
		},
		RSchema::Union(_) => None,
		RSchema::Ref(_) => unreachable!(),
	}
}

/// Does the natural (type-directed) presentation of a value of branch `i` determine that branch:
/// is `i` the unique best acceptor of its serde call class among the branches?
pub fn branch_determined_by_type(branches: &[RSchema], i: usize, env: &Env, records_carry_name: bool) -> bool {
	let call = natural_call(&branches[i], env);
	let Some(mine) = accepts_call(&branches[i], call, env) else { return false };
	// a record is presented as a struct carrying its name: the name designates it
	if records_carry_name && matches!(env.resolve(&branches[i]), RSchema::Record { .. }) {
		return true;
	}
	branches.iter().enumerate().all(|(j, b)| j == i || accepts_call(b, call, env).map_or(true, |p| p > mine))
}

/// Names under which the crate registers a union branch (its by-name lookup table).
pub fn registered_names(s: &RSchema, env: &Env) -> Vec<String> {
	let r = env.resolve(s);
	let named = |name: &String| vec![split_fullname(name).1.to_owned(), name.clone()];
	match r {
		RSchema::Logical(Logical::Decimal { .. }, b) => {
			let mut v = vec!["Decimal".to_owned()];
			if let RSchema::Fixed { name, .. } = env.resolve(b) {
				v.extend(named(name));
			}
			v
		}
		RSchema::Logical(Logical::Unknown(_), b) => registered_names(b, env),
		RSchema::Record { name, .. } | RSchema::Enum { name, .. } | RSchema::Fixed { name, .. } => named(name),
		other => vec![branch_name(other, env)],
	}
}

/// Can a value of branch `i` be presented by name: does the name we would use designate only it?
pub fn branch_designatable_by_name(branches: &[RSchema], i: usize, env: &Env) -> bool {
	let mine = branch_name(&branches[i], env);
	// The name of a branch is its full name (its type name for unnamed types). Another branch that
	// merely has the same *short* name does not make it ambiguous: full names take precedence.
	branches.iter().enumerate().all(|(j, b)| j == i || branch_name(b, env) != mine)
}

thread_local! {
	static UNDESIGNATABLE: std::cell::Cell<bool> = const { std::cell::Cell::new(false) };
}
/// `pres_of` met a union branch that neither its type nor any name designates (two branches the
/// crate addresses by the same name): no presentation "determines the branch", the property's
/// premise cannot be met for this value. Reading the flag resets it.
pub fn take_undesignatable() -> bool {
	UNDESIGNATABLE.with(|c| c.replace(false))
}

/// Three-branch unions over representative kinds (one per kind the lookup table distinguishes,
/// plus array / map / record): every ordered triple of distinct kinds with pairwise different
/// unnamed base types.
pub fn triple_unions(n: &mut Names) -> Vec<RSchema> {
	use RSchema as S;
	const KINDS: usize = 21;
	let kind = |k: usize, n: &mut Names| -> RSchema {
		match k {
			0 => S::Null,
			1 => S::Boolean,
			2 => S::Int,
			3 => S::Long,
			4 => S::Float,
			5 => S::Double,
			6 => S::Bytes,
			7 => S::String,
			8 => S::fixed(&n.fresh("ns.Fx"), 2),
			9 => S::fixed(&n.fresh("Fy"), 2),
			10 => S::enum_(&n.fresh("En"), &["a", "b"]),
			11 => S::decimal_bytes(10, 0),
			12 => S::decimal_fixed(&n.fresh("Dec"), 4, 8, 1),
			13 => S::logical(Logical::BigDecimal, S::Bytes),
			14 => S::logical(Logical::Uuid, S::String),
			15 => S::logical(Logical::Date, S::Int),
			16 => S::logical(Logical::TimeMicros, S::Long),
			17 => S::logical(Logical::Duration, S::fixed(&n.fresh("Dur"), 12)),
			18 => S::array(S::Int),
			19 => S::map(S::Int),
			_ => S::record(&n.fresh("ns.Rec"), vec![("a", S::Int)]),
		}
	};
	let unnamed_base = |s: &RSchema| match s.base() {
		RSchema::Fixed { .. } | RSchema::Enum { .. } | RSchema::Record { .. } => None,
		other => Some(std::mem::discriminant(other)),
	};
	let mut out = Vec::new();
	for a in 0..KINDS {
		for b in 0..KINDS {
			for c in 0..KINDS {
				if a == b || b == c || a == c {
					continue;
				}
				let v = vec![kind(a, n), kind(b, n), kind(c, n)];
				let bases: Vec<_> = v.iter().map(unnamed_base).collect();
				let clash = (0..3).any(|i| (0..i).any(|j| bases[i].is_some() && bases[i] == bases[j]));
				if clash {
					continue;
				}
				out.push(S::Union(v));
			}
		}
	}
	out
}

#[derive(Clone, Copy, Debug, PartialEq, Eq)]
pub enum UnionStyle {
	/// type-directed where natural classes are pairwise distinct, by name otherwise
	ByTypeWhereUnambiguous,
	/// always by branch name
	ByName,
}
#[derive(Clone, Copy, Debug, PartialEq, Eq)]
pub enum RecordStyle {
	Struct,
	Map,
}

pub fn decimal_string(unscaled: i128, scale: u32) -> String {
	let neg = unscaled < 0;
	let mut digits = unscaled.unsigned_abs().to_string();
	let scale = scale as usize;
	if scale > 0 {
		while digits.len() <= scale {
			digits.insert(0, '0');
		}
		digits.insert(digits.len() - scale, '.');
	}
	if neg {
		format!("-{digits}")
	} else {
		digits
	}
}

/// The canonical presentation of a conforming value: the natural serde type per node.
pub fn pres_of(v: &RValue, s: &RSchema, env: &Env, us: UnionStyle, rs: RecordStyle) -> Pres {
	let r = env.resolve(s);
	if let RSchema::Logical(l, b) = r {
		let b = env.resolve(b);
		match (l, v) {
			(Logical::Decimal { scale, .. }, RValue::Bytes(raw)) | (Logical::Decimal { scale, .. }, RValue::Fixed(raw)) => {
				let u = vmodel::value::be_to_i128(raw).expect("decimal within 16 bytes");
				return Pres::Str(decimal_string(u, *scale));
			}
			(Logical::BigDecimal, RValue::Bytes(raw)) => {
				let (u, sc) = vmodel::value::parse_big_decimal(raw).expect("big-decimal layout");
				return Pres::Str(decimal_string(u, sc as u32));
			}
			(Logical::Duration, RValue::Fixed(raw)) => {
				let p: Vec<Pres> = raw.chunks(4).map(|c| Pres::U32(u32::from_le_bytes(c.try_into().unwrap()))).collect();
				return Pres::Tuple(p);
			}
			_ => return pres_of(v, b, env, us, rs),
		}
	}
	match (r, v) {
		(RSchema::Null, RValue::Null) => Pres::Unit,
		(RSchema::Boolean, RValue::Bool(b)) => Pres::Bool(*b),
		(RSchema::Int, RValue::Int(i)) => Pres::I32(*i),
		(RSchema::Long, RValue::Long(i)) => Pres::I64(*i),
		(RSchema::Float, RValue::Float(b)) => Pres::F32(*b),
		(RSchema::Double, RValue::Double(b)) => Pres::F64(*b),
		(RSchema::Bytes, RValue::Bytes(b)) => Pres::Bytes(b.clone()),
		(RSchema::String, RValue::Str(st)) => Pres::Str(st.clone()),
		(RSchema::Fixed { .. }, RValue::Fixed(b)) => Pres::Bytes(b.clone()),
		(RSchema::Enum { symbols, name }, RValue::Enum(i)) => Pres::UnitVariant { name: intern(split_fullname(name).1), idx: *i as u32, variant: intern(&symbols[*i]) },
		(RSchema::Array(item), RValue::Array(items)) => Pres::seq(items.iter().map(|i| pres_of(i, item, env, us, rs)).collect()),
		(RSchema::Map(item), RValue::Map(items)) => {
			Pres::Map { len: Some(items.len()), entries: items.iter().map(|(k, i)| (Pres::Str(k.clone()), pres_of(i, item, env, us, rs))).collect(), split: false }
		}
		(RSchema::Record { name, fields }, RValue::Record(vals)) => {
			let f: Vec<(&'static str, Pres)> = fields.iter().zip(vals).map(|((fname, fs), fv)| (intern(fname), pres_of(fv, fs, env, us, rs))).collect();
			match rs {
				RecordStyle::Struct => Pres::Struct { name: intern(split_fullname(name).1), fields: f },
				RecordStyle::Map => Pres::Map { len: Some(f.len()), entries: f.into_iter().map(|(k, v)| (Pres::str(k), v)).collect(), split: false },
			}
		}
		(RSchema::Union(branches), RValue::Union(i, inner)) => {
			let b = &branches[*i];
			let by_type = us == UnionStyle::ByTypeWhereUnambiguous && branch_determined_by_type(branches, *i, env, rs == RecordStyle::Struct);
			if by_type {
				let inner_p = pres_of(inner, b, env, us, rs);
				// Option-like unions are naturally presented through Some/None
				if branches.len() == 2 && branches.iter().any(is_null) {
					return if matches!(env.resolve(b), RSchema::Null) { Pres::None } else { Pres::Some(Box::new(inner_p)) };
				}
				inner_p
			} else {
				let name = branch_name(b, env);
				if !branch_designatable_by_name(branches, *i, env) {
					UNDESIGNATABLE.with(|c| c.set(true));
				}
				if matches!(env.resolve(b), RSchema::Null) {
					Pres::unit_variant(&name)
				} else {
					// inside a named variant the payload is presented in its natural form; a record
					// payload as a struct *variant* would also be natural, newtype is the documented one
					Pres::newtype_variant(&name, pres_of(inner, b, env, us, rs))
				}
			}
		}
		(s, v) => panic!("pres_of: value {v:?} does not conform to {s:?}"),
	}
}

#[derive(Clone, Copy, Debug, PartialEq, Eq)]
pub enum ObsMode {
	/// deserialize_any everywhere
	Any,
	/// deserialize_enum on unions and enums, typed hints on leaves
	Hinted,
	/// as Hinted, but two-branch unions with null are requested through deserialize_option
	Optioned,
}

pub fn option_like(branches: &[RSchema], env: &Env) -> bool {
	branches.len() == 2 && branches.iter().filter(|b| matches!(env.resolve(b), RSchema::Null)).count() == 1
}

/// Hint tree for a given (schema, value): unions list all variant names; only the taken branch
/// gets a real payload hint (the others can never be visited for this value).
pub fn hint_for(v: &RValue, s: &RSchema, env: &Env, mode: ObsMode) -> Hint {
	if mode == ObsMode::Any {
		return Hint::Any;
	}
	let r = env.resolve(s);
	if let RSchema::Logical(l, b) = r {
		return match l {
			Logical::Decimal { .. } | Logical::BigDecimal => Hint::Str,
			Logical::Duration => Hint::Tuple(3, Box::new(Hint::U32)),
			Logical::Uuid => Hint::Str,
			Logical::Date | Logical::TimeMillis => Hint::I32,
			Logical::TimeMicros | Logical::TimestampMillis | Logical::TimestampMicros => Hint::I64,
			Logical::Unknown(_) => hint_for(v, b, env, mode),
		};
	}
	match (r, v) {
		(RSchema::Null, _) => Hint::Unit,
		(RSchema::Boolean, _) => Hint::Bool,
		(RSchema::Int, _) => Hint::I32,
		(RSchema::Long, _) => Hint::I64,
		(RSchema::Float, _) => Hint::F32,
		(RSchema::Double, _) => Hint::F64,
		(RSchema::Bytes, _) => Hint::Bytes,
		(RSchema::String, _) => Hint::Str,
		(RSchema::Fixed { .. }, _) => Hint::Bytes,
		(RSchema::Enum { symbols, name }, _) => Hint::Enum(intern(name), symbols.iter().map(|s| (intern(s), VHint::Unit)).collect()),
		(RSchema::Array(item), RValue::Array(items)) => {
			// all elements share one hint: build it from the first element that has the richest shape
			let h = items.iter().map(|i| hint_for(i, item, env, mode)).reduce(merge_hint).unwrap_or(Hint::Any);
			Hint::Seq(Box::new(h))
		}
		(RSchema::Map(item), RValue::Map(items)) => {
			let h = items.iter().map(|(_, i)| hint_for(i, item, env, mode)).reduce(merge_hint).unwrap_or(Hint::Any);
			Hint::Map(Box::new(Hint::Str), Box::new(h))
		}
		(RSchema::Record { name, fields }, RValue::Record(vals)) => {
			Hint::Struct(intern(name), fields.iter().zip(vals).map(|((fname, fs), fv)| (intern(fname), hint_for(fv, fs, env, mode))).collect())
		}
		(RSchema::Union(branches), RValue::Union(i, inner)) if mode == ObsMode::Optioned && option_like(branches, env) => {
			if matches!(env.resolve(&branches[*i]), RSchema::Null) {
				Hint::Option(Box::new(Hint::Any))
			} else {
				Hint::Option(Box::new(hint_for(inner, &branches[*i], env, mode)))
			}
		}
		(RSchema::Union(branches), RValue::Union(i, inner)) => Hint::Enum(
			"Union",
			branches
				.iter()
				.enumerate()
				.map(|(j, b)| {
					let name = intern(&branch_name(b, env));
					let vh = if matches!(env.resolve(b), RSchema::Null) {
						VHint::Unit
					} else if j == *i {
						VHint::Newtype(hint_for(inner, b, env, mode))
					} else {
						VHint::Newtype(Hint::Any)
					};
					(name, vh)
				})
				.collect(),
		),
		(s, v) => panic!("hint_for: value {v:?} does not conform to {s:?}"),
	}
}

/// Merge two hints built for different elements of the same collection (they differ only in
/// which union branches carry a real payload hint).
fn merge_hint(a: Hint, b: Hint) -> Hint {
	match (a, b) {
		(Hint::Any, x) | (x, Hint::Any) => x,
		(Hint::Seq(x), Hint::Seq(y)) => Hint::Seq(Box::new(merge_hint(*x, *y))),
		(Hint::Map(k, x), Hint::Map(_, y)) => Hint::Map(k, Box::new(merge_hint(*x, *y))),
		(Hint::Option(x), Hint::Option(y)) => Hint::Option(Box::new(merge_hint(*x, *y))),
		(Hint::Struct(n, fa), Hint::Struct(_, fb)) => Hint::Struct(n, fa.into_iter().zip(fb).map(|((k, x), (_, y))| (k, merge_hint(x, y))).collect()),
		(Hint::Enum(n, va), Hint::Enum(_, vb)) => Hint::Enum(
			n,
			va.into_iter()
				.zip(vb)
				.map(|((k, x), (_, y))| {
					let m = match (x, y) {
						(VHint::Newtype(x), VHint::Newtype(y)) => VHint::Newtype(merge_hint(x, y)),
						(x, _) => x,
					};
					(k, m)
				})
				.collect(),
		),
		(x, _) => x,
	}
}

/// What a correct deserializer delivers for `v` under `s` with the hints of `hint_for`.
/// `borrowed`: input is a slice (strings/bytes taken from the input are delivered borrowed).
pub fn expect_obs(v: &RValue, s: &RSchema, env: &Env, mode: ObsMode, borrowed: bool) -> O {
	let r = env.resolve(s);
	if let RSchema::Logical(l, b) = r {
		match (l, v) {
			(Logical::Decimal { scale, .. }, RValue::Bytes(raw)) | (Logical::Decimal { scale, .. }, RValue::Fixed(raw)) => {
				return O::str(&decimal_string(vmodel::value::be_to_i128(raw).unwrap(), *scale));
			}
			(Logical::BigDecimal, RValue::Bytes(raw)) => {
				let (u, sc) = vmodel::value::parse_big_decimal(raw).unwrap();
				return O::str(&decimal_string(u, sc as u32));
			}
			(Logical::Duration, RValue::Fixed(raw)) => {
				let parts: Vec<u32> = raw.chunks(4).map(|c| u32::from_le_bytes(c.try_into().unwrap())).collect();
				return match mode {
					ObsMode::Any => O::Map(vec![(O::str("months"), O::U32(parts[0])), (O::str("days"), O::U32(parts[1])), (O::str("milliseconds"), O::U32(parts[2]))]),
					_ => O::Seq(parts.into_iter().map(O::U32).collect()),
				};
			}
			_ => return expect_obs(v, b, env, mode, borrowed),
		}
	}
	match (r, v) {
		(RSchema::Null, RValue::Null) => O::Unit,
		(RSchema::Boolean, RValue::Bool(b)) => O::Bool(*b),
		(RSchema::Int, RValue::Int(i)) => O::I32(*i),
		(RSchema::Long, RValue::Long(i)) => O::I64(*i),
		(RSchema::Float, RValue::Float(b)) => O::F32(*b),
		(RSchema::Double, RValue::Double(b)) => O::F64(*b),
		(RSchema::Bytes, RValue::Bytes(b)) => O::Bytes(b.clone(), borrowed),
		(RSchema::String, RValue::Str(st)) => O::Str(st.clone(), borrowed),
		(RSchema::Fixed { .. }, RValue::Fixed(b)) => O::Bytes(b.clone(), borrowed),
		(RSchema::Enum { symbols, .. }, RValue::Enum(i)) => match mode {
			ObsMode::Any => O::str(&symbols[*i]),
			_ => O::Enum(Box::new(O::str(&symbols[*i])), Box::new(O::Unit)),
		},
		(RSchema::Array(item), RValue::Array(items)) => O::Seq(items.iter().map(|i| expect_obs(i, item, env, mode, borrowed)).collect()),
		(RSchema::Map(item), RValue::Map(items)) => O::Map(items.iter().map(|(k, i)| (O::Str(k.clone(), borrowed), expect_obs(i, item, env, mode, borrowed))).collect()),
		(RSchema::Record { fields, .. }, RValue::Record(vals)) => {
			O::Map(fields.iter().zip(vals).map(|((fname, fs), fv)| (O::str(fname), expect_obs(fv, fs, env, mode, borrowed))).collect())
		}
		(RSchema::Union(branches), RValue::Union(i, inner)) => {
			let b = &branches[*i];
			match mode {
				ObsMode::Any => expect_obs(inner, b, env, mode, borrowed),
				ObsMode::Optioned if option_like(branches, env) => {
					if matches!(env.resolve(b), RSchema::Null) {
						O::None
					} else {
						O::Some(Box::new(expect_obs(inner, b, env, mode, borrowed)))
					}
				}
				_ => {
					let payload = if matches!(env.resolve(b), RSchema::Null) { O::Unit } else { expect_obs(inner, b, env, mode, borrowed) };
					O::Enum(Box::new(O::str(&branch_name(b, env))), Box::new(payload))
				}
			}
		}
		(s, v) => panic!("expect_obs: value {v:?} does not conform to {s:?}"),
	}
}

// ---------------------------------------------------------------------------------------------
// Bridging to the subject

pub fn schema_text(s: &RSchema) -> String {
	vmodel::schema::spell(s, &mut vmodel::Zero, &SpellCfg::plain())
}

pub fn to_crate_schema(s: &RSchema) -> Result<serde_avro_fast::Schema, String> {
	let text = schema_text(s);
	text.parse::<serde_avro_fast::Schema>().map_err(|e| format!("subject rejects schema {text}: {e}"))
}
