//! C12 — skipping a value consumes exactly the bytes that reading it would.
//!
//! SAE. Every schema S of Σ_S is embedded in wrapper records ending in a sentinel `long`:
//! W1 `record{ignored: S, sentinel}`, W2 `record{a: S, b: S', sentinel}`, W3 `record{arr: array<S>,
//! sentinel}` / `record{m: map<S>, sentinel}`, W4 `record{u: [S, long], sentinel}`. Every value ×
//! every block layout (incl. negative counts with byte sizes) is decoded once with the full hint
//! tree (nothing ignored) and once per *ignoring target*: a sub-tree of the hint tree replaced by
//! `IgnoredAny`, a struct field removed from the target, a union branch turned into a unit variant.
//! Oracle: the ignoring decode succeeds, everything that is not ignored (the sentinel in
//! particular) is observed exactly as in the non-ignoring decode, and both consume exactly the
//! number of bytes the reference model says the datum occupies.

use crate::envs::ChunkedBufRead;
use crate::explore::{hash64, Chooser, Cover};
use crate::gen::{self, ObsMode};
use crate::lay;
use crate::obs::{Hint, VHint, O};
use crate::report::{hex, Report, Violation};
use crate::subj::{self, Limits, Out};
use rayon::prelude::*;
use serde_json::json;
use std::collections::HashSet;
use vmodel::schema::{Env, RSchema};
use vmodel::value::{Block, RValue, Verdict};

const SENTINEL: i64 = 0x0123_4567_89ab;
const PAD: [u8; 2] = [0x2a, 0x2a];
const PATHS: [&str; 3] = ["slice", "reader-whole", "reader-1byte"];

const ALL_EMB: [Emb; 8] = [Emb::W1, Emb::W2, Emb::W3Array, Emb::W3Map, Emb::W4, Emb::L0, Emb::L1, Emb::L4];

#[derive(Clone, Copy, Debug, PartialEq, Eq)]
pub enum Emb {
	W1,
	W2,
	W3Array,
	W3Map,
	W4,
	/// the bare datum S, the input ends exactly where the datum ends
	L0,
	/// record{sentinel: long, ignored: S}: the ignored part is the last thing of the input
	L1,
	/// record{sentinel: long, u: [long, S]}: a union branch at the end of the input
	L4,
}
impl Emb {
	fn name(self) -> &'static str {
		match self {
			Emb::W1 => "W1",
			Emb::W2 => "W2",
			Emb::W3Array => "W3a",
			Emb::W3Map => "W3m",
			Emb::W4 => "W4",
			Emb::L0 => "L0",
			Emb::L1 => "L1",
			Emb::L4 => "L4",
		}
	}
	fn parse(s: &str) -> Option<Emb> {
		ALL_EMB.into_iter().find(|e| e.name() == s)
	}
	/// how deep below the wrapper's root targets are enumerated
	fn target_depth(self) -> usize {
		match self {
			Emb::W1 => usize::MAX,
			Emb::W2 => 1,
			Emb::W3Array | Emb::W3Map | Emb::W4 | Emb::L0 | Emb::L1 | Emb::L4 => 2,
		}
	}
	/// the schema is S itself: no wrapper record, no sentinel
	fn bare(self) -> bool {
		self == Emb::L0
	}
	/// the ignored part comes last and nothing follows the datum in the input
	fn ends_input(self) -> bool {
		matches!(self, Emb::L0 | Emb::L1 | Emb::L4)
	}
	/// index of the sentinel field in the wrapper record
	fn sentinel_idx(self, n_payload: usize) -> Option<usize> {
		match self {
			Emb::L0 => None,
			Emb::L1 | Emb::L4 => Some(0),
			_ => Some(n_payload),
		}
	}
}

/// Bounds of the two sweeps for one class of wrapper schemas.
#[derive(Clone, Debug)]
pub struct Sweep {
	/// sweep A, W1 payload: largest collection / recursion budget of `gen_value`;
	/// W3: the embedding array/map itself has 0..=value_items elements
	pub value_items: usize,
	pub w1_rec: usize,
	/// sweep A, payloads of the other embeddings
	pub other_items: usize,
	pub other_rec: usize,
	pub a_layout_cap: u64,
	pub wide_ns: Vec<usize>,
	pub wide_inner: usize,
	pub b_layout_cap: u64,
}
impl Sweep {
	fn to_json(&self) -> serde_json::Value {
		json!({"value_items": self.value_items, "w1_rec": self.w1_rec, "other_items": self.other_items, "other_rec": self.other_rec, "a_layout_cap": self.a_layout_cap, "wide_ns": self.wide_ns, "wide_inner": self.wide_inner, "b_layout_cap": self.b_layout_cap})
	}
	fn overridden(&self, v: &serde_json::Value) -> Self {
		Sweep {
			value_items: v["value_items"].as_u64().map_or(self.value_items, |x| x as usize),
			w1_rec: v["w1_rec"].as_u64().map_or(self.w1_rec, |x| x as usize),
			other_items: v["other_items"].as_u64().map_or(self.other_items, |x| x as usize),
			other_rec: v["other_rec"].as_u64().map_or(self.other_rec, |x| x as usize),
			a_layout_cap: v["a_layout_cap"].as_u64().unwrap_or(self.a_layout_cap),
			wide_ns: v["wide_ns"].as_array().map_or(self.wide_ns.clone(), |a| a.iter().map(|x| x.as_u64().unwrap() as usize).collect()),
			wide_inner: v["wide_inner"].as_u64().map_or(self.wide_inner, |x| x as usize),
			b_layout_cap: v["b_layout_cap"].as_u64().unwrap_or(self.b_layout_cap),
		}
	}
	fn text(&self) -> String {
		format!(
			"sweep A: W1 payload with the full leaf alphabet, collections <= {} items, recursion budget {}; other payloads with the reduced leaf alphabet, collections <= {} items, recursion budget {}, the W3 array/map itself 0..={} elements; layout product cap {}; sweep B: top collections of n ∈ {:?} items, inner {}, layout product cap {}",
			self.value_items, self.w1_rec, self.other_items, self.other_rec, self.value_items, self.a_layout_cap, self.wide_ns, self.wide_inner, self.b_layout_cap
		)
	}
}

#[derive(Clone, Debug)]
pub struct Params {
	/// Σ_S level for W1 / for the other embeddings
	pub level_w1: usize,
	pub level_other: usize,
	/// wrappers with < 3 nested arrays/maps
	pub normal: Sweep,
	/// wrappers with >= 3 nested arrays/maps (recursion unfolded twice)
	pub deep: Sweep,
	/// intermediate uniform refill sizes of the reader for targets that skip size-prefixed blocks
	pub chunk_sizes: Vec<usize>,
	pub max_leaves: u64,
}
impl Params {
	pub fn quick() -> Self {
		let normal = Sweep { value_items: 2, w1_rec: 1, other_items: 1, other_rec: 1, a_layout_cap: 36, wide_ns: vec![3, 4], wide_inner: 2, b_layout_cap: 324 };
		let deep = normal.clone();
		Params { level_w1: 2, level_other: 1, normal, deep, chunk_sizes: vec![2, 3, 4, 5, 6, 8, 11, 16, 32], max_leaves: 100_000 }
	}
	pub fn thorough() -> Self {
		let normal = Sweep { value_items: 2, w1_rec: 2, other_items: 1, other_rec: 1, a_layout_cap: 216, wide_ns: vec![3, 4, 5, 6], wide_inner: 2, b_layout_cap: 1944 };
		let deep = Sweep { value_items: 1, w1_rec: 1, other_items: 1, other_rec: 1, a_layout_cap: 36, wide_ns: vec![3, 4], wide_inner: 2, b_layout_cap: 324 };
		Params { level_w1: 3, level_other: 2, normal, deep, chunk_sizes: CHUNK_SIZES.to_vec(), max_leaves: 400_000 }
	}
	/// Development knob: `VERIF_C12_PARAMS='{"level_w1":2,"level_other":1,"normal":{…},"deep":{…},"max_leaves":N}'`.
	pub fn with_env_override(self) -> Self {
		let Ok(text) = std::env::var("VERIF_C12_PARAMS") else { return self };
		let v: serde_json::Value = serde_json::from_str(&text).unwrap_or_else(|e| {
			eprintln!("MACHINERY: VERIF_C12_PARAMS is not JSON: {e}");
			std::process::exit(2)
		});
		Params {
			level_w1: v["level_w1"].as_u64().map_or(self.level_w1, |x| x as usize),
			level_other: v["level_other"].as_u64().map_or(self.level_other, |x| x as usize),
			normal: self.normal.overridden(&v["normal"]),
			deep: self.deep.overridden(&v["deep"]),
			chunk_sizes: v["chunk_sizes"].as_array().map_or(self.chunk_sizes.clone(), |a| a.iter().map(|x| x.as_u64().unwrap() as usize).collect()),
			max_leaves: v["max_leaves"].as_u64().unwrap_or(self.max_leaves),
		}
	}
	pub fn sweep_for(&self, u: &Unit) -> &Sweep {
		if u.deep {
			&self.deep
		} else {
			&self.normal
		}
	}
	fn from_replay(r: &serde_json::Value) -> Self {
		let q = Params::quick();
		let sw = q.normal.overridden(&r["sweep_params"]);
		Params { level_w1: r["level_w1"].as_u64().unwrap_or(2) as usize, level_other: r["level_other"].as_u64().unwrap_or(1) as usize, normal: sw.clone(), deep: sw, chunk_sizes: r["chunk_sizes"].as_array().map_or(CHUNK_SIZES.to_vec(), |a| a.iter().map(|x| x.as_u64().unwrap() as usize).collect()), max_leaves: u64::MAX }
	}
}

/// A wrapper schema: the fields before the sentinel are the payload fields.
pub struct Unit {
	pub id: usize,
	pub emb: Emb,
	pub schema: RSchema,
	pub n_payload: usize,
	/// >= 3 nested arrays/maps
	pub deep: bool,
	/// extra units: (label, schema text given to the crate); `schema` is then the specification's
	/// reading of that text
	pub text: Option<(String, String)>,
}

fn wrapper(emb: Emb, s: &RSchema, id: usize) -> Option<(RSchema, usize)> {
	use RSchema as S;
	let name = format!("verif.{}_{id}", emb.name());
	Some(match emb {
		Emb::W1 => (S::record(&name, vec![("ignored", s.clone()), ("sentinel", S::Long)]), 1),
		Emb::W2 => (S::record(&name, vec![("a", s.clone()), ("b", lay::rename(s, "_b")), ("sentinel", S::Long)]), 2),
		Emb::W3Array => (S::record(&name, vec![("arr", S::array(s.clone())), ("sentinel", S::Long)]), 1),
		Emb::W3Map => (S::record(&name, vec![("m", S::map(s.clone())), ("sentinel", S::Long)]), 1),
		Emb::L0 => (s.clone(), 1),
		Emb::L1 => (S::record(&name, vec![("sentinel", S::Long), ("ignored", s.clone())]), 1),
		Emb::L4 => {
			if matches!(s, S::Union(_)) {
				return None;
			}
			let other = if matches!(s, S::Long) { S::Boolean } else { S::Long };
			(S::record(&name, vec![("sentinel", S::Long), ("u", S::Union(vec![other, s.clone()]))]), 1)
		}
		Emb::W4 => {
			if matches!(s, S::Union(_)) {
				return None; // unions may not immediately contain unions
			}
			let other = if matches!(s, S::Long) { S::Boolean } else { S::Long };
			(S::record(&name, vec![("u", S::Union(vec![s.clone(), other])), ("sentinel", S::Long)]), 1)
		}
	})
}

pub fn units(p: &Params) -> Vec<Unit> {
	let mut out = Vec::new();
	for emb in ALL_EMB {
		let level = if emb == Emb::W1 { p.level_w1 } else { p.level_other };
		for s in gen::schema_alphabet(level) {
			let id = out.len();
			if let Some((schema, n_payload)) = wrapper(emb, &s, id) {
				let deep = crate::c03::collection_depth(&schema, &Env::new(&schema), 2) >= 3;
				out.push(Unit { id, emb, schema, n_payload, deep, text: None });
			} else {
				// keep ids stable: a placeholder that produces no job
				out.push(Unit { id, emb, schema: RSchema::Null, n_payload: 0, deep: false, text: None });
			}
		}
	}
	// private extra units (after all units built on the shared alphabet): payloads whose logical type
	// the specification says to ignore. The crate gets the text; the reference side reads it as the
	// underlying type, whose encoded length is what skipping must consume.
	for (label, x) in lay::ignored_logical_texts() {
		let id0 = out.len();
		for (emb, text) in [
			(Emb::W1, format!("{{\"type\":\"record\",\"name\":\"verif.IgnW1_{id0}\",\"fields\":[{{\"name\":\"ignored\",\"type\":{x}}},{{\"name\":\"sentinel\",\"type\":\"long\"}}]}}")),
			(Emb::W3Array, format!("{{\"type\":\"record\",\"name\":\"verif.IgnW3a_{id0}\",\"fields\":[{{\"name\":\"arr\",\"type\":{{\"type\":\"array\",\"items\":{x}}}}},{{\"name\":\"sentinel\",\"type\":\"long\"}}]}}")),
			(Emb::L1, format!("{{\"type\":\"record\",\"name\":\"verif.IgnL1_{id0}\",\"fields\":[{{\"name\":\"sentinel\",\"type\":\"long\"}},{{\"name\":\"ignored\",\"type\":{x}}}]}}")),
		] {
			let schema = lay::resolve_effective(&text).unwrap_or_else(|e| panic!("MACHINERY: reference resolver rejects {text}: {e}"));
			let id = out.len();
			out.push(Unit { id, emb, schema, n_payload: 1, deep: false, text: Some((label.clone(), text)) });
		}
	}
	out
}

/// The schema text as quoted in violations and replay files (extra units carry their label).
fn display_text(u: &Unit) -> String {
	match &u.text {
		Some((label, t)) => format!("{t} [ignored-logical: {label}]"),
		None => gen::schema_text(&u.schema),
	}
}

fn unit_crate_schema(u: &Unit) -> Result<serde_avro_fast::Schema, String> {
	match &u.text {
		Some((_, t)) => t.parse::<serde_avro_fast::Schema>().map_err(|e| format!("subject rejects schema {t}: {e}")),
		None => gen::to_crate_schema(&u.schema),
	}
}

// ---------------------------------------------------------------------------------------------
// Ignoring targets

#[derive(Clone, Copy, Debug, PartialEq, Eq, Hash)]
pub enum Kind {
	/// the sub-tree at the path is deserialized into `IgnoredAny`
	Ignore,
	/// the struct field at the path does not exist in the target (the visitor skips its value)
	Absent,
	/// the union branch at the path is a unit variant of the target enum
	Unit,
}

#[derive(Clone, Debug, PartialEq, Eq, Hash)]
pub struct Target {
	pub path: Vec<usize>,
	pub kind: Kind,
}

fn enumerate_targets(h: &Hint, path: &mut Vec<usize>, depth_left: usize, out: &mut Vec<Target>) {
	out.push(Target { path: path.clone(), kind: Kind::Ignore });
	if depth_left == 0 {
		return;
	}
	match h {
		Hint::Struct(_, fields) => {
			for (i, (_, fh)) in fields.iter().enumerate() {
				path.push(i);
				if path.len() == 1 {
					out.push(Target { path: path.clone(), kind: Kind::Absent });
				}
				enumerate_targets(fh, path, depth_left - 1, out);
				path.pop();
			}
		}
		Hint::Seq(e) | Hint::Tuple(_, e) => {
			path.push(0);
			enumerate_targets(e, path, depth_left - 1, out);
			path.pop();
		}
		Hint::Map(k, v) => {
			path.push(0);
			enumerate_targets(k, path, depth_left - 1, out);
			path.pop();
			path.push(1);
			enumerate_targets(v, path, depth_left - 1, out);
			path.pop();
		}
		Hint::Enum(_, variants) => {
			for (j, (_, vh)) in variants.iter().enumerate() {
				if let VHint::Newtype(ih) = vh {
					path.push(j);
					out.push(Target { path: path.clone(), kind: Kind::Unit });
					enumerate_targets(ih, path, depth_left - 1, out);
					path.pop();
				}
			}
		}
		_ => {}
	}
}

fn apply_hint(h: &Hint, path: &[usize], kind: Kind) -> Hint {
	if path.is_empty() {
		assert!(kind == Kind::Ignore, "MACHINERY: C12 target kind {kind:?} with empty path");
		return Hint::Ignored;
	}
	let last = path.len() == 1;
	match h {
		Hint::Struct(n, fields) => {
			let mut f = fields.clone();
			if last && kind == Kind::Absent {
				f.remove(path[0]);
			} else {
				f[path[0]].1 = apply_hint(&fields[path[0]].1, &path[1..], kind);
			}
			Hint::Struct(n, f)
		}
		Hint::Seq(e) => Hint::Seq(Box::new(apply_hint(e, &path[1..], kind))),
		Hint::Tuple(n, e) => Hint::Tuple(*n, Box::new(apply_hint(e, &path[1..], kind))),
		Hint::Map(k, v) => {
			if path[0] == 0 {
				Hint::Map(Box::new(apply_hint(k, &path[1..], kind)), v.clone())
			} else {
				Hint::Map(k.clone(), Box::new(apply_hint(v, &path[1..], kind)))
			}
		}
		Hint::Enum(n, variants) => {
			let mut vs = variants.clone();
			let VHint::Newtype(inner) = &variants[path[0]].1 else { panic!("MACHINERY: C12 target path enters a non-newtype variant") };
			vs[path[0]].1 = if last && kind == Kind::Unit { VHint::Unit } else { VHint::Newtype(apply_hint(inner, &path[1..], kind)) };
			Hint::Enum(n, vs)
		}
		other => panic!("MACHINERY: C12 target path {path:?} does not exist in hint {other:?}"),
	}
}

/// What the ignoring decode must observe, derived from what the non-ignoring decode observed.
/// `None`: the observation does not have the shape of the hint (nothing to compare).
fn apply_obs(h: &Hint, path: &[usize], kind: Kind, o: &O) -> Option<O> {
	if path.is_empty() {
		return Some(O::Ignored);
	}
	let last = path.len() == 1;
	match (h, o) {
		(Hint::Struct(_, fields), O::Map(entries)) => {
			if entries.len() != fields.len() {
				return None;
			}
			let mut e = entries.clone();
			if last && kind == Kind::Absent {
				e.remove(path[0]);
			} else {
				e[path[0]].1 = apply_obs(&fields[path[0]].1, &path[1..], kind, &entries[path[0]].1)?;
			}
			Some(O::Map(e))
		}
		(Hint::Seq(e), O::Seq(items)) | (Hint::Tuple(_, e), O::Seq(items)) => Some(O::Seq(items.iter().map(|i| apply_obs(e, &path[1..], kind, i)).collect::<Option<Vec<O>>>()?)),
		(Hint::Map(k, v), O::Map(entries)) => Some(O::Map(
			entries
				.iter()
				.map(|(ko, vo)| if path[0] == 0 { Some((apply_obs(k, &path[1..], kind, ko)?, vo.clone())) } else { Some((ko.clone(), apply_obs(v, &path[1..], kind, vo)?)) })
				.collect::<Option<Vec<(O, O)>>>()?,
		)),
		(Hint::Enum(_, variants), O::Enum(id, payload)) => {
			let O::Str(name, _) = &**id else { return None };
			let taken = variants.iter().position(|v| v.0 == name.as_str())?;
			if taken != path[0] {
				return Some(o.clone());
			}
			let VHint::Newtype(inner) = &variants[taken].1 else { return None };
			let p = if last && kind == Kind::Unit { O::Unit } else { apply_obs(inner, &path[1..], kind, payload)? };
			Some(O::Enum(id.clone(), Box::new(p)))
		}
		_ => None,
	}
}

fn describe(h: &Hint, path: &[usize], kind: Kind) -> String {
	if path.is_empty() {
		return "ignored (IgnoredAny)".into();
	}
	let last = path.len() == 1;
	match h {
		Hint::Struct(_, fields) => {
			let (n, fh) = &fields[path[0]];
			if last && kind == Kind::Absent {
				format!("field `{n}` absent from the target struct")
			} else {
				format!("field `{n}` → {}", describe(fh, &path[1..], kind))
			}
		}
		Hint::Seq(e) | Hint::Tuple(_, e) => format!("every element → {}", describe(e, &path[1..], kind)),
		Hint::Map(k, v) => {
			if path[0] == 0 {
				format!("every map key → {}", describe(k, &path[1..], kind))
			} else {
				format!("every map value → {}", describe(v, &path[1..], kind))
			}
		}
		Hint::Enum(_, variants) => {
			let (n, vh) = &variants[path[0]];
			match vh {
				VHint::Newtype(_) if last && kind == Kind::Unit => format!("union branch `{n}` taken as a unit variant"),
				VHint::Newtype(ih) => format!("union branch `{n}` → {}", describe(ih, &path[1..], kind)),
				_ => "?".into(),
			}
		}
		_ => "?".into(),
	}
}

/// Pre-order indices (= indices into the recorded layouts) of the array/map occurrences that the
/// target hands *directly* to `deserialize_ignored_any`.
fn ignored_collections(h: &Hint, v: &RValue, s: &RSchema, env: &Env, path: Option<&[usize]>, kind: Kind, idx: &mut usize, out: &mut Vec<usize>) {
	let mine = if matches!(v, RValue::Array(_) | RValue::Map(_)) {
		*idx += 1;
		Some(*idx - 1)
	} else {
		None
	};
	let rest = lay::count_collections(v) - usize::from(mine.is_some());
	let Some(p) = path else {
		*idx += rest;
		return;
	};
	if p.is_empty() {
		if let Some(m) = mine {
			out.push(m);
		}
		*idx += rest;
		return;
	}
	let last = p.len() == 1;
	let sub = |i: usize| if p[0] == i { Some(&p[1..]) } else { None };
	match (h, v, env.resolve(s)) {
		(Hint::Struct(_, fields), RValue::Record(vals), RSchema::Record { fields: sf, .. }) if fields.len() == vals.len() => {
			for i in 0..vals.len() {
				ignored_collections(&fields[i].1, &vals[i], &sf[i].1, env, sub(i), kind, idx, out);
			}
		}
		(Hint::Seq(e), RValue::Array(items), RSchema::Array(it)) => {
			for item in items {
				ignored_collections(e, item, it, env, sub(0), kind, idx, out);
			}
		}
		(Hint::Map(_, vh), RValue::Map(entries), RSchema::Map(it)) => {
			for (_, item) in entries {
				ignored_collections(vh, item, it, env, sub(1), kind, idx, out);
			}
		}
		(Hint::Enum(_, variants), RValue::Union(i, inner), RSchema::Union(bs)) => {
			let ih = match &variants[*i].1 {
				VHint::Newtype(ih) => ih,
				_ => &Hint::Any,
			};
			let below = if p[0] == *i {
				if last && kind == Kind::Unit {
					Some(&p[1..])
				} else if matches!(variants[*i].1, VHint::Newtype(_)) {
					Some(&p[1..])
				} else {
					None
				}
			} else {
				None
			};
			ignored_collections(ih, inner, &bs[*i], env, below, kind, idx, out);
		}
		_ => *idx += rest,
	}
}

// ---------------------------------------------------------------------------------------------
// Execution

#[derive(Clone, Debug, PartialEq)]
enum Seen {
	Ok(O, usize),
	Err(String),
	Panic(String),
}

/// `path`: 0 = slice, 1 = reader handing out everything at once, 2 = reader with 1-byte chunks.
fn execute(cs: &serde_avro_fast::Schema, padded: &[u8], hint: &Hint, path: usize) -> Seen {
	match path {
		0 => execute_on(cs, padded, hint, None),
		1 => execute_on(cs, padded, hint, Some(0)),
		_ => execute_on(cs, padded, hint, Some(1)),
	}
}

/// `chunk`: None = slice; Some(k) = reader refilling in uniform chunks of k bytes (0 = all at once).
fn execute_on(cs: &serde_avro_fast::Schema, padded: &[u8], hint: &Hint, chunk: Option<usize>) -> Seen {
	let path = if chunk.is_none() { 0 } else { 1 };
	let limits = Limits { allowed_depth: None, max_seq_size: None, max_alloc_size: Some(padded.len().max(64)) };
	match path {
		0 => match subj::de_slice(cs, padded, hint, &limits) {
			Out::Ok((o, n)) => Seen::Ok(o.unborrowed(), n),
			Out::Err(e) => Seen::Err(e),
			Out::Panic(e) => Seen::Panic(e),
		},
		_ => {
			let rd = ChunkedBufRead::uniform(padded, chunk.unwrap_or(0));
			let (r, run) = subj::de_reader(cs, rd, hint, &limits);
			match r {
				Out::Ok(o) => Seen::Ok(o.unborrowed(), run.consumed),
				Out::Err(e) => Seen::Err(e),
				Out::Panic(e) => Seen::Panic(e),
			}
		}
	}
}

pub struct Ctx<'a> {
	pub chunk_sizes: &'a [usize],
	pub u: &'a Unit,
	pub cs: &'a serde_avro_fast::Schema,
	pub env: &'a Env<'a>,
	pub schema_text: String,
	pub verbose: bool,
}

fn sentinel_of(o: &O) -> Option<&O> {
	match o {
		O::Map(entries) => entries.iter().find(|(k, _)| matches!(k, O::Str(s, _) if s == "sentinel")).map(|(_, v)| v),
		_ => None,
	}
}

/// Intermediate refill sizes tried on the reader path for targets that skip size-prefixed blocks (thorough; quick uses a subset).
const CHUNK_SIZES: [usize; 15] = [2, 3, 4, 5, 6, 7, 8, 9, 10, 11, 12, 16, 24, 32, 64];

fn compare(seen: &Seen, expect: &O, len: usize) -> Option<(&'static str, String)> {
	match seen {
		Seen::Panic(m) => Some(("skip-panic", format!("panicked: {m}"))),
		Seen::Err(e) => Some(("skip-err", format!("returned Err({e}); the datum is a valid encoding of {len} bytes (reference model; the non-ignoring decode consumes the same unless noted)"))),
		Seen::Ok(o, n) => {
			if sentinel_of(o) != sentinel_of(expect) {
				Some(("skip-sentinel", format!("sentinel observed as {:?} (non-ignoring decode: {SENTINEL}), consumed {n} of {len} bytes; whole observation {o:?}", sentinel_of(o))))
			} else if o != expect {
				Some(("skip-differs", format!("observed {o:?}, expected (non-ignoring observation with the ignored part blanked) {expect:?}")))
			} else if *n != len {
				Some(("skip-consumed", format!("consumed {n} bytes, the non-ignoring decode and the reference model say {len}")))
			} else {
				None
			}
		}
	}
}

/// One leaf: a wrapper value in one block layout. `only`: replay filter on the target set.
#[allow(clippy::too_many_arguments)]
fn run_leaf(ctx: &Ctx, v: &RValue, bytes: &[u8], rec: &[Vec<Block>], replay_base: &serde_json::Value, only: Option<&Vec<Target>>, cover: &mut Cover, out: &mut Vec<Violation>) {
	let layout = lay::layout_text(rec);
	let s = &ctx.u.schema;
	// the reference: the datum occupies exactly these bytes
	match vmodel::value::decode(bytes, s, ctx.env) {
		Verdict::Valid(v2, n) if &v2 == v && n == bytes.len() => {}
		other => {
			eprintln!("MACHINERY: C12 reference decoder does not return the encoded value: schema {} value {v:?} layout {layout} bytes [{}] -> {other:?}", ctx.schema_text, hex(bytes));
			std::process::exit(2);
		}
	}
	let len = bytes.len();
	let mut padded = bytes.to_vec();
	if !ctx.u.emb.ends_input() {
		padded.extend_from_slice(&PAD);
	}
	let pad_text = if ctx.u.emb.ends_input() { "the input ends here" } else { "+2 padding bytes 2a 2a" };
	let full_hint = gen::hint_for(v, s, ctx.env, ObsMode::Hinted);
	cover.evaluations += 1;
	if ctx.u.emb.ends_input() {
		cover.count("leaves_ending_the_input", 1);
	}
	// non-ignoring decodes, one per input path
	let mut baseline: Vec<Option<O>> = Vec::new();
	for (pi, pname) in PATHS.iter().enumerate() {
		cover.impl_runs += 1;
		let seen = execute(ctx.cs, &padded, &full_hint, pi);
		if ctx.verbose {
			println!("  non-ignoring decode, {pname}: {seen:?}");
		}
		match seen {
			Seen::Ok(o, n) if n == len && (ctx.u.emb.bare() || sentinel_of(&o) == Some(&O::I64(SENTINEL))) => baseline.push(Some(o)),
			_ => {
				// the non-ignoring decode itself is wrong: that is C03's subject. Only targets that do not
				// look at the payload at all are still judged here, against the reference model (below)
				cover.count("baseline_decode_unusable", 1);
				baseline.push(None);
			}
		}
	}
	// what the reference model says a correct non-ignoring decode observes
	let model_obs = gen::expect_obs(v, s, ctx.env, ObsMode::Hinted, false);
	if baseline.iter().any(|b| b.is_some()) {
		cover.count("leaves_with_baseline", 1);
	}
	// targets
	let mut targets: Vec<Vec<Target>> = Vec::new();
	let mut singles = Vec::new();
	enumerate_targets(&full_hint, &mut Vec::new(), ctx.u.emb.target_depth(), &mut singles);
	for t in singles {
		// the sentinel stays; a payload field as a whole is ignored by being absent from the target
		// (the same call into the crate as an `IgnoredAny` field)
		let sentinel_idx = ctx.u.emb.sentinel_idx(ctx.u.n_payload);
		if (sentinel_idx.is_some() && t.path.first() == sentinel_idx.as_ref()) || (!ctx.u.emb.bare() && t.path.len() == 1 && t.kind == Kind::Ignore) {
			continue;
		}
		targets.push(vec![t]);
	}
	if ctx.u.emb == Emb::W2 {
		targets.push(vec![Target { path: vec![1], kind: Kind::Absent }, Target { path: vec![0], kind: Kind::Absent }]);
	}
	let mut any_target = false;
	let mut spans: Option<Vec<Vec<lay::BlockSpan>>> = None;
	for tset in &targets {
		if let Some(o) = only {
			if o != tset {
				continue;
			}
		}
		// (a set addresses disjoint fields of the root struct, higher index first, so that indices stay
		// valid when fields are removed)
		let hint = tset.iter().fold(full_hint.clone(), |h, t| apply_hint(&h, &t.path, t.kind));
		let desc: Vec<String> = tset.iter().map(|t| describe(&full_hint, &t.path, t.kind)).collect();
		let desc = desc.join(" AND ");
		// shape of the input under the ignored parts (vacuity accounting)
		let mut colls = Vec::new();
		for t in tset {
			let mut idx = 0;
			ignored_collections(&full_hint, v, s, ctx.env, Some(&t.path), t.kind, &mut idx, &mut colls);
		}
		let mut ran = false;
		let mut reader_expect: Option<O> = None;
		// does the target leave the whole payload unread (so that only the skipping path and the
		// sentinel are exercised)?
		let whole_payload = tset.iter().any(|t| t.path.is_empty())
			|| (0..=ctx.u.n_payload).filter(|i| Some(*i) != ctx.u.emb.sentinel_idx(ctx.u.n_payload)).all(|i| tset.iter().any(|t| t.path.len() == 1 && t.path[0] == i && t.kind != Kind::Unit));
		for (pi, pname) in PATHS.iter().enumerate() {
			let base = match &baseline[pi] {
				Some(b) => b,
				None if whole_payload => {
					cover.count("judged_against_the_reference_only", 1);
					&model_obs
				}
				None => continue,
			};
			let mut h = full_hint.clone();
			let mut expect = Some(base.clone());
			for t in tset {
				expect = expect.and_then(|o| apply_obs(&h, &t.path, t.kind, &o));
				h = apply_hint(&h, &t.path, t.kind);
			}
			let Some(expect) = expect else {
				cover.count("target_shape_mismatch", 1);
				continue;
			};
			if &expect == base {
				// the target is not visited for this value (a union branch not taken)
				continue;
			}
			ran = true;
			if pi > 0 {
				reader_expect = Some(expect.clone());
			}
			cover.impl_runs += 1;
			let seen = execute(ctx.cs, &padded, &hint, pi);
			cover.outcomes.insert(hash64(&match &seen {
				Seen::Ok(o, n) => hash64(&(o, n)),
				Seen::Err(_) => 1,
				Seen::Panic(_) => 2,
			}));
			if ctx.verbose {
				println!("  target [{desc}], {pname}: crate -> {seen:?}\n      expected Ok({expect:?}) consuming {len} bytes");
			}
			let problem = compare(&seen, &expect, len);
			if let Some((class, text)) = problem {
				let again = execute(ctx.cs, &padded, &hint, pi);
				if again != seen {
					eprintln!("MACHINERY: C12 case is not deterministic: schema {} bytes [{}] target {desc} path {pname}", ctx.schema_text, hex(bytes));
					std::process::exit(2);
				}
				let mut r = replay_base.clone();
				r["targets"] = json!(tset.iter().map(|t| json!({"path": t.path, "kind": format!("{:?}", t.kind)})).collect::<Vec<_>>());
				out.push(Violation {
					class: class.to_owned(),
					what: format!("schema {} value {v:?} layout {layout} bytes [{}] ({}); target: {desc}; {pname}: {text}", ctx.schema_text, hex(bytes), pad_text),
					replay: r,
				});
			}
		}
		if ran {
			any_target = true;
			cover.count("ignoring_decodes_cases", 1);
			if tset.iter().any(|t| t.kind == Kind::Unit) {
				cover.count("unit_variant_targets", 1);
			}
			if tset.iter().any(|t| t.kind == Kind::Absent) {
				cover.count("absent_field_targets", 1);
			}
			if ctx.u.emb.ends_input() {
				cover.count("targets_ending_the_input", 1);
			}
			let mut sized = false;
			for &c in &colls {
				let bl = &rec[c];
				if bl.first().map_or(false, |b| b.sized) {
					cover.count("ignored_collection_first_block_sized", 1);
				}
				if bl.windows(2).any(|w| w[0].sized) {
					cover.count("ignored_collection_sized_block_followed_by_block", 1);
				}
				if bl.windows(2).any(|w| !w[0].sized && w[1].sized) {
					cover.count("ignored_collection_unsized_then_sized_block", 1);
				}
				sized |= bl.iter().any(|b| b.sized);
			}
			if sized {
				cover.count("targets_over_sized_blocks", 1);
			}
			// The skipping path jumps over a size-prefixed block with `skip_bytes`: on a reader that
			// jump may have to cross refills. Every intermediate uniform refill size that puts a refill
			// boundary strictly inside one of the skipped blocks is executed too.
			if let (true, Some(expect)) = (sized, &reader_expect) {
				let spans = spans.get_or_insert_with(|| {
					lay::trace_blocks(bytes, s, ctx.env).unwrap_or_else(|| {
						eprintln!("MACHINERY: C12 tracer cannot walk a valid encoding: schema {} bytes [{}]", ctx.schema_text, hex(bytes));
						std::process::exit(2)
					})
				});
				for &k in ctx.chunk_sizes {
					if k >= padded.len() {
						break;
					}
					let mut inside = false;
					let mut data_after = false;
					for &c in &colls {
						for b in spans[c].iter().filter(|b| b.sized) {
							// first refill boundary (multiple of k) strictly after the block's start
							let m = (b.start / k + 1) * k;
							if m < b.end {
								inside = true;
								// last boundary inside the block: does its chunk reach beyond the block?
								let last = (b.end - 1) / k * k;
								if last > b.start && last + k > b.end {
									data_after = true;
								}
							}
						}
					}
					if !inside {
						continue;
					}
					cover.impl_runs += 1;
					cover.count("reader_intermediate_chunk_runs", 1);
					if data_after {
						cover.count("skip_crossed_refill_with_data_after_in_chunk", 1);
					}
					let seen = execute_on(ctx.cs, &padded, &hint, Some(k));
					if ctx.verbose {
						println!("  target [{desc}], reader-{k}byte-chunks: crate -> {seen:?}\n      expected Ok({expect:?}) consuming {len} bytes");
					}
					if let Some((class, text)) = compare(&seen, expect, len) {
						let again = execute_on(ctx.cs, &padded, &hint, Some(k));
						if again != seen {
							eprintln!("MACHINERY: C12 case is not deterministic: schema {} bytes [{}] target {desc} reader chunks of {k}", ctx.schema_text, hex(bytes));
							std::process::exit(2);
						}
						let mut r = replay_base.clone();
						r["targets"] = json!(tset.iter().map(|t| json!({"path": t.path, "kind": format!("{:?}", t.kind)})).collect::<Vec<_>>());
						r["chunk"] = json!(k);
						out.push(Violation {
							class: class.to_owned(),
							what: format!("schema {} value {v:?} layout {layout} bytes [{}] ({}); target: {desc}; reader refilling in chunks of {k} bytes: {text}", ctx.schema_text, hex(bytes), pad_text),
							replay: r,
						});
					}
				}
			}
			if sized || colls.iter().any(|&c| rec[c].len() >= 2) {
				cover.nontrivial.insert(hash64(&(ctx.u.id, bytes, tset)));
			}
			if sized && cover.samples.is_empty() && bytes.len() > 8 {
				cover.sample(json!({"schema": ctx.schema_text, "value": format!("{v:?}"), "layout": layout, "bytes": hex(bytes), "target": desc}));
			}
		}
	}
	if !any_target && only.is_none() {
		cover.count("leaves_without_target", 1);
	}
}

// ---------------------------------------------------------------------------------------------
// Case builders, jobs

#[derive(Clone, Debug)]
pub struct Job {
	pub unit: usize,
	pub sweep: &'static str,
	pub n: usize,
	pub prefix: Vec<usize>,
}

fn payload_fields(u: &Unit) -> Vec<&RSchema> {
	match &u.schema {
		_ if u.emb.bare() => vec![&u.schema],
		RSchema::Record { fields, .. } if u.emb.sentinel_idx(u.n_payload) == Some(0) => fields[1..].iter().map(|(_, s)| s).collect(),
		RSchema::Record { fields, .. } => fields[..u.n_payload].iter().map(|(_, s)| s).collect(),
		_ => vec![],
	}
}

/// The wrapper value around the payload values.
fn assemble(u: &Unit, mut vals: Vec<RValue>) -> RValue {
	match u.emb.sentinel_idx(u.n_payload) {
		None => vals.pop().expect("bare embedding has one payload"),
		Some(0) => {
			vals.insert(0, RValue::Long(SENTINEL));
			RValue::Record(vals)
		}
		Some(_) => {
			vals.push(RValue::Long(SENTINEL));
			RValue::Record(vals)
		}
	}
}

fn build_a(u: &Unit, env: &Env, p: &Sweep, ch: &mut Chooser) -> (RValue, Vec<u8>, Vec<Vec<Block>>, usize) {
	let mut vals: Vec<RValue> = Vec::new();
	for f in payload_fields(u) {
		vals.push(match (u.emb, f) {
			(Emb::W1, _) => gen::gen_value(f, env, ch, true, p.value_items, p.w1_rec),
			(Emb::W3Array, RSchema::Array(item)) => {
				let n = ch.pick(p.value_items + 1);
				RValue::Array((0..n).map(|_| gen::gen_value(item, env, ch, false, p.other_items, p.other_rec)).collect())
			}
			(Emb::W3Map, RSchema::Map(item)) => {
				let n = ch.pick(p.value_items + 1);
				let keys = ["k", "", "clé2", "k3"];
				RValue::Map((0..n).map(|i| (keys[i % keys.len()].to_owned(), gen::gen_value(item, env, ch, false, p.other_items, p.other_rec))).collect())
			}
			_ => gen::gen_value(f, env, ch, false, p.other_items, p.other_rec),
		});
	}
	let v = assemble(u, vals);
	let nv = ch.trace.len();
	let (bytes, rec, _) = lay::encode_enumerated(&v, &u.schema, env, ch, p.a_layout_cap);
	(v, bytes, rec, nv)
}

fn wide(u: &Unit, env: &Env, p: &Sweep, n: usize) -> Option<RValue> {
	let mut ctr = 0;
	let mut vals: Vec<RValue> = Vec::new();
	for f in payload_fields(u) {
		vals.push(lay::wide_value(f, env, n, p.wide_inner, &mut ctr, 0, 2));
	}
	let v = assemble(u, vals);
	let mut sizes = Vec::new();
	lay::collection_sizes(&v, &mut sizes);
	if sizes.iter().all(|&s| s <= p.value_items.min(p.wide_inner)) {
		return None;
	}
	Some(v)
}

pub fn jobs(us: &[Unit], p: &Params) -> Vec<Job> {
	let per_unit: Vec<Vec<Job>> = us
		.par_iter()
		.map(|u| {
			let mut out = Vec::new();
			if u.n_payload == 0 {
				return out;
			}
			let env = Env::new(&u.schema);
			let p = p.sweep_for(u);
			for prefix in lay::split_prefixes(4, |ch| {
				build_a(u, &env, p, ch);
			}) {
				out.push(Job { unit: u.id, sweep: "A", n: 0, prefix });
			}
			if lay::has_collection(&u.schema, &env, 2) {
				for &n in &p.wide_ns {
					let Some(v) = wide(u, &env, p, n) else { continue };
					for prefix in lay::split_prefixes(2, |ch| {
						lay::encode_enumerated(&v, &u.schema, &env, ch, p.b_layout_cap);
					}) {
						out.push(Job { unit: u.id, sweep: "B", n, prefix });
					}
				}
			}
			out
		})
		.collect();
	per_unit.into_iter().flatten().collect()
}

fn run_job(u: &Unit, job: &Job, params: &Params) -> (Cover, Vec<Violation>) {
	let p = params.sweep_for(u);
	let max_leaves = params.max_leaves;
	let mut cover = Cover::default();
	let mut out = Vec::new();
	let env = Env::new(&u.schema);
	let schema_text = display_text(u);
	let cs = match unit_crate_schema(u) {
		Ok(s) => s,
		Err(_) if u.text.is_some() => {
			// a payload with an inapplicable logical type that the crate refuses: schema parsing is C07's subject
			if job.sweep == "A" && job.prefix.iter().all(|k| *k == 0) {
				cover.count("ignored_logical_units_rejected_by_the_crate", 1);
			}
			return (cover, out);
		}
		Err(e) => {
			// the wrapper is the harness's construction: a rejected wrapper is not a C12 verdict
			eprintln!("MACHINERY: C12 wrapper schema rejected by the crate: {e}");
			std::process::exit(2);
		}
	};
	if let Some((label, _)) = &u.text {
		if lay::ignored_logical_no_verdict(label) {
			// no-verdict zone (DESIGN.md §7): recorded in the evidence table, not judged
			if job.sweep == "A" && job.prefix.iter().all(|k| *k == 0) {
				cover.count("ignored_logical_units_not_judged(decimal with invalid parameters)", 1);
			}
			return (cover, out);
		}
	}
	if u.text.is_some() && job.sweep == "A" && job.prefix.iter().all(|k| *k == 0) {
		cover.count("ignored_logical_units", 1);
	}
	let ctx = Ctx { chunk_sizes: &params.chunk_sizes, u, cs: &cs, env: &env, schema_text: schema_text.clone(), verbose: false };
	let base = |choices: Vec<usize>| json!({"check": "C12", "unit": u.id, "embedding": u.emb.name(), "schema": schema_text, "level_w1": params.level_w1, "level_other": params.level_other, "sweep_params": p.to_json(), "chunk_sizes": params.chunk_sizes, "sweep": job.sweep, "n": job.n, "choices": choices});
	let what = format!("unit {} ({}) sweep {} n={} below picks {:?}", u.id, u.emb.name(), job.sweep, job.n, job.prefix);
	let mut seen: HashSet<Vec<u8>> = HashSet::new();
	if job.sweep == "A" {
		let mut cur_value: Vec<usize> = Vec::new();
		let st = lay::explore_below(&job.prefix, max_leaves, |ch| {
			let (v, bytes, rec, nv) = build_a(u, &env, p, ch);
			let choices = ch.choices();
			if choices[..nv] != cur_value[..] {
				cur_value = choices[..nv].to_vec();
				seen.clear();
			}
			if !seen.insert(bytes.clone()) {
				cover.count("duplicate_layout_leaves_skipped", 1);
				return true;
			}
			run_leaf(&ctx, &v, &bytes, &rec, &base(choices), None, &mut cover, &mut out);
			out.len() < 100 || u.text.is_some()
		});
		cover.add_tree(&st, &what);
	} else {
		let v = wide(u, &env, p, job.n).expect("job exists only for wide values");
		let st = lay::explore_below(&job.prefix, max_leaves, |ch| {
			let (bytes, rec, _) = lay::encode_enumerated(&v, &u.schema, &env, ch, p.b_layout_cap);
			if !seen.insert(bytes.clone()) {
				cover.count("duplicate_layout_leaves_skipped", 1);
				return true;
			}
			cover.count("wide_leaves", 1);
			run_leaf(&ctx, &v, &bytes, &rec, &base(ch.choices()), None, &mut cover, &mut out);
			out.len() < 100 || u.text.is_some()
		});
		cover.add_tree(&st, &what);
	}
	(cover, out)
}

pub fn run(rep: &mut Report) {
	let p = if rep.thorough() { Params::thorough() } else { Params::quick() }.with_env_override();
	let us = units(&p);
	rep.rule = format!(
		"SAE. Every schema S of Σ_S is embedded as W1 record{{ignored: S, sentinel: long}} (Σ_S level {}), and (Σ_S level {}) W2 record{{a: S, b: S renamed, sentinel}}, W3 record{{arr: array<S>, sentinel}} and record{{m: map<S>, sentinel}}, W4 record{{u: [S, long], sentinel}} (S not itself a union; [long, boolean] for S = long); and with the ignored part LAST and no padding, so that the skip ends exactly at the end of the input: L0 the bare datum S, L1 record{{sentinel: long, ignored: S}}, L4 record{{sentinel: long, u: [long, S]}} (targets one level below the field / the root; all other embeddings are followed by two padding bytes). Private extra units: payloads X whose logical type the specification says to ignore (the list of `lay::ignored_logical_texts`: duration on fixed of size 0/4/11/13/16 and on bytes, invalid decimals, logical types on a wrong underlying type, an unknown logical type on every kind of type), embedded as W1 record{{ignored: X, sentinel}}, W3 record{{arr: array<X>, sentinel}} and L1 record{{sentinel, ignored: X}}; the crate is given the text, the reference reads X as its underlying type (texts the crate refuses are left to C07). Sweep A: every value of Σ_V × block layouts (all compositions of an occurrence into blocks × all sign assignments, negative count + byte size; occurrences enumerated jointly while the product of their layout counts <= the cap, one plan per start occurrence); sweep B: deterministic wide values × block layouts under a product cap. Bounds for wrappers with < 3 nested arrays/maps: {}. Bounds for wrappers with >= 3 nested arrays/maps: {}. Sentinel = {SENTINEL}. Each leaf is decoded with the full Hinted hint tree (non-ignoring) and once per ignoring target: every payload field absent from the target struct (W2: a, b, a+b), the whole datum → IgnoredAny, every sub-tree of the payload's hint tree → IgnoredAny (W1: all depths, incl. every element / every map key / every map value / union payloads; W3, W4: one level below the field), every taken non-null union branch as a unit variant; from slice, whole-buffer reader and 1-byte-chunk reader, and — for targets that skip a negative-count (size-prefixed) block — from readers refilling in uniform chunks of every size in {:?} that puts a refill boundary strictly inside a skipped block. Oracle: the ignoring decode is Ok, its observation equals the non-ignoring observation with the ignored part blanked (so the sentinel and every other field are identical), and it consumes exactly the encoded length according to the reference model (= what the non-ignoring decode consumes). Targets that the value does not reach (branch not taken) are not executed. Non-trivial: (schema, bytes, target) where an array/map handed directly to the skipping path is laid out in >= 2 blocks or has a negative-count block; distinct on that triple. Leaf cap {} per job (wrapper × sweep × pick prefix).",
		p.level_w1,
		p.level_other,
		p.normal.text(),
		p.deep.text(),
		p.chunk_sizes,
		p.max_leaves
	);
	rep.assumptions.push("reference encoder/decoder (vmodel) implements the Avro 1.11 binary encoding; the encoded length is the reference's".into());
	rep.assumptions.push("where the non-ignoring decode itself fails or mis-reads the sentinel (C03's subject) only the targets that leave the whole payload unread are judged, against the reference model's observation and length (counters baseline_decode_unusable, judged_against_the_reference_only)".into());
	rep.assumptions.push("runs in-process under catch_unwind: all inputs are valid encodings".into());
	let debug = std::env::var("VERIF_DEBUG").is_ok();
	let js = jobs(&us, &p);
	let results: Vec<(Cover, Vec<Violation>)> = js
		.par_iter()
		.map(|j| {
			let t = std::time::Instant::now();
			let r = run_job(&us[j.unit], j, &p);
			if debug {
				eprintln!("job {:.2}s evals {} runs {} {j:?} {}", t.elapsed().as_secs_f64(), r.0.evaluations, r.0.impl_runs, gen::schema_text(&us[j.unit].schema));
			}
			r
		})
		.collect();
	rep.extra.insert("wrapper_schemas".into(), json!(us.iter().filter(|u| u.n_payload > 0).count()));
	rep.extra.insert("jobs".into(), json!(js.len()));
	let mut samples: Vec<serde_json::Value> = Vec::new();
	for (mut c, v) in results {
		samples.append(&mut c.samples);
		rep.cover.merge(c);
		rep.violations.extend(v);
	}
	// a spread of the recorded samples (they are in job order, i.e. by schema)
	let step = (samples.len() / 8).max(1);
	for s in samples.into_iter().step_by(step).take(8) {
		rep.cover.sample(s);
	}
	skip_ladders(rep);
	let c = &rep.cover.counters;
	let need = [
		"leaves_with_baseline",
		"ignoring_decodes_cases",
		"unit_variant_targets",
		"absent_field_targets",
		"targets_over_sized_blocks",
		"ignored_collection_first_block_sized",
		"ignored_collection_sized_block_followed_by_block",
		"ignored_collection_unsized_then_sized_block",
		"reader_intermediate_chunk_runs",
		"skip_crossed_refill_with_data_after_in_chunk",
		"wide_leaves",
		"leaves_ending_the_input",
		"targets_ending_the_input",
		"ignored_logical_units",
	];
	for k in need {
		if c.get(k).copied().unwrap_or(0) == 0 {
			eprintln!("MACHINERY: C12 vacuity guard: counter `{k}` is 0 — a behaviour the check relies on was never exercised");
			std::process::exit(2);
		}
	}
	let unusable = c.get("baseline_decode_unusable").copied().unwrap_or(0);
	let usable = c.get("leaves_with_baseline").copied().unwrap_or(0);
	if unusable > usable {
		eprintln!("MACHINERY: C12: the non-ignoring decode was unusable in {unusable} runs against {usable} usable leaves — nothing to compare with (see C03)");
		std::process::exit(2);
	}
}

pub fn replay(v: &serde_json::Value) -> i32 {
	let r = &v["replay"];
	if r["skip_ladder"].is_string() {
		let mut rep = Report::new("C12", "quick");
		skip_ladders(&mut rep);
		let k = r["k"].as_u64().unwrap_or(0);
		let kind = r["skip_ladder"].as_str().unwrap_or("");
		let hits: Vec<&Violation> = rep.violations.iter().filter(|v| v.replay["k"].as_u64() == Some(k) && v.replay["skip_ladder"].as_str() == Some(kind)).collect();
		for v in &hits {
			println!("  [{}] {}", v.class, v.what);
		}
		return if hits.is_empty() { 0 } else { 1 };
	}
	let unit = r["unit"].as_u64().unwrap_or(u64::MAX) as usize;
	let params = Params::from_replay(r);
	let us = units(&params);
	let p = &params.normal;
	let Some(u) = us.get(unit) else {
		eprintln!("unit {unit} not found");
		return 2;
	};
	let schema_text = display_text(u);
	if Some(schema_text.as_str()) != r["schema"].as_str() || Emb::parse(r["embedding"].as_str().unwrap_or("")) != Some(u.emb) {
		eprintln!("unit {unit} is now {} {schema_text}, the replay file was recorded for {} {}", u.emb.name(), r["embedding"], r["schema"]);
		return 2;
	}
	let env = Env::new(&u.schema);
	let cs = match unit_crate_schema(u) {
		Ok(cs) => cs,
		Err(e) => {
			eprintln!("{e}");
			return 2;
		}
	};
	let ctx = Ctx { chunk_sizes: &params.chunk_sizes, u, cs: &cs, env: &env, schema_text: schema_text.clone(), verbose: true };
	let choices: Vec<usize> = r["choices"].as_array().map(|a| a.iter().map(|c| c.as_u64().unwrap() as usize).collect()).unwrap_or_default();
	let mut ch = Chooser::replay(choices);
	let only: Option<Vec<Target>> = r["targets"].as_array().map(|a| {
		a.iter()
			.map(|t| Target {
				path: t["path"].as_array().unwrap().iter().map(|x| x.as_u64().unwrap() as usize).collect(),
				kind: match t["kind"].as_str().unwrap_or("") {
					"Absent" => Kind::Absent,
					"Unit" => Kind::Unit,
					_ => Kind::Ignore,
				},
			})
			.collect()
	});
	let mut cover = Cover::default();
	let mut out = Vec::new();
	println!("replaying C12 unit {unit} ({}) schema {schema_text} sweep {}", u.emb.name(), r["sweep"]);
	let (val, bytes, rec) = if r["sweep"].as_str() == Some("B") {
		let n = r["n"].as_u64().unwrap() as usize;
		let Some(val) = wide(u, &env, p, n) else {
			eprintln!("no wide value for n={n}");
			return 2;
		};
		let (bytes, rec, _) = lay::encode_enumerated(&val, &u.schema, &env, &mut ch, p.b_layout_cap);
		(val, bytes, rec)
	} else {
		let (val, bytes, rec, _) = build_a(u, &env, p, &mut ch);
		(val, bytes, rec)
	};
	println!("  value {val:?}\n  layout {} bytes [{}]", lay::layout_text(&rec), hex(&bytes));
	run_leaf(&ctx, &val, &bytes, &rec, &json!({}), only.as_ref(), &mut cover, &mut out);
	for v in &out {
		println!("  STILL FAILING [{}] {}", v.class, v.what);
	}
	if out.is_empty() {
		println!("  no violation on replay");
		0
	} else {
		1
	}
}


/// Skipping under the depth limit: a datum nested k containers deep (arrays / maps / records / a
/// recursive record through an array, k = 1..48) followed by a sentinel; wherever READING the datum
/// succeeds under `allowed_depth` = default, k+1 (record wrapper included), k+2, skipping it (field
/// absent from the target, or the whole datum as IgnoredAny) must succeed too and consume the same
/// bytes; and where reading fails for depth, skipping must not succeed with other bytes consumed.
pub fn skip_ladders(rep: &mut Report) {
	use serde::de::IgnoredAny;
	#[derive(serde::Deserialize, Debug)]
	#[allow(dead_code)]
	struct OnlySentinel {
		sentinel: i64,
	}
	fn zz(v: i64, o: &mut Vec<u8>) {
		let mut z = ((v << 1) ^ (v >> 63)) as u64;
		loop {
			let b = (z & 0x7f) as u8;
			z >>= 7;
			if z == 0 {
				o.push(b);
				return;
			}
			o.push(b | 0x80);
		}
	}
	let mut out: Vec<Violation> = Vec::new();
	let mut rungs = 0u64;
	for kind in ["array", "map", "record", "recursive"] {
		for k in 1usize..=48 {
			if kind == "record" && k > 30 {
				continue;
			}
			// schema text of the payload and its encoding, nested k containers deep around the int -65
			let mut schema = "\"int\"".to_owned();
			let mut bytes: Vec<u8> = vec![0x81, 0x01];
			match kind {
				"array" => {
					for _ in 0..k {
						schema = format!("{{\"type\":\"array\",\"items\":{schema}}}");
						let mut b = vec![0x02];
						b.extend(&bytes);
						b.push(0x00);
						bytes = b;
					}
				}
				"map" => {
					for _ in 0..k {
						schema = format!("{{\"type\":\"map\",\"values\":{schema}}}");
						let mut b = vec![0x02, 0x02, b'k'];
						b.extend(&bytes);
						b.push(0x00);
						bytes = b;
					}
				}
				"record" => {
					for level in 0..k {
						schema = format!("{{\"type\":\"record\",\"name\":\"SL{level}\",\"fields\":[{{\"name\":\"f\",\"type\":{schema}}}]}}");
					}
				}
				_ => {
					// record Node { children: array<Node> }: a chain of k generations (the last one childless)
					schema = "{\"type\":\"record\",\"name\":\"SNode\",\"fields\":[{\"name\":\"children\",\"type\":{\"type\":\"array\",\"items\":\"SNode\"}}]}".to_owned();
					bytes = vec![0x00];
					for _ in 1..k {
						let mut b = vec![0x02];
						b.extend(&bytes);
						b.push(0x00);
						bytes = b;
					}
				}
			}
			let text = format!("{{\"type\":\"record\",\"name\":\"verif.SkipLadder\",\"fields\":[{{\"name\":\"ignored\",\"type\":{schema}}},{{\"name\":\"sentinel\",\"type\":\"long\"}}]}}");
			let cs: serde_avro_fast::Schema = match text.parse() {
				Ok(s) => s,
				Err(e) => {
					eprintln!("MACHINERY: C12 skip ladder schema rejected: {e}");
					std::process::exit(2);
				}
			};
			zz(1234, &mut bytes);
			let total = bytes.len();
			bytes.extend_from_slice(&[0x2a, 0x2a]);
			rungs += 1;
			for limit in [None, Some(k + 1), Some(k + 2), Some(2 * k + 2)] {
				let limits = Limits { allowed_depth: limit, max_seq_size: None, max_alloc_size: None };
				// baseline: read everything (observation visitor)
				rep.cover.impl_runs += 3;
				rep.cover.evaluations += 1;
				let read = subj::de_slice(&cs, &bytes, &crate::obs::Hint::Any, &limits);
				let read_ok = matches!(&read, Out::Ok((_, n)) if *n == total);
				let skip_field = subj::guarded(|| subj::de_slice_typed::<OnlySentinel>(&cs, &bytes, &limits));
				let skip_all = subj::guarded(|| subj::de_slice_typed::<IgnoredAny>(&cs, &bytes, &limits));
				let what_limit = limit.map_or("default allowed_depth".to_owned(), |l| format!("allowed_depth = {l}"));
				let mut viol = |class: &str, what: String| {
					out.push(Violation { class: class.to_owned(), what: format!("skip ladder: {k} nested {kind} levels followed by a sentinel, {what_limit}: {what}"), replay: json!({"check": "C12", "skip_ladder": kind, "k": k}) });
				};
				for (name, r) in [("field absent from the target", skip_field.map(|(v, n)| (format!("{v:?}"), n))), ("whole datum as IgnoredAny", skip_all.map(|(_, n)| ("IgnoredAny".to_owned(), n)))] {
					match (&r, read_ok) {
						(Out::Ok((v, n)), true) => {
							if *n != total || (name.starts_with("field") && !v.contains("1234")) {
								viol("skip-consumed", format!("{name}: reading consumes {total} bytes, skipping returned {v} consuming {n}"));
							}
						}
						(Out::Err(e), true) => viol("skip-err", format!("{name}: reading succeeds, skipping fails: {e}")),
						(Out::Ok((v, n)), false) if *n != total => viol("skip-consumed", format!("{name}: reading fails, skipping returned {v} consuming {n} of {total}")),
						(Out::Panic(e), _) => viol("skip-panic", format!("{name}: panicked: {e}")),
						_ => {}
					}
				}
				if read_ok {
					rep.cover.nontrivial.insert(hash64(&("skip-ladder", kind, k, limit)));
				}
			}
		}
	}
	rep.cover.count("skip_ladder_rungs", rungs);
	rep.violations.extend(out);
}
