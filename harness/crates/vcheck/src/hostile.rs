//! Shared by C04 and C11: the small hostile byte alphabet, a call-pattern probe around any
//! `BufRead`, decode drivers generic over the input path and the target, and the explicit-state
//! search over the decoder's input-consumption tree.

use crate::envs::{measure_allocs, AllocStats, ChunkedBufRead};
use crate::obs::{Hint, ObsSeed, O};
use crate::subj::{guarded, Limits, Out};
use serde::de::{DeserializeSeed, Deserializer, MapAccess, SeqAccess, Visitor};
use serde_avro_fast::de::read::{ReadSlice, ReaderRead, SliceRead};
use serde_avro_fast::de::{DeError, DeserializerConfig, DeserializerState};
use serde_avro_fast::Schema;
use std::io::{self, BufRead, Read};
use std::sync::OnceLock;

/// Σ_B of DESIGN §4 C04.
pub const SIGMA_B: [u8; 10] = [0x00, 0x01, 0x02, 0x03, 0x04, 0x7f, 0x80, 0x81, 0xfe, 0xff];
/// The alphabet below a fixed-size read (the bytes cannot influence the decoder's control flow,
/// apart from UTF-8 validity and a sign bit: one valid-ASCII byte and one invalid/negative byte).
pub const NARROW_B: [u8; 2] = [0x00, 0xff];

// ---------------------------------------------------------------------------------------------
// Probe

#[derive(Clone, Copy, Debug, PartialEq)]
enum Last {
	Nothing,
	Fill { len: usize, all_msb: bool },
	Read { wanted: usize, got: usize },
	Consume,
}

/// Wraps a `BufRead`, counts the calls made into it and recognises the two fallback paths of
/// `ReaderRead` from the call pattern alone (no hook in the subject):
/// * byte-wise varint fallback = `fill_buf` that returned a non-empty buffer in which every byte has
///   its MSB set, followed by a 1-byte `read` with no other `read` in between;
/// * scratch-buffer copy = `fill_buf` immediately followed by a `read` of n >= 2 bytes with n larger
///   than the buffer that `fill_buf` had returned.
pub struct Probe<R> {
	pub inner: R,
	pub fill_calls: u64,
	pub read_calls: u64,
	pub consumed: usize,
	/// the decoder saw the end of the input (empty `fill_buf` or a `read` returning 0)
	pub eof_seen: bool,
	/// length asked by the first `read` of the `read_exact`-style chain that hit the end of input
	/// (0 if the end was only seen through `fill_buf`)
	pub eof_chain: usize,
	pub varint_fallbacks: u64,
	pub scratch_copies: u64,
	last: Last,
	chain_len: usize,
	/// the most recent `fill_buf` returned only continuation bytes and no `read` happened since
	msb_fill_pending: bool,
}

impl<R> Probe<R> {
	pub fn new(inner: R) -> Self {
		Probe { inner, fill_calls: 0, read_calls: 0, consumed: 0, eof_seen: false, eof_chain: 0, varint_fallbacks: 0, scratch_copies: 0, last: Last::Nothing, chain_len: 0, msb_fill_pending: false }
	}
	pub fn calls(&self) -> u64 {
		self.fill_calls + self.read_calls
	}
}

impl<R: BufRead> BufRead for Probe<R> {
	fn fill_buf(&mut self) -> io::Result<&[u8]> {
		self.fill_calls += 1;
		let b = self.inner.fill_buf()?;
		if b.is_empty() {
			self.eof_seen = true;
			self.eof_chain = 0;
		}
		let all_msb = !b.is_empty() && b.iter().all(|x| x & 0x80 != 0);
		self.msb_fill_pending = all_msb;
		self.last = Last::Fill { len: b.len(), all_msb };
		Ok(b)
	}
	fn consume(&mut self, amt: usize) {
		self.consumed += amt;
		self.last = Last::Consume;
		self.inner.consume(amt)
	}
}

impl<R: BufRead> Read for Probe<R> {
	fn read(&mut self, buf: &mut [u8]) -> io::Result<usize> {
		if buf.is_empty() {
			return Ok(0);
		}
		self.read_calls += 1;
		match self.last {
			Last::Read { wanted, got } if got < wanted && buf.len() == wanted - got => {}
			Last::Fill { len, all_msb } => {
				self.chain_len = buf.len();
				if buf.len() == 1 && all_msb {
					self.varint_fallbacks += 1;
				} else if buf.len() >= 2 && buf.len() > len {
					self.scratch_copies += 1;
				}
			}
			_ => {
				self.chain_len = buf.len();
				// (a variant of the subject that consumes before falling back is still recognised)
				if buf.len() == 1 && self.msb_fill_pending {
					self.varint_fallbacks += 1;
				}
			}
		}
		self.msb_fill_pending = false;
		let n = self.inner.read(buf)?;
		if n == 0 {
			self.eof_seen = true;
			self.eof_chain = self.chain_len;
		}
		self.consumed += n;
		self.last = Last::Read { wanted: buf.len(), got: n };
		Ok(n)
	}
}

// ---------------------------------------------------------------------------------------------
// Targets

/// A target that visits everything through `deserialize_any`, folds what it sees into a hash and
/// never allocates.
pub struct Fold;

#[derive(Clone, Copy, Debug, PartialEq, Eq, Hash)]
pub struct Folded {
	pub hash: u64,
	/// number of values visited (leaves and composites)
	pub elems: u64,
}

fn mix(h: u64, x: u64) -> u64 {
	(h ^ x).wrapping_mul(0x100000001b3).rotate_left(17) ^ 0x9e3779b97f4a7c15
}
fn mix_bytes(tag: u64, b: &[u8]) -> u64 {
	let mut h = mix(0xcbf29ce484222325, tag);
	h = mix(h, b.len() as u64);
	for &x in b {
		h = mix(h, x as u64);
	}
	h
}
fn leaf(tag: u64, x: u64) -> Folded {
	Folded { hash: mix(mix(0xcbf29ce484222325, tag), x), elems: 1 }
}

impl<'de> DeserializeSeed<'de> for Fold {
	type Value = Folded;
	fn deserialize<D: Deserializer<'de>>(self, d: D) -> Result<Folded, D::Error> {
		d.deserialize_any(Fold)
	}
}

impl<'de> Visitor<'de> for Fold {
	type Value = Folded;
	fn expecting(&self, f: &mut std::fmt::Formatter) -> std::fmt::Result {
		f.write_str("anything")
	}
	fn visit_bool<E>(self, v: bool) -> Result<Folded, E> {
		Ok(leaf(1, v as u64))
	}
	fn visit_i64<E>(self, v: i64) -> Result<Folded, E> {
		Ok(leaf(2, v as u64))
	}
	fn visit_i32<E>(self, v: i32) -> Result<Folded, E> {
		Ok(leaf(3, v as u64))
	}
	fn visit_i128<E>(self, v: i128) -> Result<Folded, E> {
		Ok(leaf(4, (v as u64) ^ ((v >> 64) as u64)))
	}
	fn visit_u64<E>(self, v: u64) -> Result<Folded, E> {
		Ok(leaf(5, v))
	}
	fn visit_u32<E>(self, v: u32) -> Result<Folded, E> {
		Ok(leaf(6, v as u64))
	}
	fn visit_u128<E>(self, v: u128) -> Result<Folded, E> {
		Ok(leaf(7, (v as u64) ^ ((v >> 64) as u64)))
	}
	fn visit_f32<E>(self, v: f32) -> Result<Folded, E> {
		Ok(leaf(8, v.to_bits() as u64))
	}
	fn visit_f64<E>(self, v: f64) -> Result<Folded, E> {
		Ok(leaf(9, v.to_bits()))
	}
	fn visit_str<E>(self, v: &str) -> Result<Folded, E> {
		Ok(Folded { hash: mix_bytes(10, v.as_bytes()), elems: 1 })
	}
	fn visit_bytes<E>(self, v: &[u8]) -> Result<Folded, E> {
		Ok(Folded { hash: mix_bytes(11, v), elems: 1 })
	}
	fn visit_unit<E>(self) -> Result<Folded, E> {
		Ok(leaf(12, 0))
	}
	fn visit_none<E>(self) -> Result<Folded, E> {
		Ok(leaf(13, 0))
	}
	fn visit_some<D: Deserializer<'de>>(self, d: D) -> Result<Folded, D::Error> {
		let f = Fold.deserialize(d)?;
		Ok(Folded { hash: mix(f.hash, 14), elems: f.elems + 1 })
	}
	fn visit_newtype_struct<D: Deserializer<'de>>(self, d: D) -> Result<Folded, D::Error> {
		let f = Fold.deserialize(d)?;
		Ok(Folded { hash: mix(f.hash, 15), elems: f.elems + 1 })
	}
	fn visit_seq<A: SeqAccess<'de>>(self, mut a: A) -> Result<Folded, A::Error> {
		let mut h = mix(0xcbf29ce484222325, 16);
		let mut n = 1u64;
		while let Some(e) = a.next_element_seed(Fold)? {
			h = mix(h, e.hash);
			n += e.elems;
		}
		Ok(Folded { hash: h, elems: n })
	}
	fn visit_map<A: MapAccess<'de>>(self, mut a: A) -> Result<Folded, A::Error> {
		let mut h = mix(0xcbf29ce484222325, 17);
		let mut n = 1u64;
		while let Some(k) = a.next_key_seed(Fold)? {
			let v = a.next_value_seed(Fold)?;
			h = mix(mix(h, k.hash), v.hash);
			n += k.elems + v.elems;
		}
		Ok(Folded { hash: h, elems: n })
	}
}

/// What a decode delivered.
#[derive(Clone, Debug, PartialEq, Eq, Hash)]
pub enum Val {
	O(O),
	F(Folded),
	/// hash of the `Debug` rendering of a typed Rust target
	T(u64),
}

impl Val {
	pub fn unborrowed(&self) -> Val {
		match self {
			Val::O(o) => Val::O(o.unborrowed()),
			v => v.clone(),
		}
	}
}

/// A target: how the datum is asked for. `Typed` is provided by the check (function pointers, one
/// per input path, because borrowed and owned targets are different Rust types).
#[derive(Clone)]
pub enum Target {
	Obs(Hint),
	Fold,
	Typed(&'static TypedTarget),
}

pub struct TypedTarget {
	pub name: &'static str,
	/// the slice flavour may borrow from the input
	pub slice: for<'a, 'b, 'c> fn(&'a mut DeserializerState<'b, SliceRead<'c>>) -> Result<u64, DeError>,
	pub chunked: for<'a, 'b, 'c> fn(&'a mut DeserializerState<'b, ReaderRead<Probe<ChunkedBufRead<'c>>>>) -> Result<u64, DeError>,
	/// the target itself performs no heap allocation when the input is a slice
	pub non_allocating_on_slice: bool,
}

impl Target {
	pub fn name(&self) -> String {
		match self {
			Target::Obs(Hint::Any) => "any".into(),
			Target::Obs(Hint::Ignored) => "ignored".into(),
			Target::Obs(_) => "hinted".into(),
			Target::Fold => "fold".into(),
			Target::Typed(t) => format!("typed:{}", t.name),
		}
	}
	/// the target allocates nothing by itself when reading from a slice
	pub fn non_allocating(&self) -> bool {
		match self {
			Target::Obs(Hint::Ignored) | Target::Fold => true,
			Target::Obs(_) => false,
			Target::Typed(t) => t.non_allocating_on_slice,
		}
	}
}

pub fn apply_limits(l: &Limits, c: &mut DeserializerConfig) {
	if let Some(d) = l.allowed_depth {
		c.allowed_depth = d;
	}
	if let Some(m) = l.max_seq_size {
		c.max_seq_size = m;
	}
}

fn run_seedlike<'de, R: ReadSlice<'de>>(state: &mut DeserializerState<'_, R>, t: &Target) -> Option<Result<Val, DeError>> {
	match t {
		Target::Obs(h) => Some(ObsSeed(h).deserialize(state.deserializer()).map(Val::O)),
		Target::Fold => Some(Fold.deserialize(state.deserializer()).map(Val::F)),
		Target::Typed(_) => None,
	}
}

pub fn sentinel_schema() -> &'static Schema {
	static S: OnceLock<Schema> = OnceLock::new();
	S.get_or_init(|| "\"long\"".parse().unwrap())
}
/// The sentinel datum that follows the datum under test: long 300 = `d8 04` (two bytes, so that a
/// refill boundary can also fall inside the sentinel).
pub const SENTINEL: [u8; 2] = [0xd8, 0x04];
pub const SENTINEL_VALUE: i64 = 300;

pub struct SliceRun {
	pub out: Out<Val>,
	/// bytes consumed (only meaningful on `Ok`)
	pub consumed: usize,
	pub allocs: AllocStats,
	/// result of decoding a `long` from what follows (only attempted after `Ok`)
	pub sentinel: Option<Out<i64>>,
}

/// Decode from a slice. The allocation counters cover exactly the call into the subject.
pub fn de_slice(schema: &Schema, bytes: &[u8], t: &Target, limits: &Limits, with_sentinel: bool) -> SliceRun {
	let mut consumed = 0;
	let mut allocs = AllocStats::default();
	let mut sentinel = None;
	let out = guarded(|| {
		crate::obs::set_input_range(bytes);
		let mut config = DeserializerConfig::new(schema);
		apply_limits(limits, &mut config);
		let mut state = DeserializerState::with_config(SliceRead::new(bytes), config);
		let (r, a) = measure_allocs(|| match t {
			Target::Typed(tt) => (tt.slice)(&mut state).map(Val::T),
			other => run_seedlike(&mut state, other).unwrap(),
		});
		allocs = a;
		crate::obs::clear_input_range();
		let mut rest = state.into_reader();
		let left = rest.fill_buf().map(|b| b.len()).unwrap_or(0);
		consumed = bytes.len() - left;
		if r.is_ok() && with_sentinel {
			let mut st2 = DeserializerState::with_config(rest, DeserializerConfig::new(sentinel_schema()));
			let s: Result<i64, DeError> = serde::Deserialize::deserialize(st2.deserializer());
			sentinel = Some(match s {
				Ok(v) => Out::Ok(v),
				Err(e) => Out::Err(e.to_string()),
			});
		}
		r.map_err(|e| e.to_string())
	});
	SliceRun { out, consumed, allocs, sentinel }
}

pub struct ReadRun {
	pub out: Out<Val>,
	pub consumed: usize,
	pub allocs: AllocStats,
	pub sentinel: Option<Out<i64>>,
	pub calls: u64,
	pub eof_seen: bool,
	pub eof_chain: usize,
	pub varint_fallbacks: u64,
	pub scratch_copies: u64,
}

impl ReadRun {
	fn blank() -> ReadRun {
		ReadRun { out: Out::Err(String::new()), consumed: 0, allocs: AllocStats::default(), sentinel: None, calls: 0, eof_seen: false, eof_chain: 0, varint_fallbacks: 0, scratch_copies: 0 }
	}
	fn take_probe<R>(&mut self, p: &Probe<R>) {
		self.consumed = p.consumed;
		self.calls = p.calls();
		self.eof_seen = p.eof_seen;
		self.eof_chain = p.eof_chain;
		self.varint_fallbacks = p.varint_fallbacks;
		self.scratch_copies = p.scratch_copies;
	}
}

/// Decode through `ReaderRead` over any `BufRead` (seed-like targets only).
pub fn de_bufread<R: BufRead>(schema: &Schema, reader: R, t: &Target, limits: &Limits, with_sentinel: bool) -> ReadRun {
	let mut run = ReadRun::blank();
	let out = guarded(|| {
		let mut config = DeserializerConfig::new(schema);
		apply_limits(limits, &mut config);
		let mut rr = ReaderRead::new(Probe::new(reader));
		if let Some(m) = limits.max_alloc_size {
			rr.max_alloc_size = m;
		}
		let mut state = DeserializerState::with_config(rr, config);
		let (r, a) = measure_allocs(|| run_seedlike(&mut state, t).expect("typed targets go through de_chunked"));
		run.allocs = a;
		// the subject hands the reader back; the datum's own consumption is read off the probe
		// before the sentinel is decoded from the very same reader
		let p = state.into_reader().into_inner();
		run.take_probe(&p);
		if r.is_ok() && with_sentinel {
			let mut st2 = DeserializerState::with_config(ReaderRead::new(p), DeserializerConfig::new(sentinel_schema()));
			let s: Result<i64, DeError> = serde::Deserialize::deserialize(st2.deserializer());
			run.sentinel = Some(match s {
				Ok(v) => Out::Ok(v),
				Err(e) => Out::Err(e.to_string()),
			});
		}
		r.map_err(|e| e.to_string())
	});
	run.out = out;
	run
}

/// Decode through `ReaderRead` over a `ChunkedBufRead` (all targets, typed ones included).
pub fn de_chunked(schema: &Schema, reader: ChunkedBufRead<'_>, t: &Target, limits: &Limits, with_sentinel: bool) -> ReadRun {
	match t {
		Target::Typed(tt) => {
			let mut run = ReadRun::blank();
			let out = guarded(|| {
				let mut config = DeserializerConfig::new(schema);
				apply_limits(limits, &mut config);
				let mut rr = ReaderRead::new(Probe::new(reader));
				if let Some(m) = limits.max_alloc_size {
					rr.max_alloc_size = m;
				}
				let mut state = DeserializerState::with_config(rr, config);
				let (r, a) = measure_allocs(|| (tt.chunked)(&mut state).map(Val::T));
				run.allocs = a;
				let p = state.into_reader().into_inner();
				run.take_probe(&p);
				r.map_err(|e| e.to_string())
			});
			run.out = out;
			run
		}
		_ => de_bufread(schema, reader, t, limits, with_sentinel),
	}
}

// ---------------------------------------------------------------------------------------------
// Consumption tree

#[derive(Clone, Copy, Debug, PartialEq, Eq)]
pub enum Expand {
	/// decoding this prefix did not end because the input ran out: every extension behaves the same
	No,
	/// hungry: expand by every byte of the alphabet
	Full,
	/// hungry inside a fixed-size read: expand by the narrow alphabet
	Narrow,
}

impl Expand {
	pub fn or(self, o: Expand) -> Expand {
		match (self, o) {
			(Expand::Full, _) | (_, Expand::Full) => Expand::Full,
			(Expand::Narrow, _) | (_, Expand::Narrow) => Expand::Narrow,
			_ => Expand::No,
		}
	}
	/// from a run over a 1-byte-chunk reader
	pub fn of(run: &ReadRun) -> Expand {
		Expand::from_parts(run.out.is_ok(), run.eof_seen, run.eof_chain)
	}
	pub fn from_parts(ok: bool, eof_seen: bool, eof_chain: usize) -> Expand {
		if ok || !eof_seen {
			Expand::No
		} else if eof_chain >= 2 {
			Expand::Narrow
		} else {
			Expand::Full
		}
	}
}

#[derive(Clone, Debug, Default)]
pub struct TreeOut {
	pub nodes: u64,
	pub hungry: u64,
	/// deepest level all of whose nodes were visited
	pub completed_depth: usize,
	pub capped: bool,
}

/// Breadth-first search over the input-consumption tree: the root is the empty input; a node is
/// expanded iff `visit` says the decoder was still hungry at its end. Stops at `max_len` bytes or
/// after `node_cap` nodes.
pub fn consumption_tree(max_len: usize, node_cap: u64, mut visit: impl FnMut(&[u8]) -> Expand) -> TreeOut {
	let mut out = TreeOut::default();
	let mut frontier: Vec<(Vec<u8>, Expand)> = Vec::new();
	out.nodes = 1;
	let e0 = visit(&[]);
	if e0 != Expand::No {
		out.hungry += 1;
		frontier.push((Vec::new(), e0));
	}
	for depth in 1..=max_len {
		let mut next: Vec<(Vec<u8>, Expand)> = Vec::new();
		for (p, e) in &frontier {
			let alpha: &[u8] = if *e == Expand::Narrow { &NARROW_B } else { &SIGMA_B };
			for &b in alpha {
				if out.nodes >= node_cap {
					out.capped = true;
					return out;
				}
				let mut c = Vec::with_capacity(p.len() + 1);
				c.extend_from_slice(p);
				c.push(b);
				let ec = visit(&c);
				out.nodes += 1;
				if ec != Expand::No {
					out.hungry += 1;
					next.push((c, ec));
				}
			}
		}
		out.completed_depth = depth;
		if next.is_empty() {
			// the whole tree is finite and was visited completely
			out.completed_depth = max_len;
			return out;
		}
		frontier = next;
	}
	out
}
