//! C20 generator, part 1: the grammar of type-definition programs and the emission of Rust
//! source for a family (one module of the generated crate). Enumeration is in `c20_enum.rs`.

use serde::{Deserialize, Serialize};
use std::collections::BTreeSet;

#[derive(Clone, Copy, Debug, PartialEq, Eq, Hash, Serialize, Deserialize)]
pub enum Leaf {
	I32,
	I64,
	U16,
	U32,
	U64,
	I8,
	I16,
	Usize,
	Bool,
	F32,
	F64,
	Str,
	Unit,
}

pub const ALL_LEAVES: [Leaf; 13] = [Leaf::I32, Leaf::I64, Leaf::U16, Leaf::U32, Leaf::U64, Leaf::I8, Leaf::I16, Leaf::Usize, Leaf::Bool, Leaf::F32, Leaf::F64, Leaf::Str, Leaf::Unit];

impl Leaf {
	pub fn src(self) -> &'static str {
		match self {
			Leaf::I32 => "i32",
			Leaf::I64 => "i64",
			Leaf::U16 => "u16",
			Leaf::U32 => "u32",
			Leaf::U64 => "u64",
			Leaf::I8 => "i8",
			Leaf::I16 => "i16",
			Leaf::Usize => "usize",
			Leaf::Bool => "bool",
			Leaf::F32 => "f32",
			Leaf::F64 => "f64",
			Leaf::Str => "String",
			Leaf::Unit => "()",
		}
	}
	/// name of the union branch this leaf maps to (PascalCase Avro type name), None for null
	pub fn branch(self) -> Option<&'static str> {
		Some(match self {
			Leaf::I32 | Leaf::U16 | Leaf::I8 | Leaf::I16 => "Int",
			Leaf::I64 | Leaf::U32 | Leaf::U64 | Leaf::Usize => "Long",
			Leaf::Bool => "Boolean",
			Leaf::F32 => "Float",
			Leaf::F64 => "Double",
			Leaf::Str => "String",
			Leaf::Unit => return None,
		})
	}
}

#[derive(Clone, Copy, Debug, PartialEq, Eq, Hash, Serialize, Deserialize)]
pub enum Ptr {
	Box,
	Rc,
	Arc,
}

#[derive(Clone, Debug, PartialEq, Eq, Hash, Serialize, Deserialize)]
pub enum Ty {
	Leaf(Leaf),
	/// `&'a str` (root struct fields only)
	BStr,
	Opt(Box<Ty>),
	Vec(Box<Ty>),
	HMap(Box<Ty>),
	BMap(Box<Ty>),
	Ptr(Ptr, Box<Ty>),
	/// defs[i]: first use, shared use or back reference (recursion)
	Named(usize),
	/// generic def instantiated
	Gen(usize, Vec<Ty>),
	/// a const generic argument (only inside `Gen`)
	Const(usize),
}

#[derive(Clone, Debug, PartialEq, Eq, Hash, Serialize, Deserialize)]
pub enum Lg {
	Uuid,
	Date,
	TimeMillis,
	TimeMicros,
	TsMillis,
	TsMicros,
	DecImplicit { scale: u32, precision: u32 },
	DecBytes { scale: u32, precision: u32 },
	DecFixed { size: usize, scale: u32, precision: u32 },
	Duration,
	/// unknown logical type `custom-stamp` on `[u8; N]` (serde_bytes)
	CustomFixed(usize),
	/// the same attribute with the other spelling of its name (`TimeMicros` for `time-micros`, `uuid` for `Uuid`)
	Alt(Box<Lg>),
}

impl Lg {
	/// logical-type field of the generic shapes 3.. (`struct G<T> { a: T, f: <this> }`)
	/// generic shapes that are newtype structs (no record of their own): 1 `G<T>(T)`,
	/// 8 `G<T>(#[avro_schema(logical_type = "custom-stamp")] T)`, 9 `G<T>(Option<T>)`
	pub fn newtype_shape(shape: usize) -> bool {
		matches!(shape, 1 | 8 | 9)
	}
	pub fn of_generic_shape(shape: usize) -> Option<Lg> {
		match shape {
			3 => Some(Lg::DecFixed { size: 4, scale: 1, precision: 5 }),
			4 => Some(Lg::Duration),
			5 => Some(Lg::CustomFixed(4)),
			6 => Some(Lg::Alt(Box::new(Lg::Duration))),
			_ => None,
		}
	}
}

/// The Rust type of a field whose SCHEMA type the derive substitutes (because of a logical-type
/// attribute, or because the type's name is `Uuid`): it needs no `BuildSchema` impl
#[derive(Clone, Debug, PartialEq, Eq, Hash, Serialize, Deserialize)]
pub enum Carrier {
	/// a type called `Uuid` (`#[serde(transparent)] struct Uuid(String)` of the runtime crate),
	/// written `Uuid` (imported) or `rt::Uuid` (module path)
	LocalUuid { qualified: bool },
	/// `#[serde(transparent)]` newtype over the canonical type: I64 -> `rt::TrI64`, I32 -> `rt::TrI32`, Str -> `rt::TrStr`
	Transparent(Leaf),
	/// another integer width (values restricted to what the substituted Avro type can hold)
	Int(Leaf),
}

/// What may stand at a field position (struct field, newtype field, variant payload)
#[derive(Clone, Debug, PartialEq, Eq, Hash, Serialize, Deserialize)]
pub enum FieldTy {
	Plain(Ty),
	/// `#[serde(with = "serde_bytes")] Vec<u8>`
	Bytes,
	/// `#[serde(with = "serde_bytes")] Option<Vec<u8>>`
	OptBytes,
	/// `#[serde(with = "serde_bytes")] [u8; N]`
	Fixed(usize),
	/// `#[serde(with = "serde_bytes", borrow)] &'a [u8]` (root struct fields only)
	BBytes,
	Logical(Lg),
	/// a field whose Rust type is not the canonical type of its logical type (`lg` = the attribute;
	/// None = no attribute, the logical type is inferred from the type's name)
	Carried { lg: Option<Lg>, carrier: Carrier },
	/// payload `T` of a variant of a GENERIC union enum (`enum E<T> { .., O(T) }`): a `Def::Union`
	/// that contains it is generic over `T` and is used through `Ty::Gen(def, [arg])`
	Param,
	/// `#[avro_schema(skip)] #[serde(skip)]` member of type `rt::NoSchema` (neither BuildSchema
	/// nor Serialize): a struct field, or the payload of a skipped enum variant
	Skipped,
}

#[derive(Clone, Debug, PartialEq, Eq, Hash, Serialize, Deserialize)]
pub enum Def {
	Struct {
		fields: Vec<FieldTy>,
		/// `#[avro_schema(namespace = ..)]`
		ns: Option<String>,
		/// `#[avro_schema(name = ..)]`
		name: Option<String>,
		/// sub-module of the family module the type lives in
		module: Option<String>,
		/// Rust identifier (default `T<i>`)
		ident: Option<String>,
	},
	Newtype {
		field: FieldTy,
	},
	UnitEnum {
		symbols: usize,
	},
	/// enum of newtype variants; the unit variant (serde name `Null`) sits at `unit_at`
	Union {
		variants: Vec<FieldTy>,
		unit_at: Option<usize>,
	},
	/// 0: `struct G<T> { a: T, b: Vec<T> }`; 1: `struct G<T>(T)`; 2: `struct G<A, B> { a: A, b: B }`;
	/// 3..=6: `struct G<T> { a: T, #[avro_schema(logical_type = ..)] f: .. }` where the attribute
	/// makes the field own a named `fixed` (decimal on [u8; 4] / duration / custom / `Duration`)
	Generic {
		shape: usize,
	},
}

pub fn plain_struct(fields: Vec<FieldTy>) -> Def {
	Def::Struct { fields, ns: None, name: None, module: None, ident: None }
}

#[derive(Clone, Debug, PartialEq, Eq, Hash, Serialize, Deserialize)]
pub struct Program {
	/// defs[0] is the root type
	pub defs: Vec<Def>,
	/// the root carries a lifetime parameter (borrowed leaves)
	pub lifetime: bool,
	/// `#[avro_schema(namespace = ..)]` on defs of any kind: (def index, namespace)
	#[serde(default)]
	pub ns_attr: Vec<(usize, String)>,
	/// raw identifiers (`r#type`): the keyword is given bare; the Avro / serde name is the keyword
	#[serde(default)]
	pub raw: Vec<RawName>,
	/// skipped variants of UNIT-ONLY enums: (def, inserted before symbol k (k = number of symbols:
	/// at the end), with a `rt::NoSchema` payload?) — `#[avro_schema(skip)] #[serde(skip)]`
	#[serde(default)]
	pub enum_skips: Vec<(usize, usize, bool)>,
}

#[derive(Clone, Debug, PartialEq, Eq, Hash, Serialize, Deserialize)]
pub enum RawName {
	/// the type defs[i] is called `r#<kw>`
	Type(usize, String),
	/// field k of struct defs[i]
	Field(usize, usize, String),
	/// symbol k of the unit-only enum defs[i]
	Symbol(usize, usize, String),
	/// the variant at Rust position p of the union enum defs[i]
	Variant(usize, usize, String),
}

fn field_name(i: usize) -> String {
	((b'a' + i as u8) as char).to_string()
}

/// A program placed in a crate / module (which fixes the namespaces)
pub struct Placed<'p> {
	pub p: &'p Program,
	pub crate_name: &'p str,
	pub family: &'p str,
}

impl<'p> Placed<'p> {
	fn raw_type(&self, i: usize) -> Option<&str> {
		self.p.raw.iter().find_map(|r| match r {
			RawName::Type(d, kw) if *d == i => Some(kw.as_str()),
			_ => None,
		})
	}
	/// (Rust identifier, Avro / serde name) of field k of struct i
	pub fn field_names(&self, i: usize, k: usize) -> (String, String) {
		for r in &self.p.raw {
			if let RawName::Field(d, f, kw) = r {
				if *d == i && *f == k {
					return (format!("r#{kw}"), kw.clone());
				}
			}
		}
		(field_name(k), field_name(k))
	}
	/// (Rust identifier, Avro / serde name) of symbol k of unit-only enum i
	pub fn symbol_names(&self, i: usize, k: usize) -> (String, String) {
		for r in &self.p.raw {
			if let RawName::Symbol(d, f, kw) = r {
				if *d == i && *f == k {
					return (format!("r#{kw}"), kw.clone());
				}
			}
		}
		let s = ((b'A' + k as u8) as char).to_string();
		(s.clone(), s)
	}
	/// (Rust identifier, name without `r#`) of the variant at position p of union enum i
	pub fn variant_names(&self, i: usize, p: usize) -> (String, String) {
		for r in &self.p.raw {
			if let RawName::Variant(d, f, kw) = r {
				if *d == i && *f == p {
					return (format!("r#{kw}"), kw.clone());
				}
			}
		}
		(format!("V{p}"), format!("V{p}"))
	}
	/// the identifier without `r#`: what names in the schema are made of
	pub fn avro_ident(&self, i: usize) -> String {
		match self.raw_type(i) {
			Some(kw) => kw.to_owned(),
			None => self.ident(i),
		}
	}
	pub fn ident(&self, i: usize) -> String {
		if let Some(kw) = self.raw_type(i) {
			return format!("r#{kw}");
		}
		match &self.p.defs[i] {
			Def::Struct { ident: Some(id), .. } => id.clone(),
			Def::Generic { .. } => format!("G{i}"),
			_ => format!("T{i}"),
		}
	}
	fn module(&self, i: usize) -> Option<&str> {
		match &self.p.defs[i] {
			Def::Struct { module: Some(m), .. } => Some(m),
			_ => None,
		}
	}
	pub fn path(&self, i: usize) -> String {
		match self.module(i) {
			Some(m) => format!("{m}::{}", self.ident(i)),
			None => self.ident(i),
		}
	}
	pub fn ns_override(&self, i: usize) -> Option<String> {
		if let Def::Struct { ns: Some(ns), .. } = &self.p.defs[i] {
			return Some(ns.clone());
		}
		self.p.ns_attr.iter().find(|(d, _)| *d == i).map(|(_, ns)| ns.clone())
	}
	/// namespace the derive is expected to give (module path, or the override)
	pub fn ns(&self, i: usize) -> String {
		if let Some(ns) = self.ns_override(i) {
			return ns;
		}
		match self.module(i) {
			Some(m) => format!("{}.{}.{m}", self.crate_name, self.family),
			None => format!("{}.{}", self.crate_name, self.family),
		}
	}
	fn join(ns: &str, name: &str) -> String {
		if ns.is_empty() {
			name.to_owned()
		} else {
			format!("{ns}.{name}")
		}
	}
	/// predicted fullname of the named schema node a non-generic def maps to
	pub fn fullname(&self, i: usize) -> String {
		let name = match &self.p.defs[i] {
			Def::Struct { name: Some(n), .. } => n.clone(),
			_ => self.avro_ident(i),
		};
		Self::join(&self.ns(i), &name)
	}

	pub fn ty_src(&self, t: &Ty, lt: &str) -> String {
		match t {
			Ty::Leaf(l) => l.src().to_owned(),
			Ty::BStr => format!("&{lt} str"),
			Ty::Opt(t) => format!("Option<{}>", self.ty_src(t, lt)),
			Ty::Vec(t) => format!("Vec<{}>", self.ty_src(t, lt)),
			Ty::HMap(t) => format!("std::collections::HashMap<String, {}>", self.ty_src(t, lt)),
			Ty::BMap(t) => format!("std::collections::BTreeMap<String, {}>", self.ty_src(t, lt)),
			Ty::Ptr(Ptr::Box, t) => format!("Box<{}>", self.ty_src(t, lt)),
			Ty::Ptr(Ptr::Rc, t) => format!("std::rc::Rc<{}>", self.ty_src(t, lt)),
			Ty::Ptr(Ptr::Arc, t) => format!("std::sync::Arc<{}>", self.ty_src(t, lt)),
			Ty::Named(i) => self.path(*i),
			Ty::Gen(g, args) => format!("{}<{}>", self.ident(*g), args.iter().map(|a| self.ty_src(a, lt)).collect::<Vec<_>>().join(", ")),
			Ty::Const(n) => n.to_string(),
		}
	}

	fn has_bstr(t: &Ty) -> bool {
		match t {
			Ty::BStr => true,
			Ty::Opt(t) | Ty::Vec(t) | Ty::HMap(t) | Ty::BMap(t) | Ty::Ptr(_, t) => Self::has_bstr(t),
			Ty::Gen(_, a) => a.iter().any(Self::has_bstr),
			_ => false,
		}
	}

	/// (attributes, type source)
	pub fn field_src(&self, f: &FieldTy, lt: &str) -> (String, String) {
		match f {
			FieldTy::Plain(t) => (if Self::has_bstr(t) { "#[serde(borrow)] ".to_owned() } else { String::new() }, self.ty_src(t, lt)),
			FieldTy::Bytes => ("#[serde(with = \"serde_bytes\")] ".into(), "Vec<u8>".into()),
			FieldTy::OptBytes => ("#[serde(with = \"serde_bytes\")] ".into(), "Option<Vec<u8>>".into()),
			FieldTy::Fixed(n) => ("#[serde(with = \"serde_bytes\")] ".into(), format!("[u8; {n}]")),
			FieldTy::BBytes => ("#[serde(with = \"serde_bytes\", borrow)] ".into(), format!("&{lt} [u8]")),
			FieldTy::Logical(l) => Self::logical_src(l, false),
			FieldTy::Carried { lg, carrier } => {
				let attr = match lg {
					Some(l) => Self::logical_src(l, false).0,
					None => String::new(),
				};
				// serde_bytes attributes belong to the canonical carrier only
				let attr = attr.replace("#[serde(with = \"serde_bytes\")] ", "");
				let ty = match carrier {
					Carrier::LocalUuid { qualified: false } => "Uuid".to_owned(),
					Carrier::LocalUuid { qualified: true } => "rt::Uuid".to_owned(),
					Carrier::Transparent(Leaf::I64) => "rt::TrI64".to_owned(),
					Carrier::Transparent(Leaf::I32) => "rt::TrI32".to_owned(),
					Carrier::Transparent(_) => "rt::TrStr".to_owned(),
					Carrier::Int(l) => l.src().to_owned(),
				};
				(attr, ty)
			}
			FieldTy::Skipped => ("#[avro_schema(skip)] #[serde(skip)] ".into(), "rt::NoSchema".into()),
			FieldTy::Param => (String::new(), "T".into()),
		}
	}

	fn logical_src(l: &Lg, alt: bool) -> (String, String) {
		// the attribute accepts any spelling that PascalCases to the known name
		let sp = |kebab: &str, pascal: &str| if alt { pascal.to_owned() } else { kebab.to_owned() };
		match l {
			Lg::Alt(inner) => Self::logical_src(inner, true),
			Lg::Uuid => (format!("#[avro_schema(logical_type = \"{}\")] ", if alt { "uuid" } else { "Uuid" }), "String".into()),
			Lg::Date => (format!("#[avro_schema(logical_type = \"{}\")] ", sp("date", "Date")), "i32".into()),
			Lg::TimeMillis => (format!("#[avro_schema(logical_type = \"{}\")] ", sp("time-millis", "TimeMillis")), "i32".into()),
			Lg::TimeMicros => (format!("#[avro_schema(logical_type = \"{}\")] ", sp("time-micros", "TimeMicros")), "i64".into()),
			Lg::TsMillis => (format!("#[avro_schema(logical_type = \"{}\")] ", sp("timestamp-millis", "TimestampMillis")), "i64".into()),
			Lg::TsMicros => (format!("#[avro_schema(logical_type = \"{}\")] ", sp("timestamp-micros", "TimestampMicros")), "i64".into()),
			Lg::DecImplicit { scale, precision } => (format!("#[avro_schema(scale = {scale}, precision = {precision})] "), "rust_decimal::Decimal".into()),
			Lg::DecBytes { scale, precision } => (
				format!("#[avro_schema(logical_type = \"{}\", scale = {scale}, precision = {precision}, has_same_type_as = \"Vec<u8>\")] ", sp("decimal", "Decimal")),
				"rust_decimal::Decimal".into(),
			),
			Lg::DecFixed { size, scale, precision } => (
				format!("#[avro_schema(logical_type = \"{}\", scale = {scale}, precision = {precision}, has_same_type_as = \"[u8; {size}]\")] ", sp("decimal", "Decimal")),
				"rust_decimal::Decimal".into(),
			),
			Lg::Duration => (format!("#[avro_schema(logical_type = \"{}\")] #[serde(with = \"serde_bytes\")] ", sp("duration", "Duration")), "[u8; 12]".into()),
			Lg::CustomFixed(n) => ("#[avro_schema(logical_type = \"custom-stamp\")] #[serde(with = \"serde_bytes\")] ".into(), format!("[u8; {n}]")),
		}
	}

	/// (expression producing Vec<field type>, statement describing `$x` into `o`)
	fn field_dom(&self, f: &FieldTy) -> (String, String) {
		match f {
			FieldTy::Plain(t) => (format!("<{} as Dom>::values(rec)", self.ty_src(t, "'static")), "Dom::describe($x, o);".into()),
			FieldTy::Bytes => ("rt::bytes_values()".into(), "rt::desc_bytes($x, o);".into()),
			FieldTy::OptBytes => ("rt::opt_bytes_values()".into(), "rt::desc_opt_bytes($x, o);".into()),
			FieldTy::Fixed(n) => (format!("rt::fixed_values::<{n}>()"), "rt::desc_bytes(&$x[..], o);".into()),
			FieldTy::BBytes => ("rt::bbytes_values()".into(), "rt::desc_bytes($x, o);".into()),
			FieldTy::Logical(l) => Self::logical_dom(l),
			FieldTy::Carried { lg, carrier } => {
				let name = lg.as_ref().map_or("uuid", Self::logical_name);
				let int_backed = matches!(lg.as_ref().map(|l| Self::logical_name(l)), Some("date") | Some("time-millis"));
				let vals = match carrier {
					Carrier::LocalUuid { .. } => "<rt::Uuid as Dom>::values(rec)".to_owned(),
					Carrier::Transparent(Leaf::I64) => "<rt::TrI64 as Dom>::values(rec)".to_owned(),
					Carrier::Transparent(Leaf::I32) => "<rt::TrI32 as Dom>::values(rec)".to_owned(),
					Carrier::Transparent(_) => "<rt::TrStr as Dom>::values(rec)".to_owned(),
					// wider than the substituted Avro type: only the values it can hold (the
					// statement's exemption; beyond that the pair is a no-verdict zone)
					Carrier::Int(Leaf::U32) if int_backed => "vec![0u32, i32::MAX as u32]".to_owned(),
					Carrier::Int(l) => format!("<{} as Dom>::values(rec)", l.src()),
				};
				(vals, format!("o.push_str(\"{{\\\"lg\\\":[\\\"{name}\\\",\"); Dom::describe($x, o); o.push_str(\"]}}\");"))
			}
			FieldTy::Skipped => ("vec![rt::NoSchema::default()]".into(), String::new()),
			FieldTy::Param => ("<T as Dom>::values(rec)".into(), "Dom::describe($x, o);".into()),
		}
	}

	/// Avro name of the logical type the attribute declares
	pub fn logical_name(l: &Lg) -> &'static str {
		match l {
			Lg::Alt(inner) => Self::logical_name(inner),
			Lg::Uuid => "uuid",
			Lg::Date => "date",
			Lg::TimeMillis => "time-millis",
			Lg::TimeMicros => "time-micros",
			Lg::TsMillis => "timestamp-millis",
			Lg::TsMicros => "timestamp-micros",
			Lg::DecImplicit { .. } | Lg::DecBytes { .. } | Lg::DecFixed { .. } => "decimal",
			Lg::Duration => "duration",
			Lg::CustomFixed(_) => "custom-stamp",
		}
	}

	fn logical_dom(l: &Lg) -> (String, String) {
		let (vals, inner): (String, &str) = match l {
			Lg::Alt(inner) => return Self::logical_dom(inner),
			Lg::Uuid => ("rt::uuid_values()".into(), "Dom::describe($x, o);"),
			Lg::Date | Lg::TimeMillis => ("<i32 as Dom>::values(rec)".into(), "Dom::describe($x, o);"),
			Lg::TimeMicros | Lg::TsMillis | Lg::TsMicros => ("<i64 as Dom>::values(rec)".into(), "Dom::describe($x, o);"),
			Lg::DecImplicit { scale, .. } | Lg::DecBytes { scale, .. } => (format!("rt::decimal_values({scale}, 12)"), "rt::desc_decimal($x, o);"),
			Lg::DecFixed { size, scale, .. } => (format!("rt::decimal_values({scale}, {size})"), "rt::desc_decimal($x, o);"),
			Lg::Duration => ("rt::fixed_values::<12>()".into(), "rt::desc_bytes(&$x[..], o);"),
			Lg::CustomFixed(n) => (format!("rt::fixed_values::<{n}>()"), "rt::desc_bytes(&$x[..], o);"),
		};
		// the description states which logical type the field was declared with
		(vals, format!("o.push_str(\"{{\\\"lg\\\":[\\\"{}\\\",\"); {inner} o.push_str(\"]}}\");", Self::logical_name(l)))
	}

	// ---- the generator's knowledge of the mapping -------------------------------------------

	pub fn ty_nullable(&self, t: &Ty) -> bool {
		match t {
			Ty::Leaf(Leaf::Unit) | Ty::Opt(_) => true,
			Ty::Ptr(_, t) => self.ty_nullable(t),
			Ty::Named(i) => match &self.p.defs[*i] {
				Def::Union { .. } => true,
				Def::Newtype { field } => self.field_nullable(field),
				_ => false,
			},
			Ty::Gen(g, args) => match self.p.defs[*g] {
				Def::Generic { shape: 1 } | Def::Generic { shape: 8 } => self.ty_nullable(&args[0]),
				Def::Generic { shape: 9 } | Def::Union { .. } => true,
				_ => false,
			},
			_ => false,
		}
	}
	pub fn field_nullable(&self, f: &FieldTy) -> bool {
		match f {
			FieldTy::Plain(t) => self.ty_nullable(t),
			FieldTy::OptBytes => true,
			_ => false,
		}
	}
	/// union branch name of a type (what the serde variant must be called); None = not usable
	pub fn ty_branch(&self, t: &Ty) -> Option<String> {
		match t {
			Ty::Leaf(l) => l.branch().map(|s| s.to_owned()),
			Ty::BStr => Some("String".into()),
			Ty::Opt(_) => None,
			Ty::Vec(_) => Some("Array".into()),
			Ty::HMap(_) | Ty::BMap(_) => Some("Map".into()),
			Ty::Ptr(_, t) => self.ty_branch(t),
			Ty::Named(i) => match &self.p.defs[*i] {
				Def::Struct { .. } | Def::UnitEnum { .. } => Some(self.fullname(*i)),
				Def::Newtype { field } => match field {
					FieldTy::Plain(t) => self.ty_branch(t),
					FieldTy::Bytes | FieldTy::BBytes => Some("Bytes".into()),
					FieldTy::Fixed(_) => Some(self.fullname(*i)),
					FieldTy::Logical(Lg::DecFixed { .. }) | FieldTy::Logical(Lg::CustomFixed(_)) => Some(self.fullname(*i)),
					FieldTy::Logical(Lg::Duration) => Some("Duration".into()),
					FieldTy::OptBytes | FieldTy::Logical(_) | FieldTy::Carried { .. } | FieldTy::Skipped | FieldTy::Param => None,
				},
				Def::Union { .. } | Def::Generic { .. } => None,
			},
			Ty::Gen(..) | Ty::Const(_) => None,
		}
	}
	pub fn variant_branch(&self, f: &FieldTy, owner: usize, variant_pos: usize) -> Option<String> {
		match f {
			FieldTy::Plain(t) => self.ty_branch(t),
			FieldTy::Bytes | FieldTy::BBytes => Some("Bytes".into()),
			FieldTy::Fixed(_) => Some(self.variant_owned_name(owner, variant_pos)),
			// logical types as variants: the crate names such branches after the logical type,
			// or after the fixed they annotate when that is what carries the identity
			FieldTy::Logical(l) => match l {
				Lg::Alt(inner) => self.variant_branch(&FieldTy::Logical((**inner).clone()), owner, variant_pos),
				Lg::Duration => Some("Duration".into()),
				Lg::DecFixed { .. } | Lg::CustomFixed(_) => Some(self.variant_owned_name(owner, variant_pos)),
				_ => None,
			},
			FieldTy::OptBytes | FieldTy::Carried { .. } | FieldTy::Skipped | FieldTy::Param => None,
		}
	}
	/// a union enum with a `T` payload is generic
	pub fn is_generic_union(&self, i: usize) -> bool {
		matches!(&self.p.defs[i], Def::Union { variants, .. } if variants.contains(&FieldTy::Param))
	}
	/// the type arguments a generic def is instantiated at in this program, in order of appearance
	pub fn instantiations(&self, g: usize) -> Vec<Ty> {
		fn ty(t: &Ty, g: usize, out: &mut Vec<Ty>) {
			match t {
				Ty::Opt(t) | Ty::Vec(t) | Ty::HMap(t) | Ty::BMap(t) | Ty::Ptr(_, t) => ty(t, g, out),
				Ty::Gen(h, a) => {
					if *h == g && !out.contains(&a[0]) {
						out.push(a[0].clone());
					}
					a.iter().for_each(|t| ty(t, g, out));
				}
				_ => {}
			}
		}
		let mut out = Vec::new();
		for d in &self.p.defs {
			let fs: Vec<&FieldTy> = match d {
				Def::Struct { fields, .. } => fields.iter().collect(),
				Def::Newtype { field } => vec![field],
				Def::Union { variants, .. } => variants.iter().collect(),
				_ => vec![],
			};
			for f in fs {
				if let FieldTy::Plain(t) = f {
					ty(t, g, &mut out);
				}
			}
		}
		out
	}
	fn variant_owned_name(&self, owner: usize, variant_pos: usize) -> String {
		Self::join(&self.ns(owner), &format!("{}.{}", self.avro_ident(owner), self.variant_names(owner, variant_pos).1))
	}
	/// positions of the data variants in the Rust enum (the unit variant takes one position)
	pub fn variant_positions(n: usize, unit_at: Option<usize>) -> Vec<usize> {
		(0..n).map(|k| if unit_at.map_or(false, |u| k >= u) { k + 1 } else { k }).collect()
	}

	pub fn validate(&self) -> Result<(), String> {
		for (i, d) in self.p.defs.iter().enumerate() {
			let fields: Vec<&FieldTy> = match d {
				Def::Struct { fields, .. } => fields.iter().collect(),
				Def::Newtype { field } => vec![field],
				Def::Union { variants, unit_at } => {
					if variants.iter().all(|v| *v == FieldTy::Skipped) {
						return Err("union without data variants is a unit-only enum".into());
					}
					let pos = Self::variant_positions(variants.len(), *unit_at);
					let mut seen = BTreeSet::new();
					seen.insert("Null".to_owned());
					for (k, v) in variants.iter().enumerate() {
						if *v == FieldTy::Skipped {
							continue;
						}
						if *v == FieldTy::Param {
							// the branch of `T` depends on the instantiation: checked below
							continue;
						}
						if self.field_nullable(v) {
							return Err("nullable variant payload".into());
						}
						match self.variant_branch(v, i, pos[k]) {
							None => return Err("variant payload has no usable branch name".into()),
							Some(b) => {
								if !seen.insert(b) {
									return Err("two variants map to the same branch".into());
								}
							}
						}
					}
					if variants.iter().filter(|v| **v == FieldTy::Param).count() > 1 {
						return Err("two T-dependent variants".into());
					}
					if self.is_generic_union(i) {
						for arg in self.instantiations(i) {
							if self.ty_nullable(&arg) {
								return Err("generic union enum instantiated at a nullable type".into());
							}
							match self.ty_branch(&arg) {
								None => return Err("generic union enum instantiated at a type without a branch name".into()),
								Some(b) if seen.contains(&b) => return Err("the type argument maps to the branch of another variant".into()),
								Some(_) => {}
							}
						}
					}
					variants.iter().collect()
				}
				_ => vec![],
			};
			for f in fields {
				if let FieldTy::Plain(t) = f {
					self.validate_ty(t)?;
				}
			}
		}
		Ok(())
	}
	fn validate_ty(&self, t: &Ty) -> Result<(), String> {
		match t {
			Ty::Opt(inner) => {
				if self.ty_nullable(inner) {
					return Err("Option of a nullable type".into());
				}
				self.validate_ty(inner)
			}
			Ty::Vec(t) | Ty::HMap(t) | Ty::BMap(t) | Ty::Ptr(_, t) => self.validate_ty(t),
			Ty::Gen(_, a) => a.iter().try_for_each(|t| self.validate_ty(t)),
			_ => Ok(()),
		}
	}

	/// canonical key of the derive's type-lookup equivalence (types that share a schema node)
	fn canon(&self, t: &Ty) -> String {
		match t {
			Ty::Leaf(l) => l.branch().unwrap_or("Null").to_owned(),
			Ty::BStr => "String".into(),
			Ty::Const(n) => n.to_string(),
			Ty::Opt(t) => format!("opt<{}>", self.canon(t)),
			Ty::Vec(t) => format!("arr<{}>", self.canon(t)),
			Ty::HMap(t) | Ty::BMap(t) => format!("map<{}>", self.canon(t)),
			Ty::Ptr(_, t) => self.canon(t),
			Ty::Named(i) => match &self.p.defs[*i] {
				Def::Newtype { field: FieldTy::Plain(t) } => self.canon(t),
				Def::Newtype { field: FieldTy::Bytes } => "Bytes".into(),
				_ => format!("T{i}"),
			},
			Ty::Gen(g, a) => match self.p.defs[*g] {
				Def::Generic { shape: 1 } => self.canon(&a[0]),
				Def::Generic { shape: 9 } => format!("opt<{}>", self.canon(&a[0])),
				_ => format!("G{g}<{}>", a.iter().map(|t| self.canon(t)).collect::<Vec<_>>().join(",")),
			},
		}
	}

	/// (number of distinct record types / instantiations, number of distinct unit-only enums)
	/// reachable from the root, modulo the derive's lookup equivalence
	pub fn expected_named(&self) -> (usize, usize) {
		let mut recs: BTreeSet<String> = BTreeSet::new();
		let mut enums: BTreeSet<usize> = BTreeSet::new();
		let mut seen_defs: BTreeSet<usize> = BTreeSet::new();
		self.walk_def(0, &mut recs, &mut enums, &mut seen_defs);
		(recs.len(), enums.len())
	}
	fn walk_def(&self, i: usize, recs: &mut BTreeSet<String>, enums: &mut BTreeSet<usize>, seen: &mut BTreeSet<usize>) {
		if !seen.insert(i) {
			return;
		}
		match &self.p.defs[i] {
			Def::Struct { fields, .. } => {
				recs.insert(format!("T{i}"));
				for f in fields {
					self.walk_field(f, recs, enums, seen);
				}
			}
			Def::Newtype { field } => self.walk_field(field, recs, enums, seen),
			Def::UnitEnum { .. } => {
				enums.insert(i);
			}
			Def::Union { variants, .. } => {
				for f in variants {
					self.walk_field(f, recs, enums, seen);
				}
			}
			Def::Generic { .. } => {}
		}
	}
	fn walk_field(&self, f: &FieldTy, recs: &mut BTreeSet<String>, enums: &mut BTreeSet<usize>, seen: &mut BTreeSet<usize>) {
		if let FieldTy::Plain(t) = f {
			self.walk_ty(t, recs, enums, seen);
		}
	}
	fn walk_ty(&self, t: &Ty, recs: &mut BTreeSet<String>, enums: &mut BTreeSet<usize>, seen: &mut BTreeSet<usize>) {
		match t {
			Ty::Opt(t) | Ty::Vec(t) | Ty::HMap(t) | Ty::BMap(t) | Ty::Ptr(_, t) => self.walk_ty(t, recs, enums, seen),
			Ty::Named(i) => self.walk_def(*i, recs, enums, seen),
			Ty::Gen(g, a) => {
				if matches!(self.p.defs[*g], Def::Union { .. }) {
					// unnamed itself; its own variants may hold records / enums
					self.walk_def(*g, recs, enums, seen);
				} else if !matches!(self.p.defs[*g], Def::Generic { shape } if Lg::newtype_shape(shape)) {
					recs.insert(self.canon(t));
				}
				for t in a {
					self.walk_ty(t, recs, enums, seen);
				}
			}
			_ => {}
		}
	}

	/// defs that close a cycle (targets of back edges in a DFS from the root)
	pub fn cycle_heads(&self) -> BTreeSet<usize> {
		fn tys_of(d: &Def) -> Vec<&Ty> {
			let fs: Vec<&FieldTy> = match d {
				Def::Struct { fields, .. } => fields.iter().collect(),
				Def::Newtype { field } => vec![field],
				Def::Union { variants, .. } => variants.iter().collect(),
				_ => vec![],
			};
			fs.into_iter().filter_map(|f| if let FieldTy::Plain(t) = f { Some(t) } else { None }).collect()
		}
		fn named(t: &Ty, out: &mut Vec<usize>) {
			match t {
				Ty::Opt(t) | Ty::Vec(t) | Ty::HMap(t) | Ty::BMap(t) | Ty::Ptr(_, t) => named(t, out),
				Ty::Named(i) => out.push(*i),
				Ty::Gen(_, a) => a.iter().for_each(|t| named(t, out)),
				_ => {}
			}
		}
		fn dfs(p: &Program, i: usize, color: &mut Vec<u8>, heads: &mut BTreeSet<usize>) {
			color[i] = 1;
			let mut succ = Vec::new();
			for t in tys_of(&p.defs[i]) {
				named(t, &mut succ);
			}
			for j in succ {
				match color[j] {
					0 => dfs(p, j, color, heads),
					1 => {
						heads.insert(j);
					}
					_ => {}
				}
			}
			color[i] = 2;
		}
		let mut color = vec![0u8; self.p.defs.len()];
		let mut heads = BTreeSet::new();
		dfs(self.p, 0, &mut color, &mut heads);
		heads
	}

	pub fn uses_union(&self) -> bool {
		self.p.defs.iter().any(|d| matches!(d, Def::Union { .. }))
	}
	pub fn uses_generic(&self) -> bool {
		self.p.defs.iter().enumerate().any(|(i, d)| matches!(d, Def::Generic { .. }) || self.is_generic_union(i))
	}
	pub fn uses_newtype(&self) -> bool {
		self.p.defs.iter().any(|d| matches!(d, Def::Newtype { .. }) || matches!(d, Def::Generic { shape } if Lg::newtype_shape(*shape)))
	}

	// ---- emission ---------------------------------------------------------------------------

	const DERIVES: &'static str = "#[derive(Serialize, Deserialize, BuildSchema, PartialEq, Clone)]";

	fn emit_def(&self, i: usize, heads: &BTreeSet<usize>) -> String {
		let id = self.ident(i);
		let root_lt = i == 0 && self.p.lifetime;
		let (decl_lt, lt, impl_ty) = if root_lt { ("<'a>", "'a", format!("{id}<'static>")) } else { ("", "'static", id.clone()) };
		let in_sub = self.module(i).is_some();
		let vis = if in_sub { "pub " } else { "" };
		let rec_guard = if heads.contains(&i) { "\t\tif rec == 0 {\n\t\t\treturn Vec::new();\n\t\t}\n\t\tlet rec = rec - 1;\n" } else { "\t\tlet _ = rec;\n" };
		let mut s = String::new();
		let ns_attr_line = match self.ns_override(i) {
			Some(ns) => format!("#[avro_schema(namespace = \"{ns}\")]\n"),
			None => String::new(),
		};
		match &self.p.defs[i] {
			Def::Struct { fields, ns, name, .. } => {
				s.push_str(Self::DERIVES);
				s.push('\n');
				let mut attrs = Vec::new();
				let _ = ns;
				if let Some(ns) = self.ns_override(i) {
					attrs.push(format!("namespace = \"{ns}\""));
				}
				if let Some(n) = name {
					attrs.push(format!("name = {n}"));
				}
				if !attrs.is_empty() {
					s.push_str(&format!("#[avro_schema({})]\n", attrs.join(", ")));
				}
				if let Some(n) = name {
					s.push_str(&format!("#[serde(rename = \"{n}\")]\n"));
				}
				s.push_str(&format!("{vis}struct {id}{decl_lt} {{\n"));
				for (k, f) in fields.iter().enumerate() {
					let (a, t) = self.field_src(f, lt);
					s.push_str(&format!("\t{a}{vis}{}: {t},\n", self.field_names(i, k).0));
				}
				s.push_str("}\n");
				s.push_str(&format!("impl Dom for {impl_ty} {{\n\tfn values(rec: u32) -> Vec<Self> {{\n{rec_guard}"));
				for (k, f) in fields.iter().enumerate() {
					s.push_str(&format!("\t\tlet d{k} = {};\n", self.field_dom(f).0));
				}
				s.push_str(&format!("\t\tlet sizes = [{}];\n", (0..fields.len()).map(|k| format!("d{k}.len()")).collect::<Vec<_>>().join(", ")));
				s.push_str("\t\tlet mut out = Vec::new();\n\t\tfor ix in rt::tuples(&sizes) {\n");
				s.push_str(&format!("\t\t\tout.push({id} {{ {} }});\n", (0..fields.len()).map(|k| format!("{}: d{k}[ix[{k}]].clone()", self.field_names(i, k).0)).collect::<Vec<_>>().join(", ")));
				s.push_str("\t\t}\n\t\tout\n\t}\n\tfn describe(&self, o: &mut String) {\n\t\to.push_str(\"{\\\"rec\\\":[\");\n");
				let mut first = true;
				for (k, f) in fields.iter().enumerate() {
					if *f == FieldTy::Skipped {
						continue; // not part of the data model
					}
					let (rn, n) = self.field_names(i, k);
					let sep = if first { "" } else { "," };
					first = false;
					s.push_str(&format!("\t\to.push_str(\"{sep}[\\\"{n}\\\",\");\n\t\t{}\n\t\to.push(']');\n", self.field_dom(f).1.replace("$x", &format!("&self.{rn}"))));
				}
				s.push_str("\t\to.push_str(\"]}\");\n\t}\n}\n");
			}
			Def::Newtype { field } => {
				let (a, t) = self.field_src(field, lt);
				s.push_str(&format!("{}\n{ns_attr_line}{vis}struct {id}{decl_lt}({a}{vis}{t});\n", Self::DERIVES));
				s.push_str(&format!("impl Dom for {impl_ty} {{\n\tfn values(rec: u32) -> Vec<Self> {{\n{rec_guard}\t\t{}.into_iter().map({id}).collect()\n\t}}\n", self.field_dom(field).0));
				s.push_str(&format!("\tfn describe(&self, o: &mut String) {{\n\t\to.push_str(\"{{\\\"nt\\\":\");\n\t\t{}\n\t\to.push('}}');\n\t}}\n}}\n", self.field_dom(field).1.replace("$x", "&self.0")));
			}
			Def::UnitEnum { symbols } => {
				let syms: Vec<(String, String)> = (0..*symbols).map(|k| self.symbol_names(i, k)).collect();
				s.push_str(&format!("{}\n{ns_attr_line}{vis}enum {id} {{\n", Self::DERIVES));
				let mut skipped_arms = String::new();
				let mut emit_skips = |before: usize, s: &mut String| {
					for (j, (d, k, payload)) in self.p.enum_skips.iter().enumerate() {
						if *d == i && *k == before {
							if *payload {
								s.push_str(&format!("\t#[avro_schema(skip)]\n\t#[serde(skip)]\n\tL{j}(rt::NoSchema),\n"));
								skipped_arms.push_str(&format!("\t\t\t{id}::L{j}(_) => o.push_str(\"{{\\\"skipped-variant\\\":0}}\"),\n"));
							} else {
								s.push_str(&format!("\t#[avro_schema(skip)]\n\t#[serde(skip)]\n\tS{j},\n"));
								skipped_arms.push_str(&format!("\t\t\t{id}::S{j} => o.push_str(\"{{\\\"skipped-variant\\\":0}}\"),\n"));
							}
						}
					}
				};
				for (k, (sy, _)) in syms.iter().enumerate() {
					emit_skips(k, &mut s);
					s.push_str(&format!("\t{sy},\n"));
				}
				emit_skips(syms.len(), &mut s);
				s.push_str("}\n");
				s.push_str(&format!("impl Dom for {id} {{\n\tfn values(_: u32) -> Vec<Self> {{\n\t\tvec![{}]\n\t}}\n", syms.iter().map(|(sy, _)| format!("{id}::{sy}")).collect::<Vec<_>>().join(", ")));
				s.push_str("\tfn describe(&self, o: &mut String) {\n\t\tmatch self {\n");
				for (sy, name) in &syms {
					s.push_str(&format!("\t\t\t{id}::{sy} => o.push_str(\"{{\\\"sym\\\":\\\"{name}\\\"}}\"),\n"));
				}
				s.push_str(&skipped_arms);
				s.push_str("\t\t}\n\t}\n}\n");
			}
			Def::Union { variants, unit_at } => {
				let pos = Self::variant_positions(variants.len(), *unit_at);
				let total = variants.len() + unit_at.is_some() as usize;
				let generic = self.is_generic_union(i);
				let (decl_lt, impl_head) = if generic { ("<T>", format!("impl<T: Dom> Dom for {id}<T>")) } else { (decl_lt, format!("impl Dom for {impl_ty}")) };
				s.push_str(&format!("{}\n{ns_attr_line}{vis}enum {id}{decl_lt} {{\n", Self::DERIVES));
				let mut vals = String::new();
				let mut desc = String::new();
				for p in 0..total {
					let vp = self.variant_names(i, p).0;
					if Some(p) == *unit_at {
						s.push_str(&format!("\t#[serde(rename = \"Null\")]\n\t{vp},\n"));
						vals.push_str(&format!("\t\tout.push({id}::{vp});\n"));
						desc.push_str(&format!("\t\t\t{id}::{vp} => o.push_str(\"{{\\\"var\\\":[\\\"Null\\\",{{\\\"u\\\":0}}]}}\"),\n"));
						continue;
					}
					let k = pos.iter().position(|&q| q == p).unwrap();
					let f = &variants[k];
					if *f == FieldTy::Skipped {
						s.push_str(&format!("\t#[avro_schema(skip)]\n\t#[serde(skip)]\n\t{vp}(rt::NoSchema),\n"));
						desc.push_str(&format!("\t\t\t{id}::{vp}(_) => o.push_str(\"{{\\\"skipped-variant\\\":0}}\"),\n"));
						continue;
					}
					if *f == FieldTy::Param {
						// the variant must be called like the branch `T` maps to: the first
						// instantiation gives the name, further ones are serde aliases
						let names: Vec<String> = {
							let mut v: Vec<String> = Vec::new();
							for arg in self.instantiations(i) {
								let b = self.ty_branch(&arg).unwrap_or_else(|| "INVALID".into());
								if !v.contains(&b) {
									v.push(b);
								}
							}
							v
						};
						let mut attr = format!("rename = \"{}\"", names.first().cloned().unwrap_or_else(|| "Unused".into()));
						for n in names.iter().skip(1) {
							attr.push_str(&format!(", alias = \"{n}\""));
						}
						s.push_str(&format!("\t#[serde({attr})]\n\t{vp}(T),\n"));
						vals.push_str(&format!("\t\tfor x in <T as Dom>::values(rec) {{\n\t\t\tout.push({id}::{vp}(x));\n\t\t}}\n"));
						desc.push_str(&format!("\t\t\t{id}::{vp}(x) => {{\n\t\t\t\to.push_str(\"{{\\\"varT\\\":\");\n\t\t\t\tDom::describe(x, o);\n\t\t\t\to.push('}}');\n\t\t\t}}\n"));
						continue;
					}
					let branch = self.variant_branch(f, i, p).unwrap_or_else(|| "INVALID".into());
					let (a, t) = self.field_src(f, lt);
					s.push_str(&format!("\t#[serde(rename = \"{branch}\")]\n\t{vp}({a}{t}),\n"));
					vals.push_str(&format!("\t\tfor x in {} {{\n\t\t\tout.push({id}::{vp}(x));\n\t\t}}\n", self.field_dom(f).0));
					desc.push_str(&format!(
						"\t\t\t{id}::{vp}(x) => {{\n\t\t\t\to.push_str(\"{{\\\"var\\\":[\\\"{branch}\\\",\");\n\t\t\t\t{}\n\t\t\t\to.push_str(\"]}}\");\n\t\t\t}}\n",
						self.field_dom(f).1.replace("$x", "x")
					));
				}
				s.push_str("}\n");
				s.push_str(&format!("{impl_head} {{\n\tfn values(rec: u32) -> Vec<Self> {{\n{rec_guard}\t\tlet mut out = Vec::new();\n{vals}\t\tout\n\t}}\n"));
				s.push_str(&format!("\tfn describe(&self, o: &mut String) {{\n\t\tmatch self {{\n{desc}\t\t}}\n\t}}\n}}\n"));
			}
			Def::Generic { shape } => {
				s.push_str(Self::DERIVES);
				s.push('\n');
				s.push_str(&ns_attr_line);
				match shape {
					0 => {
						s.push_str(&format!("struct {id}<T> {{\n\ta: T,\n\tb: Vec<T>,\n}}\n"));
						s.push_str(&format!(
							"impl<T: Dom> Dom for {id}<T> {{\n\tfn values(rec: u32) -> Vec<Self> {{\n\t\tlet d0 = <T as Dom>::values(rec);\n\t\tlet d1 = <Vec<T> as Dom>::values(rec);\n\t\tlet mut out = Vec::new();\n\t\tfor ix in rt::tuples(&[d0.len(), d1.len()]) {{\n\t\t\tout.push({id} {{ a: d0[ix[0]].clone(), b: d1[ix[1]].clone() }});\n\t\t}}\n\t\tout\n\t}}\n"
						));
						s.push_str("\tfn describe(&self, o: &mut String) {\n\t\to.push_str(\"{\\\"rec\\\":[[\\\"a\\\",\");\n\t\tDom::describe(&self.a, o);\n\t\to.push_str(\"],[\\\"b\\\",\");\n\t\tDom::describe(&self.b, o);\n\t\to.push_str(\"]]}\");\n\t}\n}\n");
					}
					1 => {
						s.push_str(&format!("struct {id}<T>(T);\n"));
						s.push_str(&format!("impl<T: Dom> Dom for {id}<T> {{\n\tfn values(rec: u32) -> Vec<Self> {{\n\t\t<T as Dom>::values(rec).into_iter().map({id}).collect()\n\t}}\n"));
						s.push_str("\tfn describe(&self, o: &mut String) {\n\t\to.push_str(\"{\\\"nt\\\":\");\n\t\tDom::describe(&self.0, o);\n\t\to.push('}');\n\t}\n}\n");
					}
					7 => {
						s.push_str(&format!("struct {id}<const N: usize> {{\n\t#[serde(with = \"serde_bytes\")] a: [u8; N],\n\tb: i32,\n}}\n"));
						s.push_str(&format!(
							"impl<const N: usize> Dom for {id}<N> {{\n\tfn values(rec: u32) -> Vec<Self> {{\n\t\tlet d0 = rt::fixed_values::<N>();\n\t\tlet d1 = <i32 as Dom>::values(rec);\n\t\tlet mut out = Vec::new();\n\t\tfor ix in rt::tuples(&[d0.len(), d1.len()]) {{\n\t\t\tout.push({id} {{ a: d0[ix[0]].clone(), b: d1[ix[1]].clone() }});\n\t\t}}\n\t\tout\n\t}}\n"
						));
						s.push_str("\tfn describe(&self, o: &mut String) {\n\t\to.push_str(\"{\\\"rec\\\":[[\\\"a\\\",\");\n\t\trt::desc_bytes(&self.a[..], o);\n\t\to.push_str(\"],[\\\"b\\\",\");\n\t\tDom::describe(&self.b, o);\n\t\to.push_str(\"]]}\");\n\t}\n}\n");
					}
					8 => {
						s.push_str(&format!("struct {id}<T>(#[avro_schema(logical_type = \"custom-stamp\")] T);\n"));
						s.push_str(&format!("impl<T: Dom> Dom for {id}<T> {{\n\tfn values(rec: u32) -> Vec<Self> {{\n\t\t<T as Dom>::values(rec).into_iter().map({id}).collect()\n\t}}\n"));
						s.push_str("\tfn describe(&self, o: &mut String) {\n\t\to.push_str(\"{\\\"nt\\\":{\\\"lg\\\":[\\\"custom-stamp\\\",\");\n\t\tDom::describe(&self.0, o);\n\t\to.push_str(\"]}}\");\n\t}\n}\n");
					}
					9 => {
						s.push_str(&format!("struct {id}<T>(Option<T>);\n"));
						s.push_str(&format!("impl<T: Dom> Dom for {id}<T> {{\n\tfn values(rec: u32) -> Vec<Self> {{\n\t\t<Option<T> as Dom>::values(rec).into_iter().map({id}).collect()\n\t}}\n"));
						s.push_str("\tfn describe(&self, o: &mut String) {\n\t\to.push_str(\"{\\\"nt\\\":\");\n\t\tDom::describe(&self.0, o);\n\t\to.push('}');\n\t}\n}\n");
					}
					sh if Lg::of_generic_shape(*sh).is_some() => {
						let lg = FieldTy::Logical(Lg::of_generic_shape(*sh).unwrap());
						let (a, t) = self.field_src(&lg, "'static");
						let (vals, desc) = self.field_dom(&lg);
						s.push_str(&format!("struct {id}<T> {{\n\ta: T,\n\t{a}f: {t},\n}}\n"));
						s.push_str(&format!(
							"impl<T: Dom> Dom for {id}<T> {{\n\tfn values(rec: u32) -> Vec<Self> {{\n\t\tlet d0 = <T as Dom>::values(rec);\n\t\tlet d1 = {vals};\n\t\tlet mut out = Vec::new();\n\t\tfor ix in rt::tuples(&[d0.len(), d1.len()]) {{\n\t\t\tout.push({id} {{ a: d0[ix[0]].clone(), f: d1[ix[1]].clone() }});\n\t\t}}\n\t\tout\n\t}}\n"
						));
						s.push_str(&format!(
							"\tfn describe(&self, o: &mut String) {{\n\t\to.push_str(\"{{\\\"rec\\\":[[\\\"a\\\",\");\n\t\tDom::describe(&self.a, o);\n\t\to.push_str(\"],[\\\"f\\\",\");\n\t\t{}\n\t\to.push_str(\"]]}}\");\n\t}}\n}}\n",
							desc.replace("$x", "&self.f")
						));
					}
					_ => {
						s.push_str(&format!("struct {id}<A, B> {{\n\ta: A,\n\tb: B,\n}}\n"));
						s.push_str(&format!(
							"impl<A: Dom, B: Dom> Dom for {id}<A, B> {{\n\tfn values(rec: u32) -> Vec<Self> {{\n\t\tlet d0 = <A as Dom>::values(rec);\n\t\tlet d1 = <B as Dom>::values(rec);\n\t\tlet mut out = Vec::new();\n\t\tfor ix in rt::tuples(&[d0.len(), d1.len()]) {{\n\t\t\tout.push({id} {{ a: d0[ix[0]].clone(), b: d1[ix[1]].clone() }});\n\t\t}}\n\t\tout\n\t}}\n"
						));
						s.push_str("\tfn describe(&self, o: &mut String) {\n\t\to.push_str(\"{\\\"rec\\\":[[\\\"a\\\",\");\n\t\tDom::describe(&self.a, o);\n\t\to.push_str(\"],[\\\"b\\\",\");\n\t\tDom::describe(&self.b, o);\n\t\to.push_str(\"]]}\");\n\t}\n}\n");
					}
				}
			}
		}
		s
	}

	/// The type definitions only (what identifies the program to a human)
	pub fn type_defs_src(&self) -> String {
		let mut out = String::new();
		for i in 0..self.p.defs.len() {
			let full = self.emit_def(i, &BTreeSet::new());
			let decl: String = full.split("impl").next().unwrap_or("").lines().filter(|l| !l.starts_with("#[derive")).map(|l| l.trim()).collect::<Vec<_>>().join(" ");
			match self.module(i) {
				Some(m) => out.push_str(&format!("mod {m} {{ {decl} }} ")),
				None => {
					out.push_str(&decl);
					out.push(' ');
				}
			}
		}
		out.trim().to_owned()
	}

	/// Source of the family module
	pub fn emit(&self, origin: &str) -> String {
		let heads = self.cycle_heads();
		let mut s = format!("// GENERATED by `vcheck C20` — family {} ({origin}); do not edit.\n", self.family);
		s.push_str("#![allow(dead_code, unused_imports, unused_variables, private_interfaces, clippy::all)]\n");
		s.push_str("use serde::{Deserialize, Serialize};\nuse serde_avro_derive::BuildSchema;\nuse vderive_rt::{self as rt, Dom, Uuid};\n\n");
		let mut subs: Vec<String> = Vec::new();
		for i in 0..self.p.defs.len() {
			if let Some(m) = self.module(i) {
				if !subs.contains(&m.to_owned()) {
					subs.push(m.to_owned());
				}
			}
		}
		for i in 0..self.p.defs.len() {
			if self.module(i).is_none() {
				s.push_str(&self.emit_def(i, &heads));
				s.push('\n');
			}
		}
		for m in subs {
			s.push_str(&format!("pub mod {m} {{\n\tuse super::*;\n"));
			for i in 0..self.p.defs.len() {
				if self.module(i) == Some(m.as_str()) {
					for l in self.emit_def(i, &heads).lines() {
						s.push_str(&format!("\t{l}\n"));
					}
				}
			}
			s.push_str("}\n\n");
		}
		let root = if self.p.lifetime { format!("{}<'static>", self.path(0)) } else { self.path(0) };
		s.push_str(&format!("pub fn run(out: &mut dyn std::io::Write, only_value: Option<usize>) {{\n\trt::run_family::<{root}>(\"{}\", out, only_value)\n}}\n", self.family));
		s
	}
}
