//! C05 "leaf kinds": every leaf kind of the schema language inside container blocks — float, double
//! (incl. NaN payload bit patterns), duration, fixed, decimal over bytes and over fixed, uuid, date,
//! enum, a union of several of them, array<double>, map<float>, and a record of all of them — so
//! that the block-bounded readers' fixed-width paths are executed. Values come from the shared
//! boundary alphabet (`gen::gen_value`), are presented through `gen::pres_of`, the file is taken
//! apart by the independent parser + `vmodel::value::decode`, and read back through
//! `Reader::deserialize_seed_next` with the observation seed of C01 (floats compared by bits).

use super::{compression, Codec, Rk, SYNC};
use crate::envs::ChunkedBufRead;
use crate::explore::{explore, hash64, Cover};
use crate::gen::{self, Names, ObsMode, RecordStyle, UnionStyle};
use crate::obs::{Hint, ObsSeed, O};
use crate::pres::Pres;
use crate::report::{hex, truncate, Violation};
use crate::subj::{guarded, Out};
use serde_avro_fast::de::read::take::Take;
use serde_avro_fast::de::read::{ReadSlice, ReaderRead, SliceRead};
use serde_avro_fast::object_container_file_encoding::{Reader, WriterBuilder};
use serde_avro_fast::ser::SerializerConfig;
use serde_json::json;
use std::panic::{catch_unwind, AssertUnwindSafe};
use vmodel::container::cf_parse;
use vmodel::schema::{Env, Logical, RSchema};
use vmodel::value::{RValue, Verdict};

pub const GUARDS: [&str; 5] = ["leaf_cases", "leaf_files_with_2_or_more_blocks", "leaf_reads_ok", "leaf_slice_reads_ok_of_fixed_width_leaves(codec=null)", "leaf_slice_reads_ok_of_fixed_width_leaves(codec=snappy)"];

pub const N_SCHEMAS: usize = 14;

pub fn schema(i: usize) -> (RSchema, &'static str) {
	use RSchema as S;
	let mut n = Names(0);
	let dur = |n: &mut Names| S::logical(Logical::Duration, S::fixed(&n.fresh("Dur"), 12));
	match i {
		0 => (S::Float, "float"),
		1 => (S::Double, "double"),
		2 => (dur(&mut n), "duration"),
		3 => (S::fixed("ns.Fx3", 3), "fixed(3)"),
		4 => (S::decimal_bytes(10, 2), "decimal(bytes)"),
		5 => (S::decimal_fixed("ns.Dec2", 2, 4, 2), "decimal(fixed 2)"),
		6 => (S::logical(Logical::Uuid, S::String), "uuid"),
		7 => (S::logical(Logical::Date, S::Int), "date"),
		8 => (S::enum_("ns.En", &["A", "B", "C"]), "enum"),
		9 => (S::Union(vec![S::Null, S::Float, S::Double, S::fixed("Fx16", 16), S::String]), "union[null,float,double,fixed(16),string]"),
		10 => (S::array(S::Double), "array<double>"),
		11 => (S::map(S::Float), "map<float>"),
		12 => (S::record("ns.All", vec![("f", S::Float), ("d", S::Double), ("dur", dur(&mut n)), ("fx", S::fixed("ns.Fx1", 1)), ("u", S::Union(vec![S::Double, S::Null])), ("b", S::Boolean)]), "record{float,double,duration,fixed,union,boolean}"),
		_ => (S::Union(vec![dur(&mut n), S::Float, S::logical(Logical::Date, S::Int)]), "union[duration,float,date]"),
	}
}

fn has_fixed_width_leaf(s: &RSchema) -> bool {
	match s {
		RSchema::Float | RSchema::Double => true,
		RSchema::Logical(Logical::Duration, _) => true,
		RSchema::Array(i) | RSchema::Map(i) => has_fixed_width_leaf(i),
		RSchema::Union(v) => v.iter().any(has_fixed_width_leaf),
		RSchema::Record { fields, .. } => fields.iter().any(|(_, f)| has_fixed_width_leaf(f)),
		RSchema::Logical(_, i) => has_fixed_width_leaf(i),
		_ => false,
	}
}

/// the first `max` values of the schema's boundary alphabet, spread over the choice tree
pub fn values(s: &RSchema, env: &Env, max: usize) -> Vec<RValue> {
	let mut all: Vec<RValue> = Vec::new();
	explore(None, 4000, |ch| {
		let v = gen::gen_value(s, env, ch, true, 2, 1);
		if !all.contains(&v) {
			all.push(v);
		}
		true
	});
	if all.len() <= max {
		return all;
	}
	// evenly spaced, always including the first and the last
	(0..max).map(|k| all[k * (all.len() - 1) / (max - 1)].clone()).collect()
}

#[derive(Clone, Copy, Debug, PartialEq, Eq, Hash, serde::Serialize, serde::Deserialize)]
pub struct LeafCase {
	pub schema: usize,
	pub codec: Codec,
	/// 0: one block (approx_block_size 64 Ki); 1: one block per value (approx_block_size 0); 2: [v0, finish_block, v1.., push_serialized(last)] with approx_block_size 24
	pub template: u8,
	pub n_values: usize,
}

fn write(case: &LeafCase, crate_schema: &serde_avro_fast::Schema, pres: &[Pres]) -> Out<Vec<u8>> {
	guarded(|| {
		let mut config = SerializerConfig::new(crate_schema);
		let mut pre = SerializerConfig::new(crate_schema);
		let abs = match case.template {
			0 => 64 * 1024,
			1 => 0,
			_ => 24,
		};
		let mut w = WriterBuilder::new(&mut config).compression(compression(case.codec, 0)).approx_block_size(abs).sync_marker(SYNC).build(Vec::new()).map_err(|e| format!("build: {e}"))?;
		let mut r: Result<(), String> = Ok(());
		for (i, p) in pres.iter().enumerate() {
			let step = if case.template == 2 && i + 1 == pres.len() && i > 0 {
				serde_avro_fast::to_datum_vec(p, &mut pre).map_err(|e| format!("to_datum: {e}")).and_then(|d| w.push_serialized(&d, 1).map_err(|e| format!("push_serialized of value #{i} returned Err: {e}")))
			} else {
				w.serialize(p).map_err(|e| format!("serialize of value #{i} returned Err: {e}"))
			};
			if let Err(e) = step {
				r = Err(e);
				break;
			}
			if case.template == 2 && i == 0 {
				if let Err(e) = w.finish_block() {
					r = Err(format!("finish_block returned Err: {e}"));
					break;
				}
			}
		}
		match r {
			Ok(()) => w.into_inner().map_err(|e| format!("into_inner returned Err: {e}")),
			Err(e) => {
				let _ = catch_unwind(AssertUnwindSafe(move || drop(w)));
				Err(e)
			}
		}
	})
}

fn drain<'de, R>(src: R, hints: &[Hint]) -> Result<Vec<O>, String>
where
	R: serde_avro_fast::de::read::Read + Take + std::io::BufRead + ReadSlice<'de>,
	<R as Take>::Take: std::io::BufRead + ReadSlice<'de>,
{
	let mut rd = Reader::new(src).map_err(|e| format!("opening the reader failed: {e}"))?;
	let mut out = Vec::new();
	for (i, h) in hints.iter().enumerate() {
		match rd.deserialize_seed_next(ObsSeed(h)) {
			Ok(Some(o)) => out.push(o),
			Ok(None) => return Err(format!("end of stream after {i} of {} values", hints.len())),
			Err(e) => return Err(format!("Err after {i} of {} values: {e}", hints.len())),
		}
	}
	for k in 0..2 {
		match rd.deserialize_seed_next(ObsSeed(&Hint::Any)) {
			Ok(None) => {}
			Ok(Some(o)) => return Err(format!("after all {} values: call #{k} yields another value {o:?} instead of end of stream", hints.len())),
			Err(e) => return Err(format!("after all {} values: call #{k} yields Err({e}) instead of end of stream", hints.len())),
		}
	}
	Ok(out)
}

fn read(bytes: &[u8], rk: Rk, hints: &[Hint]) -> Out<Vec<O>> {
	guarded(|| match rk {
		Rk::Slice => drain(SliceRead::new(bytes), hints),
		Rk::SliceBufRead => drain(ReaderRead::new(bytes), hints),
		Rk::BufReader(c) => drain(ReaderRead::new(std::io::BufReader::with_capacity(c, bytes)), hints),
		Rk::Chunked(k) => drain(ReaderRead::new(ChunkedBufRead::uniform(bytes, k)), hints),
	})
}

pub fn run_case(case: &LeafCase, cover: &mut Cover, out: &mut Vec<Violation>, verbose: bool) {
	let (s, name) = schema(case.schema);
	let env = Env::new(&s);
	let text = gen::schema_text(&s);
	let label = format!("codec={} schema={name} {text} template={} ", case.codec.name(), ["one block", "one block per value (approx_block_size 0)", "[v0, finish_block, v1.., push_serialized(last)] approx_block_size 24"][case.template as usize % 3]);
	let replay = json!({"check": "C05", "leaf": case});
	let mut viol = |class: &str, what: String| {
		if verbose {
			println!("  VIOLATES [{class}] {what}");
		}
		if out.len() < 200 {
			out.push(Violation { class: class.to_owned(), what: format!("{label}: {what}"), replay: replay.clone() });
		}
	};
	let crate_schema = match gen::to_crate_schema(&s) {
		Ok(c) => c,
		Err(e) => return viol("leaf-schema-rejected", e),
	};
	let vals = values(&s, &env, case.n_values);
	let pres: Vec<Pres> = vals.iter().map(|v| gen::pres_of(v, &s, &env, UnionStyle::ByTypeWhereUnambiguous, RecordStyle::Struct)).collect();
	cover.evaluations += 1;
	cover.impl_runs += 1;
	cover.states += vals.len() as u64 + 1;
	cover.transitions += vals.len() as u64;
	cover.count("leaf_cases", 1);
	let vals_text = truncate(&format!("{vals:?}"), 500);
	let bytes = match write(case, &crate_schema, &pres) {
		Out::Ok(b) => b,
		Out::Err(e) => return viol("leaf-write-err", format!("{e}; values {vals_text}")),
		Out::Panic(p) => return viol("leaf-write-panic", format!("the writer panicked: {p}; values {vals_text}")),
	};
	if verbose {
		println!("  values: {vals_text}");
		println!("  file ({} bytes): {}", bytes.len(), truncate(&hex(&bytes), 900));
	}
	cover.outcomes.insert(hash64(&bytes));
	// independent parse + reference datum decoder
	let parsed = match cf_parse(&bytes) {
		Ok(p) => p,
		Err(e) => return viol("leaf-file-unparseable", format!("the independent parser rejects the {}-byte file: {e}; values {vals_text}", bytes.len())),
	};
	let mut got: Vec<RValue> = Vec::new();
	for (bi, b) in parsed.blocks.iter().enumerate() {
		let mut at = 0usize;
		for k in 0..b.count {
			match vmodel::value::decode(&b.data[at..], &s, &env) {
				Verdict::Valid(v, n) => {
					got.push(v);
					at += n;
				}
				other => return viol("leaf-file-values-differ", format!("block #{bi}: datum #{k} at offset {at} of [{}] is not a valid encoding: {other:?}; values written {vals_text}", truncate(&hex(&b.data), 300))),
			}
		}
		if at != b.data.len() {
			return viol("leaf-file-values-differ", format!("block #{bi}: {} datums use {at} of {} bytes", b.count, b.data.len()));
		}
	}
	if got != vals {
		let i = got.iter().zip(vals.iter()).position(|(a, b)| a != b).unwrap_or(got.len().min(vals.len()));
		return viol("leaf-file-values-differ", format!("the independent parser finds {} values, {} written; first difference at #{i}: found {:?}, written {:?}", got.len(), vals.len(), got.get(i), vals.get(i)));
	}
	if parsed.blocks.len() >= 2 {
		cover.count("leaf_files_with_2_or_more_blocks", 1);
	}
	cover.nontrivial.insert(hash64(case));
	if cover.samples.len() < 1 && case.schema == 12 && case.codec == Codec::Snappy && case.template == 2 {
		cover.sample(json!({"family": "leaf kinds", "file": label, "values": vals_text, "blocks": parsed.blocks.iter().map(|b| (b.count, b.raw.len())).collect::<Vec<_>>()}));
	}
	// read back
	let fixed_width = has_fixed_width_leaf(&s);
	for mode in [ObsMode::Any, ObsMode::Hinted] {
		let hints: Vec<Hint> = vals.iter().map(|v| gen::hint_for(v, &s, &env, mode)).collect();
		let want: Vec<O> = vals.iter().map(|v| gen::expect_obs(v, &s, &env, mode, false).unborrowed()).collect();
		for rk in [Rk::Slice, Rk::SliceBufRead, Rk::BufReader(1), Rk::BufReader(7), Rk::BufReader(8192), Rk::Chunked(3)] {
			cover.impl_runs += 1;
			cover.states += 1;
			cover.transitions += vals.len() as u64 + 2;
			let r = read(&bytes, rk, &hints);
			if verbose {
				println!("  reader {:<26} mode {mode:?} -> {}", rk.label(), match &r { Out::Ok(o) => format!("{} values, end of stream twice", o.len()), Out::Err(e) => format!("Err: {e}"), Out::Panic(p) => format!("panic: {p}") });
			}
			match r {
				Out::Ok(obs) => {
					let obs: Vec<O> = obs.iter().map(|o| o.unborrowed()).collect();
					if obs != want {
						let i = obs.iter().zip(want.iter()).position(|(a, b)| a != b).unwrap_or(0);
						viol("leaf-read-differs", format!("reader {} (mode {mode:?}): value #{i} observed as {:?}, expected {:?} (written {:?}); file {} bytes, {} block(s)", rk.label(), obs.get(i), want.get(i), vals.get(i), bytes.len(), parsed.blocks.len()));
					} else {
						cover.count("leaf_reads_ok", 1);
						if rk == Rk::Slice && fixed_width && matches!(case.codec, Codec::Null | Codec::Snappy) {
							cover.count(&format!("leaf_slice_reads_ok_of_fixed_width_leaves(codec={})", case.codec.name()), 1);
						}
					}
				}
				Out::Err(e) => viol("leaf-read-err", format!("reader {} (mode {mode:?}): {e}; the file ({} bytes, {} block(s)) parses correctly with the independent parser; values written {vals_text}", rk.label(), bytes.len(), parsed.blocks.len())),
				Out::Panic(p) => viol("leaf-read-panic", format!("reader {} (mode {mode:?}) panicked: {p}; values written {vals_text}", rk.label())),
			}
		}
	}
}

pub fn cases(thorough: bool) -> Vec<LeafCase> {
	let mut v = Vec::new();
	for schema in 0..N_SCHEMAS {
		for codec in Codec::ALL {
			for template in 0..3u8 {
				v.push(LeafCase { schema, codec, template, n_values: if thorough { 24 } else { 6 } });
				if thorough {
					v.push(LeafCase { schema, codec, template, n_values: 3 });
				}
			}
		}
	}
	v
}
