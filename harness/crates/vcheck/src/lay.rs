//! Shared by C03 and C12: enumeration of block layouts (a planner on top of
//! `vmodel::value::PickLayout`, driven by the `Chooser`), deterministic "wide" values for the
//! layout sweeps, schema renaming, a tracer that locates the syntactic points of an encoding,
//! and the decision whether the logical reading of a decoded value is defined.

use crate::explore::Chooser;
use crate::gen;
use vmodel::schema::{Env, Logical, RSchema};
use vmodel::value::{Block, Canonical, Layout, PickLayout, RValue};

// ---------------------------------------------------------------------------------------------
// Layout planning

/// Sizes of all array/map occurrences of `v` in the order in which `vmodel::value::encode` asks the
/// layout for their blocks (pre-order).
pub fn collection_sizes(v: &RValue, out: &mut Vec<usize>) {
	match v {
		RValue::Array(items) => {
			out.push(items.len());
			items.iter().for_each(|i| collection_sizes(i, out));
		}
		RValue::Map(items) => {
			out.push(items.len());
			items.iter().for_each(|(_, i)| collection_sizes(i, out));
		}
		RValue::Union(_, inner) => collection_sizes(inner, out),
		RValue::Record(fields) => fields.iter().for_each(|f| collection_sizes(f, out)),
		_ => {}
	}
}

/// Number of map nodes in a value.
pub fn count_maps(v: &RValue) -> usize {
	match v {
		RValue::Map(items) => 1 + items.iter().map(|(_, i)| count_maps(i)).sum::<usize>(),
		RValue::Array(items) | RValue::Record(items) => items.iter().map(count_maps).sum(),
		RValue::Union(_, inner) => count_maps(inner),
		_ => 0,
	}
}

pub fn count_collections(v: &RValue) -> usize {
	let mut s = Vec::new();
	collection_sizes(v, &mut s);
	s.len()
}

/// Number of block layouts of a collection of n items: every composition of n into blocks times
/// every sign assignment = 2·3^(n-1) (1 for the empty collection).
pub fn layout_options(n: usize) -> u64 {
	if n == 0 {
		1
	} else {
		2u64.saturating_mul(3u64.saturating_pow(n as u32 - 1))
	}
}

/// Which occurrences get *all* their layouts enumerated jointly: greedily from occurrence `start`
/// on, as long as the product of the numbers of layouts stays <= `cap`; the others are written in
/// the canonical one-block layout.
pub fn plan_from(sizes: &[usize], cap: u64, start: usize) -> Vec<bool> {
	let mut plan = vec![false; sizes.len()];
	let mut product: u64 = 1;
	for i in start..sizes.len() {
		let o = layout_options(sizes[i]);
		if product.saturating_mul(o) <= cap {
			product *= o;
			plan[i] = true;
		}
	}
	plan
}

/// All distinct plans (one per start occurrence): every occurrence is enumerated in at least one of
/// them (if its own number of layouts fits the cap at all). A single plan if everything fits.
pub fn plans(sizes: &[usize], cap: u64) -> Vec<Vec<bool>> {
	let mut out: Vec<Vec<bool>> = Vec::new();
	for start in 0..sizes.len().max(1) {
		let p = plan_from(sizes, cap, start);
		if start > 0 && !p.iter().any(|x| *x) {
			continue;
		}
		if !out.contains(&p) {
			out.push(p);
		}
		if start == 0 && out[0].iter().all(|x| *x) {
			break;
		}
	}
	out
}

/// A `Layout` that enumerates (through `PickLayout` and the chooser) the occurrences selected by
/// the plan, writes the others canonically, and records what every occurrence got.
pub struct PlanLayout<'p> {
	pub ch: &'p mut Chooser,
	pub plan: Vec<bool>,
	pub idx: usize,
	pub record: Vec<Vec<Block>>,
}
impl<'p> PlanLayout<'p> {
	pub fn new(ch: &'p mut Chooser, plan: Vec<bool>) -> Self {
		PlanLayout { ch, plan, idx: 0, record: Vec::new() }
	}
}
impl<'p> Layout for PlanLayout<'p> {
	fn blocks(&mut self, n: usize) -> Vec<Block> {
		let enumerate = self.plan.get(self.idx).copied().unwrap_or(false);
		self.idx += 1;
		let b = if enumerate { PickLayout { p: &mut *self.ch, max_items: usize::MAX, noncanonical: 0 }.blocks(n) } else { Canonical.blocks(n) };
		self.record.push(b.clone());
		b
	}
}

/// Encode `v` with every layout allowed by the plan cap (the chooser enumerates the plans, then the
/// layouts of the planned occurrences). Returns (bytes, recorded layouts, one plan covers all).
pub fn encode_enumerated(v: &RValue, s: &RSchema, env: &Env, ch: &mut Chooser, cap: u64) -> (Vec<u8>, Vec<Vec<Block>>, bool) {
	let mut sizes = Vec::new();
	collection_sizes(v, &mut sizes);
	let mut ps = plans(&sizes, cap);
	let all = ps.len() == 1 && ps[0].iter().all(|x| *x);
	let k = if ps.len() > 1 { ch.pick(ps.len()) } else { 0 };
	let the_plan = ps.swap_remove(k);
	let mut l = PlanLayout::new(ch, the_plan);
	let bytes = vmodel::value::encode(v, s, env, &mut l).unwrap_or_else(|e| panic!("MACHINERY: reference encoder rejects generated value {v:?}: {e}"));
	(bytes, l.record, all)
}

/// `explore`, restricted to the subtree below a fixed prefix of picks (to split one schema's tree
/// over several workers). Empty prefix: the whole tree.
pub fn explore_below(fixed: &[usize], max_leaves: u64, mut f: impl FnMut(&mut Chooser) -> bool) -> crate::explore::TreeStats {
	let mut stats = crate::explore::TreeStats::default();
	let floor = fixed.len();
	let mut prefix: Vec<usize> = fixed.to_vec();
	let mut shared = 0usize;
	loop {
		let mut ch = Chooser::new(prefix.clone(), None);
		let cont = f(&mut ch);
		stats.leaves += 1;
		stats.nodes += (ch.trace.len() - shared.min(ch.trace.len())) as u64;
		if !cont || stats.leaves >= max_leaves {
			stats.capped = ch.trace.iter().skip(floor).any(|&(c, n, _)| c + 1 < n);
			return stats;
		}
		let mut i = ch.trace.len();
		loop {
			if i <= floor {
				return stats;
			}
			i -= 1;
			let (c, n, _) = ch.trace[i];
			if c + 1 < n {
				prefix = ch.trace[..i].iter().map(|t| t.0).collect();
				prefix.push(c + 1);
				shared = i;
				break;
			}
		}
	}
}

/// All pick prefixes of length <= `depth` that partition the choice tree of the case builder `f`
/// (a prefix is shorter than `depth` only if the execution makes no further pick).
pub fn split_prefixes(depth: usize, mut f: impl FnMut(&mut Chooser)) -> Vec<Vec<usize>> {
	let mut out = Vec::new();
	let mut stack: Vec<Vec<usize>> = vec![vec![]];
	while let Some(p) = stack.pop() {
		if p.len() >= depth {
			out.push(p);
			continue;
		}
		let mut ch = Chooser::new(p.clone(), None);
		f(&mut ch);
		match ch.trace.get(p.len()) {
			None => out.push(p),
			Some(&(_, arity, _)) => {
				for k in (0..arity).rev() {
					let mut q = p.clone();
					q.push(k);
					stack.push(q);
				}
			}
		}
	}
	out
}

pub fn layout_text(rec: &[Vec<Block>]) -> String {
	let mut out = String::new();
	for (i, bl) in rec.iter().enumerate() {
		if i > 0 {
			out.push(' ');
		}
		out.push('[');
		for (j, b) in bl.iter().enumerate() {
			if j > 0 {
				out.push(',');
			}
			if b.sized {
				out.push_str(&format!("-{}+size", b.items));
			} else {
				out.push_str(&format!("{}", b.items));
			}
		}
		out.push(']');
	}
	out
}

pub fn layout_nontrivial(rec: &[Vec<Block>]) -> bool {
	rec.iter().any(|bl| bl.len() >= 2 || bl.iter().any(|b| b.sized))
}

// ---------------------------------------------------------------------------------------------
// Deterministic wide values (for the layout sweeps): collections at collection-depth 0 get `n_top`
// items, deeper ones `n_inner`; leaves rotate through the reduced boundary alphabets of `gen`.

/// One leaf value of `s`, the `ctr`-th of the reduced alphabet (rotating).
fn leaf_rot(s: &RSchema, env: &Env, ctr: &mut usize) -> RValue {
	let mut c0 = Chooser::new(vec![], None);
	let v0 = gen::gen_value(s, env, &mut c0, false, 0, 0);
	if c0.trace.is_empty() {
		return v0;
	}
	let arity = c0.trace[0].1;
	let k = *ctr % arity;
	*ctr += 1;
	let mut c1 = Chooser::new(vec![k], None);
	gen::gen_value(s, env, &mut c1, false, 0, 0)
}

pub fn wide_value(s: &RSchema, env: &Env, n_top: usize, n_inner: usize, ctr: &mut usize, depth: usize, rec_budget: usize) -> RValue {
	use RSchema as S;
	match s {
		S::Ref(_) => wide_value(env.resolve(s), env, n_top, n_inner, ctr, depth, rec_budget),
		S::Array(item) => {
			let n = if depth == 0 { n_top } else { n_inner };
			RValue::Array((0..n).map(|_| wide_value(item, env, n_top, n_inner, ctr, depth + 1, rec_budget)).collect())
		}
		S::Map(item) => {
			let n = if depth == 0 { n_top } else { n_inner };
			let keys = ["k", "", "clé2", "k3", "k4", "k5", "k6", "k7"];
			RValue::Map((0..n).map(|i| (keys[i % keys.len()].to_owned(), wide_value(item, env, n_top, n_inner, ctr, depth + 1, rec_budget))).collect())
		}
		S::Union(branches) => {
			let mut idxs: Vec<usize> = (0..branches.len()).collect();
			if rec_budget == 0 {
				let t: Vec<usize> = idxs.iter().copied().filter(|&i| !matches!(branches[i], S::Ref(_))).collect();
				if !t.is_empty() {
					idxs = t;
				}
			}
			let i = idxs[*ctr % idxs.len()];
			*ctr += 1;
			RValue::Union(i, Box::new(wide_value(&branches[i], env, n_top, n_inner, ctr, depth, rec_budget)))
		}
		S::Record { fields, .. } => RValue::Record(
			fields
				.iter()
				.map(|(_, f)| {
					let budget = if gen::contains_ref(f) { rec_budget.saturating_sub(1) } else { rec_budget };
					if rec_budget == 0 && matches!(f, S::Array(_)) && gen::contains_ref(f) {
						return RValue::Array(vec![]);
					}
					wide_value(f, env, n_top, n_inner, ctr, depth, budget)
				})
				.collect(),
		),
		_ => leaf_rot(s, env, ctr),
	}
}

/// Does the schema contain an array or a map (following references once)?
pub fn has_collection(s: &RSchema, env: &Env, fuel: usize) -> bool {
	match s {
		RSchema::Array(_) | RSchema::Map(_) => true,
		RSchema::Ref(_) => fuel > 0 && has_collection(env.resolve(s), env, fuel - 1),
		RSchema::Union(v) => v.iter().any(|b| has_collection(b, env, fuel)),
		RSchema::Record { fields, .. } => fields.iter().any(|(_, f)| has_collection(f, env, fuel)),
		_ => false,
	}
}

// ---------------------------------------------------------------------------------------------
// Renaming (to use a schema twice in one document)

pub fn rename(s: &RSchema, suffix: &str) -> RSchema {
	use RSchema as S;
	match s {
		S::Array(i) => S::Array(Box::new(rename(i, suffix))),
		S::Map(i) => S::Map(Box::new(rename(i, suffix))),
		S::Union(v) => S::Union(v.iter().map(|b| rename(b, suffix)).collect()),
		S::Record { name, fields } => S::Record { name: format!("{name}{suffix}"), fields: fields.iter().map(|(n, f)| (n.clone(), rename(f, suffix))).collect() },
		S::Enum { name, symbols } => S::Enum { name: format!("{name}{suffix}"), symbols: symbols.clone() },
		S::Fixed { name, size } => S::Fixed { name: format!("{name}{suffix}"), size: *size },
		S::Ref(n) => S::Ref(format!("{n}{suffix}")),
		S::Logical(l, b) => S::Logical(l.clone(), Box::new(rename(b, suffix))),
		p => p.clone(),
	}
}

// ---------------------------------------------------------------------------------------------
// Tracer: the syntactic points of a (valid) encoding. Only used to decide *where* to damage an
// encoding; what the damaged bytes mean is always decided by `vmodel::value::decode`.

#[derive(Clone, Debug, PartialEq)]
pub enum PointKind {
	/// one boolean byte
	Bool,
	/// content of a string / uuid / map key: `len` bytes at `off`
	StrContent { key: bool },
	/// union branch index (varint); `n` = number of branches
	UnionIdx(usize),
	/// enum symbol index (varint); `n` = number of symbols
	EnumIdx(usize),
	/// length prefix of bytes / string / map key (varint)
	Len { key: bool },
	/// block count of an array/map (varint), incl. the terminating 0; minimal encoded size of one item
	BlockCount { min_item: usize },
}

#[derive(Clone, Debug)]
pub struct Point {
	pub kind: PointKind,
	pub off: usize,
	pub len: usize,
}

/// Smallest possible encoding of a value of `s` in bytes (0 for null, empty records, fixed(0) …).
pub fn min_size(s: &RSchema, env: &Env, fuel: usize) -> usize {
	use RSchema as S;
	let s = env.resolve(s).base();
	let s = env.resolve(s).base();
	match s {
		S::Null => 0,
		S::Boolean | S::Int | S::Long | S::Bytes | S::String | S::Enum { .. } | S::Array(_) | S::Map(_) => 1,
		S::Float => 4,
		S::Double => 8,
		S::Fixed { size, .. } => *size,
		S::Union(b) => 1 + b.iter().map(|x| if fuel == 0 { 0 } else { min_size(x, env, fuel - 1) }).min().unwrap_or(0),
		S::Record { fields, .. } => {
			if fuel == 0 {
				0
			} else {
				fields.iter().map(|(_, f)| min_size(f, env, fuel - 1)).sum()
			}
		}
		S::Ref(_) | S::Logical(..) => unreachable!(),
	}
}

struct T<'a> {
	b: &'a [u8],
	i: usize,
	env: &'a Env<'a>,
	out: Vec<Point>,
	/// offsets at which a token (varint, fixed-size field, content region) ends
	bounds: Vec<usize>,
	/// per array/map occurrence (pre-order, as `collection_sizes`): the blocks' bodies
	spans: Vec<Vec<BlockSpan>>,
}

/// Where the items of one block of an array/map lie in the encoding.
#[derive(Clone, Copy, Debug, PartialEq, Eq)]
pub struct BlockSpan {
	/// offset of the first item byte (after the count and, if present, the byte size)
	pub start: usize,
	/// offset just past the last item byte
	pub end: usize,
	/// written with a negative count followed by the byte size
	pub sized: bool,
}

impl<'a> T<'a> {
	fn varint(&mut self) -> Option<(i64, usize, usize)> {
		let start = self.i;
		let mut u: u64 = 0;
		let mut shift = 0;
		loop {
			let b = *self.b.get(self.i)?;
			self.i += 1;
			if shift < 64 {
				u |= ((b & 0x7f) as u64) << shift;
			}
			shift += 7;
			if b & 0x80 == 0 {
				break;
			}
			if self.i - start >= 10 {
				return None;
			}
		}
		self.bounds.push(self.i);
		Some((vmodel::value::unzigzag(u), start, self.i - start))
	}
	fn take(&mut self, n: usize) -> Option<usize> {
		if n > self.b.len() - self.i {
			return None;
		}
		let s = self.i;
		self.i += n;
		self.bounds.push(self.i);
		Some(s)
	}
	fn len_prefixed(&mut self, content_is_text: bool, key: bool) -> Option<()> {
		let (l, off, len) = self.varint()?;
		self.out.push(Point { kind: PointKind::Len { key }, off, len });
		if l < 0 {
			return None;
		}
		let s = self.take(l as usize)?;
		if content_is_text {
			self.out.push(Point { kind: PointKind::StrContent { key }, off: s, len: l as usize });
		}
		Some(())
	}
	fn walk(&mut self, s: &'a RSchema) -> Option<()> {
		use RSchema as S;
		let s = self.env.resolve(s).base();
		let s = self.env.resolve(s).base();
		match s {
			S::Null => {}
			S::Boolean => {
				let off = self.take(1)?;
				self.out.push(Point { kind: PointKind::Bool, off, len: 1 });
			}
			S::Int | S::Long => {
				self.varint()?;
			}
			S::Float => {
				self.take(4)?;
			}
			S::Double => {
				self.take(8)?;
			}
			S::Bytes => self.len_prefixed(false, false)?,
			S::String => self.len_prefixed(true, false)?,
			S::Fixed { size, .. } => {
				self.take(*size)?;
			}
			S::Enum { symbols, .. } => {
				let (_, off, len) = self.varint()?;
				self.out.push(Point { kind: PointKind::EnumIdx(symbols.len()), off, len });
			}
			S::Union(branches) => {
				let (i, off, len) = self.varint()?;
				self.out.push(Point { kind: PointKind::UnionIdx(branches.len()), off, len });
				let b = branches.get(usize::try_from(i).ok()?)?;
				self.walk(b)?;
			}
			S::Record { fields, .. } => {
				for (_, f) in fields {
					self.walk(f)?;
				}
			}
			S::Array(item) | S::Map(item) => {
				let is_map = matches!(s, S::Map(_));
				let min_item = min_size(item, self.env, 4) + usize::from(is_map);
				let occ = self.spans.len();
				self.spans.push(Vec::new());
				loop {
					let (c, off, len) = self.varint()?;
					self.out.push(Point { kind: PointKind::BlockCount { min_item }, off, len });
					if c == 0 {
						break;
					}
					if c < 0 {
						self.varint()?;
					}
					let start = self.i;
					for _ in 0..c.unsigned_abs() {
						if is_map {
							self.len_prefixed(true, true)?;
						}
						self.walk(item)?;
					}
					self.spans[occ].push(BlockSpan { start, end: self.i, sized: c < 0 });
				}
			}
			S::Ref(_) | S::Logical(..) => unreachable!(),
		}
		Some(())
	}
}

/// Points and token boundaries of the encoding `bytes` of a value of `s`; `None` if the walk fails
/// (not an encoding).
pub fn trace(bytes: &[u8], s: &RSchema, env: &Env) -> Option<(Vec<Point>, Vec<usize>)> {
	let mut t = T { b: bytes, i: 0, env, out: Vec::new(), bounds: Vec::new(), spans: Vec::new() };
	t.walk(s)?;
	if t.i != bytes.len() {
		return None;
	}
	Some((t.out, t.bounds))
}

/// Byte ranges of the blocks of every array/map occurrence of the encoding `bytes` (occurrences in
/// the pre-order of `collection_sizes` / of the recorded layouts); `None` if not an encoding.
pub fn trace_blocks(bytes: &[u8], s: &RSchema, env: &Env) -> Option<Vec<Vec<BlockSpan>>> {
	let mut t = T { b: bytes, i: 0, env, out: Vec::new(), bounds: Vec::new(), spans: Vec::new() };
	t.walk(s)?;
	if t.i != bytes.len() {
		return None;
	}
	Some(t.spans)
}

// ---------------------------------------------------------------------------------------------
// Is the logical reading of a (base-)valid value defined, within the crate's documented limits?

fn is_canonical_uuid(s: &str) -> bool {
	let b = s.as_bytes();
	b.len() == 36 && b.iter().enumerate().all(|(i, c)| if matches!(i, 8 | 13 | 18 | 23) { *c == b'-' } else { c.is_ascii_hexdigit() })
}

const M96: i128 = (1i128 << 96) - 1;

/// `Err(reason)`: the specification / the documented limits do not define what this decodes to.
pub fn logical_defined(v: &RValue, s: &RSchema, env: &Env) -> Result<(), String> {
	let r = env.resolve(s);
	if let RSchema::Logical(l, b) = r {
		return match (l, v) {
			(Logical::Decimal { scale, .. }, RValue::Bytes(raw)) | (Logical::Decimal { scale, .. }, RValue::Fixed(raw)) => match vmodel::value::be_to_i128(raw) {
				None => Err("decimal longer than 16 bytes (documented limit)".into()),
				Some(u) if u.abs() > M96 => Err("decimal mantissa above 96 bits (documented limit)".into()),
				Some(_) if *scale > 28 => Err("decimal scale above 28 (documented limit)".into()),
				Some(_) => Ok(()),
			},
			(Logical::BigDecimal, RValue::Bytes(raw)) => match vmodel::value::parse_big_decimal(raw) {
				None => Err("big-decimal payload not in the Java layout / longer than 16 bytes".into()),
				Some((u, sc)) if u.abs() > M96 || !(0..=28).contains(&sc) => Err("big-decimal beyond the documented limits".into()),
				Some(_) => Ok(()),
			},
			(Logical::Uuid, RValue::Str(st)) => {
				if is_canonical_uuid(st) {
					Ok(())
				} else {
					Err("uuid string not in canonical form".into())
				}
			}
			_ => logical_defined(v, b, env),
		};
	}
	match (r, v) {
		(RSchema::Array(item), RValue::Array(items)) => items.iter().try_for_each(|i| logical_defined(i, item, env)),
		(RSchema::Map(item), RValue::Map(items)) => items.iter().try_for_each(|(_, i)| logical_defined(i, item, env)),
		(RSchema::Record { fields, .. }, RValue::Record(vals)) => fields.iter().zip(vals).try_for_each(|((_, f), v)| logical_defined(v, f, env)),
		(RSchema::Union(branches), RValue::Union(i, inner)) => logical_defined(inner, &branches[*i], env),
		_ => Ok(()),
	}
}

// ---------------------------------------------------------------------------------------------
// Logical types that must be IGNORED. The specification: "Language implementations must ignore
// unknown logical types when reading, and should use the underlying Avro type. If a logical type is
// invalid, for example a decimal with scale greater than its precision, then implementations
// should ignore the logical type and use the underlying Avro type."
// `vmodel::schema::resolve_text` keeps every annotation it reads; the rule of applicability below is
// added on top of it, from the specification's per-type definitions.

/// Largest precision a two's-complement fixed of `size` bytes can hold: floor(log10(2^(8·size-1) - 1)).
pub fn max_decimal_precision_of_fixed(size: usize) -> usize {
	if size == 0 {
		return 0;
	}
	(((8 * size - 1) as f64) * std::f64::consts::LOG10_2).floor() as usize
}

/// Is the annotation valid for this underlying type, per the specification's definition of each
/// logical type (Avro 1.11; `uuid` only on string)?
pub fn logical_applicable(l: &Logical, base: &RSchema) -> bool {
	match (l, base) {
		(Logical::Decimal { precision, scale }, RSchema::Bytes) => *precision >= 1 && (*scale as usize) <= *precision,
		(Logical::Decimal { precision, scale }, RSchema::Fixed { size, .. }) => *precision >= 1 && (*scale as usize) <= *precision && *precision <= max_decimal_precision_of_fixed(*size),
		(Logical::BigDecimal, RSchema::Bytes) => true,
		(Logical::Uuid, RSchema::String) => true,
		(Logical::Date | Logical::TimeMillis, RSchema::Int) => true,
		(Logical::TimeMicros | Logical::TimestampMillis | Logical::TimestampMicros, RSchema::Long) => true,
		(Logical::Duration, RSchema::Fixed { size, .. }) => *size == 12,
		_ => false,
	}
}

/// The schema as the specification reads it: annotations that are unknown or not valid for their
/// underlying type are dropped, the underlying type remains.
pub fn spec_effective(s: &RSchema) -> RSchema {
	use RSchema as S;
	match s {
		S::Logical(l, b) => {
			let b = spec_effective(b);
			if logical_applicable(l, &b) {
				S::Logical(l.clone(), Box::new(b))
			} else {
				b
			}
		}
		S::Array(i) => S::Array(Box::new(spec_effective(i))),
		S::Map(i) => S::Map(Box::new(spec_effective(i))),
		S::Union(v) => S::Union(v.iter().map(spec_effective).collect()),
		S::Record { name, fields } => S::Record { name: name.clone(), fields: fields.iter().map(|(n, f)| (n.clone(), spec_effective(f))).collect() },
		other => other.clone(),
	}
}

/// Schema text -> the specification's reading of it.
pub fn resolve_effective(text: &str) -> Result<RSchema, String> {
	let cfg = vmodel::schema::ResolveCfg { allow_forward: false, allow_leading_dot: false };
	Ok(spec_effective(&vmodel::schema::resolve_text(text, &cfg)?))
}

/// Schemas (as text: the shared AST alphabet cannot spell them) whose logical type the
/// specification says to ignore: (label "logical on underlying", schema text). Named types are
/// numbered so that several of them can live in one document.
/// Pairs for which no verdict is given (DESIGN.md §7): a decimal annotation on bytes / fixed whose
/// *parameters* are invalid (precision < 1, scale > precision, precision beyond what the fixed can
/// hold). The specification says implementations "should" ignore such an annotation; the crate
/// applies it (observation O5). What the crate does is still recorded in the evidence table.
pub fn ignored_logical_no_verdict(label: &str) -> bool {
	label.starts_with("decimal(") && (label.contains(" on bytes") || label.contains(" on fixed("))
}

pub fn ignored_logical_texts() -> Vec<(String, String)> {
	let mut out: Vec<(String, String)> = Vec::new();
	let mut k = 0;
	let mut fixed = |size: usize, attrs: &str| {
		k += 1;
		format!("{{\"type\":\"fixed\",\"name\":\"IgnFx{k}\",\"size\":{size},{attrs}}}")
	};
	for size in [0usize, 4, 11, 13, 16] {
		out.push((format!("duration on fixed({size})"), fixed(size, "\"logicalType\":\"duration\"")));
	}
	out.push(("duration on bytes".into(), "{\"type\":\"bytes\",\"logicalType\":\"duration\"}".into()));
	// decimals that are invalid for their underlying type
	out.push(("decimal(precision 0) on bytes".into(), "{\"type\":\"bytes\",\"logicalType\":\"decimal\",\"precision\":0}".into()));
	out.push(("decimal(precision 2, scale 5) on bytes".into(), "{\"type\":\"bytes\",\"logicalType\":\"decimal\",\"precision\":2,\"scale\":5}".into()));
	out.push(("decimal(precision 0) on fixed(2)".into(), fixed(2, "\"logicalType\":\"decimal\",\"precision\":0")));
	out.push(("decimal(precision 2, scale 3) on fixed(2)".into(), fixed(2, "\"logicalType\":\"decimal\",\"precision\":2,\"scale\":3")));
	out.push(("decimal(precision 4) on fixed(1)".into(), fixed(1, "\"logicalType\":\"decimal\",\"precision\":4")));
	out.push(("decimal(precision 5, scale 2) on fixed(2)".into(), fixed(2, "\"logicalType\":\"decimal\",\"precision\":5,\"scale\":2")));
	out.push(("decimal(precision 4) on string".into(), "{\"type\":\"string\",\"logicalType\":\"decimal\",\"precision\":4}".into()));
	out.push(("decimal(precision 4) on long".into(), "{\"type\":\"long\",\"logicalType\":\"decimal\",\"precision\":4}".into()));
	// logical types on the wrong underlying type
	for (l, under) in [
		("uuid", "bytes"),
		("uuid", "int"),
		("date", "long"),
		("date", "string"),
		("time-millis", "long"),
		("time-micros", "int"),
		("timestamp-millis", "int"),
		("timestamp-micros", "int"),
		("timestamp-micros", "bytes"),
		("big-decimal", "string"),
		("big-decimal", "int"),
	] {
		out.push((format!("{l} on {under}"), format!("{{\"type\":\"{under}\",\"logicalType\":\"{l}\"}}")));
	}
	out.push(("big-decimal on fixed(3)".into(), fixed(3, "\"logicalType\":\"big-decimal\"")));
	out.push(("uuid on fixed(3)".into(), fixed(3, "\"logicalType\":\"uuid\"")));
	out.push(("date on fixed(4)".into(), fixed(4, "\"logicalType\":\"date\"")));
	// an unknown logical type on every kind of underlying type
	for under in ["null", "boolean", "int", "long", "float", "double", "bytes", "string"] {
		out.push((format!("unknown on {under}"), format!("{{\"type\":\"{under}\",\"logicalType\":\"verif-unknown\"}}")));
	}
	out.push(("unknown on fixed(3)".into(), fixed(3, "\"logicalType\":\"verif-unknown\"")));
	k += 1;
	out.push(("unknown on enum".into(), format!("{{\"type\":\"enum\",\"name\":\"IgnEn{k}\",\"symbols\":[\"a\",\"b\"],\"logicalType\":\"verif-unknown\"}}")));
	out.push(("unknown on array".into(), "{\"type\":\"array\",\"items\":\"int\",\"logicalType\":\"verif-unknown\"}".into()));
	out.push(("unknown on map".into(), "{\"type\":\"map\",\"values\":\"int\",\"logicalType\":\"verif-unknown\"}".into()));
	k += 1;
	out.push(("unknown on record".into(), format!("{{\"type\":\"record\",\"name\":\"IgnRec{k}\",\"fields\":[{{\"name\":\"a\",\"type\":\"int\"}}],\"logicalType\":\"verif-unknown\"}}")));
	out
}
