//! Container-file *writer* histories on real `Writer` objects (shared by C15 and C16):
//! the datum schema, the operation alphabet, an executor that replays a history against a
//! harness-owned sink and reports after every call, and the reference inspection of what the
//! sink holds (`vmodel::container::cf_parse` + `vmodel::value::decode` per datum).

use crate::gen;
use crate::pres::{self, Pres};
use crate::subj::{guarded, panic_message, Out};
use serde_avro_fast::object_container_file_encoding::{Compression, CompressionLevel, Writer, WriterBuilder};
use serde_avro_fast::ser::SerializerConfig;
use std::io::Write;
use std::panic::{catch_unwind, AssertUnwindSafe};
use vmodel::schema::{Env, RSchema};
use vmodel::value::{Canonical, RValue, Verdict};

/// Every history builds a fresh writer (block buffer of 5/4 x approx_block_size, 32 KiB codec
/// output buffers, xz/bzip2 encoder states): keep freed memory in the process instead of
/// returning it to the kernel after every history (page-fault storms otherwise dominate).
pub fn tune_allocator() {
	unsafe {
		libc::mallopt(libc::M_MMAP_THRESHOLD, 1 << 30);
		libc::mallopt(libc::M_TRIM_THRESHOLD, 1 << 30);
		libc::mallopt(libc::M_TOP_PAD, 64 << 20);
	}
}

/// A failure of the harness itself: never a verdict.
pub fn machinery(msg: &str) -> ! {
	eprintln!("MACHINERY: {msg}");
	std::process::exit(2)
}

/// The pinned sync marker (the crate's only nondeterminism).
pub const SYNC: [u8; 16] = *b"VERIF-SYNC-MARK!";

pub const CODECS_QUICK: [&str; 3] = ["null", "deflate", "snappy"];
pub const CODECS_ALL: [&str; 6] = ["null", "deflate", "snappy", "bzip2", "xz", "zstandard"];

pub fn compression(codec: &str) -> Compression {
	// lowest levels: the codec *framing* and the writer's bookkeeping are under test here, not
	// the compression ratio (an xz level-6 encoder costs milliseconds per block)
	let l1 = CompressionLevel::new(1);
	match codec {
		"null" => Compression::Null,
		"deflate" => Compression::Deflate { level: l1 },
		"snappy" => Compression::Snappy,
		"bzip2" => Compression::Bzip2 { level: l1 },
		"xz" => Compression::Xz { level: l1 },
		"zstandard" => Compression::Zstandard { level: l1 },
		other => machinery(&format!("unknown codec {other}")),
	}
}

/// One writer operation. Values are numbered by the number of datums accepted so far (field
/// `a`), so every datum of a file is distinct and loss / duplication / reordering is observable,
/// while a failing call does not shift the numbering of the values after it.
#[derive(Clone, Copy, Debug, PartialEq, Eq, Hash, PartialOrd, Ord)]
pub enum Op {
	/// `serialize` of the small record, fields presented in schema order
	Small,
	/// `serialize` of the big record ("block-sized" for all block sizes but 64 Ki)
	Big,
	/// the small record with the fields of every record level presented in *reverse* schema
	/// order (n{q, p}, b, xs, a): every field but the last presented is put aside in a pooled
	/// side buffer; the bytes are the same as for `Small`
	SmallRev,
	/// the big record presented as a, n{q, p}, b, xs: `a` goes straight to the block buffer,
	/// `n` and `b` are put aside until `xs` arrives; the bytes are the same as for `Big`
	BigMix,
	/// `serialize` of the small record (schema order) whose k-th nested `Serialize::serialize`
	/// call fails (k = 0: before anything is emitted; k >= 2: after field `a` has been emitted)
	Fail(u8),
	/// the same with the fields presented in reverse order (serde call indices: 0 root, 1 n,
	/// 2 q, 3 p, 4 b, 5 xs, 6 "x", 7 "yz", 8 a): for k >= 4 the failure happens while fields put
	/// aside in pooled side buffers are outstanding
	FailRev(u8),
	/// `serialize` of a record whose last field has the wrong type (genuine schema mismatch
	/// after `a` and `xs` have been emitted)
	BadType,
	/// `serialize` of a record whose array advertises 3 elements and delivers 2
	BadLen,
	/// `serialize` (schema order) of a record whose field `b` is a poorly compressible string of
	/// this many KiB (7-bit characters from a fixed xorshift sequence): used by the fixed
	/// large-block templates only, not part of the enumerated alphabets
	Huge(u8),
	/// `push_serialized(one datum, 1)`
	Push1,
	/// `push_serialized(two datums, 2)`
	Push2,
	/// `finish_block`
	Finish,
	/// `into_inner` (terminal)
	IntoInner,
	/// drop the writer (terminal)
	Drop,
}

impl Op {
	pub fn terminal(self) -> bool {
		matches!(self, Op::IntoInner | Op::Drop)
	}
	pub fn failing(self) -> bool {
		matches!(self, Op::Fail(_) | Op::FailRev(_) | Op::BadType | Op::BadLen)
	}
	pub fn name(self) -> String {
		match self {
			Op::Small => "ser_small".into(),
			Op::Big => "ser_big".into(),
			Op::SmallRev => "ser_small_rev".into(),
			Op::BigMix => "ser_big_mix".into(),
			Op::Huge(kib) => format!("ser_huge({kib})"),
			Op::Fail(k) => format!("ser_fail_at({k})"),
			Op::FailRev(k) => format!("ser_fail_rev({k})"),
			Op::BadType => "ser_bad_type".into(),
			Op::BadLen => "ser_bad_len".into(),
			Op::Push1 => "push_serialized(1)".into(),
			Op::Push2 => "push_serialized(2)".into(),
			Op::Finish => "finish_block".into(),
			Op::IntoInner => "into_inner".into(),
			Op::Drop => "drop".into(),
		}
	}
	pub fn parse(s: &str) -> Option<Op> {
		Some(match s {
			"ser_small" => Op::Small,
			"ser_big" => Op::Big,
			"ser_small_rev" => Op::SmallRev,
			"ser_big_mix" => Op::BigMix,
			"ser_bad_type" => Op::BadType,
			"ser_bad_len" => Op::BadLen,
			"push_serialized(1)" => Op::Push1,
			"push_serialized(2)" => Op::Push2,
			"finish_block" => Op::Finish,
			"into_inner" => Op::IntoInner,
			"drop" => Op::Drop,
			other => {
				if let Some(k) = other.strip_prefix("ser_huge(") {
					return Some(Op::Huge(k.strip_suffix(')')?.parse().ok()?));
				}
				if let Some(k) = other.strip_prefix("ser_fail_rev(") {
					return Some(Op::FailRev(k.strip_suffix(')')?.parse().ok()?));
				}
				let k = other.strip_prefix("ser_fail_at(")?.strip_suffix(')')?.parse().ok()?;
				Op::Fail(k)
			}
		})
	}
}

pub fn hist_names(h: &[Op]) -> Vec<String> {
	h.iter().map(|o| o.name()).collect()
}

pub fn hist_parse(v: &serde_json::Value) -> Option<Vec<Op>> {
	v.as_array()?.iter().map(|s| s.as_str().and_then(Op::parse)).collect()
}

/// All non-terminal operations for this datum (the BFS / enumeration alphabet without
/// `into_inner` / `drop`).
pub fn nonterminal_ops(d: &Datum) -> Vec<Op> {
	let mut v = vec![Op::Small, Op::Big];
	if d.is_record {
		v.extend([Op::SmallRev, Op::BigMix]);
	}
	v.extend((0..d.fail_points).map(Op::Fail));
	if d.is_record {
		v.extend((0..d.fail_points).map(Op::FailRev));
	}
	v.push(Op::BadType);
	if d.is_record {
		v.push(Op::BadLen);
	}
	v.extend([Op::Push1, Op::Push2, Op::Finish]);
	v
}

/// A sub-alphabet for the deepest level of the enumerations: one failure point before and one
/// after bytes were emitted per presentation order, the genuine mismatch after emitted bytes.
pub fn reduced_ops(d: &Datum) -> Vec<Op> {
	if !d.is_record {
		return nonterminal_ops(d);
	}
	vec![Op::Small, Op::Big, Op::SmallRev, Op::BigMix, Op::Fail(0), Op::Fail(4), Op::FailRev(5), Op::FailRev(8), Op::BadLen, Op::Push1, Op::Push2, Op::Finish]
}

/// The datum schema and its fixed value shapes.
pub struct Datum {
	pub id: &'static str,
	pub schema: RSchema,
	pub schema_text: String,
	pub crate_schema: serde_avro_fast::Schema,
	/// record-with-array datum (false: the zero-byte datum of schema `null`)
	pub is_record: bool,
	/// number of nested `Serialize::serialize` calls of the small value
	pub fail_points: u8,
	pub small_len: usize,
	pub big_len: usize,
}

const BIG_X: &str = "0123456789012345678901234567890123456789";
const BIG_B: &str = "abcdefghijklmnopqrstuvwxyz";

impl Datum {
	/// `record R { a: long, xs: array<string>, b: string, n: record N { p: long, q: string } }`
	pub fn new() -> Datum {
		let nested = RSchema::record("verif.N", vec![("p", RSchema::Long), ("q", RSchema::String)]);
		let schema = RSchema::record("verif.R", vec![("a", RSchema::Long), ("xs", RSchema::array(RSchema::String)), ("b", RSchema::String), ("n", nested)]);
		Self::make("record", schema, true, 9)
	}
	/// schema `null`: every datum is zero bytes long, a block is a count and nothing else
	pub fn null() -> Datum {
		Self::make("null", RSchema::Null, false, 1)
	}
	pub fn by_id(id: &str) -> Option<Datum> {
		match id {
			"record" => Some(Self::new()),
			"null" => Some(Self::null()),
			_ => None,
		}
	}
	fn make(id: &'static str, schema: RSchema, is_record: bool, fail_points: u8) -> Datum {
		let schema_text = gen::schema_text(&schema);
		let crate_schema = gen::to_crate_schema(&schema).unwrap_or_else(|e| machinery(&e));
		let mut d = Datum { id, schema, schema_text, crate_schema, is_record, fail_points, small_len: 0, big_len: 0 };
		d.small_len = d.encode(&d.small(0)).len();
		d.big_len = d.encode(&d.big(0)).len();
		d
	}
	fn rec(&self, a: i64, xs: &[&str], b: &str, p: i64, q: &str) -> RValue {
		if !self.is_record {
			return RValue::Null;
		}
		RValue::Record(vec![
			RValue::Long(a),
			RValue::Array(xs.iter().map(|s| RValue::Str(s.to_string())).collect()),
			RValue::Str(b.to_owned()),
			RValue::Record(vec![RValue::Long(p), RValue::Str(q.to_owned())]),
		])
	}
	/// `n` = number of datums accepted before this one (0..=63 keeps every length fixed)
	pub fn small(&self, n: usize) -> RValue {
		self.rec(n as i64 % 64, &["x", "yz"], "s", 7, "q")
	}
	pub fn big(&self, n: usize) -> RValue {
		self.rec(n as i64 % 64, &[BIG_X, "b"], BIG_B, 8192, "nested")
	}
	/// a record whose `b` is `kib` KiB of 7-bit characters from a fixed xorshift64 sequence (seeded
	/// by the size, no randomness at run time): about 7/8 of its size after entropy coding
	pub fn huge(&self, n: usize, kib: u8) -> RValue {
		let mut x: u64 = 0x9e37_79b9_7f4a_7c15 ^ ((kib as u64) << 32 | kib as u64);
		let len = kib as usize * 1024;
		let mut b = String::with_capacity(len);
		while b.len() < len {
			x ^= x << 13;
			x ^= x >> 7;
			x ^= x << 17;
			for byte in x.to_le_bytes() {
				if b.len() < len {
					b.push((byte & 0x7f) as char);
				}
			}
		}
		self.rec(n as i64 % 64, &["h"], &b, 1, "h")
	}
	pub fn pushed(&self, n: usize) -> RValue {
		self.rec(-1 - (n as i64 % 64), &["p"], "", 0, "")
	}
	pub fn encode(&self, v: &RValue) -> Vec<u8> {
		let env = Env::new(&self.schema);
		vmodel::value::encode(v, &self.schema, &env, &mut Canonical).unwrap_or_else(|e| machinery(&format!("reference encoder: {e}")))
	}
	pub fn pres(&self, v: &RValue) -> Pres {
		let env = Env::new(&self.schema);
		gen::pres_of(v, &self.schema, &env, gen::UnionStyle::ByName, gen::RecordStyle::Struct)
	}
	/// the same value with the fields of every record level presented in reverse schema order
	pub fn pres_rev(&self, v: &RValue) -> Pres {
		fn rev(p: Pres) -> Pres {
			match p {
				Pres::Struct { name, fields } => Pres::Struct { name, fields: fields.into_iter().rev().map(|(k, v)| (k, rev(v))).collect() },
				other => other,
			}
		}
		rev(self.pres(v))
	}
	/// first field in place, the remaining fields in reverse order, nested records reversed
	pub fn pres_mix(&self, v: &RValue) -> Pres {
		match self.pres_rev(v) {
			Pres::Struct { name, mut fields } => {
				if let Some(first) = fields.pop() {
					fields.insert(0, first);
				}
				Pres::Struct { name, fields }
			}
			other => other,
		}
	}
	/// the block sizes of DESIGN §4 C15: 0, 1, |datum|, |datum|+1, |big|+1, 64 Ki
	pub fn block_sizes(&self) -> Vec<u32> {
		let mut v = vec![0, 1, self.small_len as u32, self.small_len as u32 + 1, self.big_len as u32 + 1, 64 * 1024];
		v.sort();
		v.dedup();
		v
	}
}

/// What one call did, as seen by the caller.
#[derive(Clone, Debug)]
pub struct CallRecord {
	/// None = `WriterBuilder::build`
	pub op: Option<Op>,
	pub result: Out<()>,
	/// hook H3 after the call (None when the writer is gone or the call panicked)
	pub hook: Option<(u64, bool, usize)>,
	/// the values this call handed to the writer (accepted iff `result` is Ok)
	pub values: Vec<RValue>,
	/// not an operation of the history: the executor dropped the writer (under catch_unwind)
	/// after an operation panicked, so that what the writer still flushes can be inspected
	pub drop_after_panic: bool,
}

impl CallRecord {
	pub fn op_name(&self) -> String {
		if self.drop_after_panic {
			return "drop(after the panic)".to_owned();
		}
		self.op.map_or("build".to_owned(), |o| o.name())
	}
}

/// Drop something whose destructor may panic (a writer on a failing sink in a build with debug
/// assertions); the outcome is returned, not judged here.
pub fn drop_quietly<T>(t: T) -> Result<(), String> {
	catch_unwind(AssertUnwindSafe(move || drop(t))).map_err(panic_message)
}

/// Replay `ops` on a fresh writer over `sink`. `after(call_index, record)` is invoked after the
/// build (index 0) and after every operation (index i+1) and returns `false` to stop the
/// history there. `dispose()` is called before a still-living writer is dropped by the executor
/// itself (end of a history without terminal operation, or early stop): that drop is not part
/// of the history. After an operation that panicked the writer is dropped under catch_unwind and
/// reported as a record with `drop_after_panic` set. Returns the pool shape of the serializer
/// configuration after the writer is gone.
pub fn run_history<W: Write>(d: &Datum, codec: &str, block_size: u32, sink: W, ops: &[Op], after: &mut dyn FnMut(usize, &CallRecord) -> bool, dispose: &mut dyn FnMut()) -> PoolShape {
	let mut config = SerializerConfig::new(&d.crate_schema);
	run_history_on(d, &mut config, codec, block_size, sink, ops, after, dispose);
	// the writer is gone: the serializer configuration can be looked at (hook H4)
	let (bufs, supers) = config.verif_pools();
	PoolShape { buffers: bufs.iter().map(|b| b.0).collect(), super_buffers: supers.iter().map(|b| b.0).collect() }
}

#[allow(clippy::too_many_arguments)]
fn run_history_on<'c, 's, W: Write>(d: &Datum, config: &'c mut SerializerConfig<'s>, codec: &str, block_size: u32, sink: W, ops: &[Op], after: &mut dyn FnMut(usize, &CallRecord) -> bool, dispose: &mut dyn FnMut()) {
	let mut accepted = 0usize;
	let mut writer: Option<Writer<'c, 's, W>> = None;
	let built = {
		let slot = &mut writer;
		guarded(move || {
			let w = WriterBuilder::new(config).compression(compression(codec)).approx_block_size(block_size).sync_marker(SYNC).build(sink).map_err(|e| e.to_string())?;
			*slot = Some(w);
			Ok(())
		})
	};
	let rec = CallRecord { op: None, hook: writer.as_ref().map(|w| w.verif_state()), result: built, values: vec![], drop_after_panic: false };
	let go = after(0, &rec);
	if !go || writer.is_none() {
		if let Some(w) = writer.take() {
			dispose();
			let _ = drop_quietly(w);
		}
		return;
	}
	for (i, &op) in ops.iter().enumerate() {
		let mut values: Vec<RValue> = Vec::new();
		let result: Out<()> = match op {
			Op::Small | Op::Big | Op::SmallRev | Op::BigMix | Op::Huge(_) => {
				let v = match op {
					Op::Small | Op::SmallRev => d.small(accepted),
					Op::Huge(kib) => {
						if !d.is_record {
							machinery("ser_huge needs the record datum");
						}
						d.huge(accepted, kib)
					}
					_ => d.big(accepted),
				};
				let p = match op {
					Op::SmallRev => d.pres_rev(&v),
					Op::BigMix => d.pres_mix(&v),
					_ => d.pres(&v),
				};
				values.push(v);
				let w = writer.as_mut().unwrap();
				guarded(|| w.serialize(&p).map_err(|e| e.to_string()))
			}
			Op::Fail(k) | Op::FailRev(k) => {
				let v = d.small(accepted);
				let p = if matches!(op, Op::FailRev(_)) { d.pres_rev(&v) } else { d.pres(&v) };
				values.push(v);
				let w = writer.as_mut().unwrap();
				let (r, calls) = pres::with_failure(Some(k as usize), || guarded(|| w.serialize(&p).map_err(|e| e.to_string())));
				// (calls == 0: the writer returned before attempting the value, e.g. a pending flush failed)
				if !r.is_panic() && calls > 0 && calls <= k as usize {
					machinery(&format!("failure point {k} never reached ({calls} serialize calls)"));
				}
				r
			}
			Op::BadType | Op::BadLen => {
				let v = d.small(accepted);
				let mut p = d.pres(&v);
				match &mut p {
					Pres::Struct { fields, .. } => {
						if op == Op::BadType {
							fields[2].1 = Pres::I64(7);
						} else if let Pres::Seq { len, .. } = &mut fields[1].1 {
							*len = Some(3);
						}
					}
					_ if op == Op::BadType => p = Pres::I64(7),
					_ => machinery("ser_bad_len needs the record datum"),
				}
				values.push(v);
				let w = writer.as_mut().unwrap();
				guarded(|| w.serialize(&p).map_err(|e| e.to_string()))
			}
			Op::Push1 | Op::Push2 => {
				let n = if op == Op::Push1 { 1 } else { 2 };
				let mut bytes = Vec::new();
				for j in 0..n {
					let v = d.pushed(accepted + j);
					bytes.extend_from_slice(&d.encode(&v));
					values.push(v);
				}
				let w = writer.as_mut().unwrap();
				guarded(|| w.push_serialized(&bytes, n as u64).map_err(|e| e.to_string()))
			}
			Op::Finish => {
				let w = writer.as_mut().unwrap();
				guarded(|| w.finish_block().map_err(|e| e.to_string()))
			}
			Op::IntoInner => {
				let w = writer.take().unwrap();
				guarded(move || w.into_inner().map(|_sink| ()).map_err(|e| e.to_string()))
			}
			Op::Drop => {
				let w = writer.take().unwrap();
				guarded(move || {
					drop(w);
					Ok(())
				})
			}
		};
		// the numbering advances for every value handed over by an operation of the ok-alphabet,
		// also when the call returns Err because of the sink (the value may still reach the file)
		if result.is_ok() || (result.is_err() && !op.failing()) {
			accepted += values.len();
		}
		let alive = writer.is_some() && !result.is_panic();
		let panicked = result.is_panic();
		let rec = CallRecord { op: Some(op), hook: if alive { writer.as_ref().map(|w| w.verif_state()) } else { None }, result, values, drop_after_panic: false };
		let go = after(i + 1, &rec);
		if panicked {
			// the panic bypassed the writer's own error handling: drop the writer under
			// catch_unwind and let the caller inspect what it still flushed
			if let Some(w) = writer.take() {
				let r = match drop_quietly(w) {
					Ok(()) => Out::Ok(()),
					Err(m) => Out::Panic(m),
				};
				let rec = CallRecord { op: Some(Op::Drop), hook: None, result: r, values: vec![], drop_after_panic: true };
				after(i + 2, &rec);
			}
		}
		if !go || !alive {
			break;
		}
	}
	let rest = writer.take();
	if let Some(w) = rest {
		dispose();
		let _ = drop_quietly(w);
	}
}

/// Lengths of the buffers pooled in the `SerializerConfig` once the writer is gone.
#[derive(Clone, Debug, Default, PartialEq, Eq, Hash)]
pub struct PoolShape {
	pub buffers: Vec<usize>,
	pub super_buffers: Vec<usize>,
}

impl PoolShape {
	/// lengths of the pooled buffers that are not empty (none, in a quiescent configuration)
	pub fn dirty(&self) -> Vec<usize> {
		self.buffers.iter().chain(&self.super_buffers).copied().filter(|&l| l > 0).collect()
	}
}

/// What the sink holds, according to the reference parser.
pub struct Inspected {
	/// all datums of all blocks, in file order
	pub values: Vec<RValue>,
	/// object count per block
	pub block_counts: Vec<u64>,
	/// stored (codec-framed) size of every block
	pub block_stored_sizes: Vec<usize>,
}

/// Reference inspection: complete header with the right schema / codec / sync marker, whole
/// blocks only, every block holds exactly `count` datums that the reference decoder accepts and
/// nothing else.
pub fn inspect(d: &Datum, codec: &str, bytes: &[u8]) -> Result<Inspected, String> {
	let f = vmodel::container::cf_parse(bytes)?;
	if f.sync != SYNC {
		return Err("header: sync marker is not the pinned one".into());
	}
	if f.codec != codec {
		return Err(format!("header: avro.codec is {:?}, writer was built with {codec:?}", f.codec));
	}
	match f.meta_get("avro.schema") {
		None => return Err("header: avro.schema missing".into()),
		Some(s) => {
			let got = std::str::from_utf8(s).map_err(|e| format!("header: avro.schema: {e}")).and_then(|t| vmodel::json::parse(t).map_err(|e| format!("header: avro.schema: {e}")))?;
			let want = vmodel::json::parse(&d.schema_text).expect("own schema text");
			if got != want {
				return Err(format!("header: avro.schema is {} instead of {}", got.to_min_string(), want.to_min_string()));
			}
		}
	}
	let env = Env::new(&d.schema);
	let mut values = Vec::new();
	let mut block_counts = Vec::new();
	let mut block_stored_sizes = Vec::new();
	for (bi, b) in f.blocks.iter().enumerate() {
		let mut at = 0usize;
		for k in 0..b.count {
			match vmodel::value::decode(&b.data[at..], &d.schema, &env) {
				Verdict::Valid(v, n) => {
					values.push(v);
					at += n;
				}
				other => return Err(format!("block {bi} (count {}, {} data bytes): datum {k} at offset {at} does not decode: {other:?}", b.count, b.data.len())),
			}
		}
		if at != b.data.len() {
			return Err(format!("block {bi}: count says {} objects, they end at offset {at} of {} data bytes", b.count, b.data.len()));
		}
		block_counts.push(b.count);
		block_stored_sizes.push(b.raw.len());
	}
	Ok(Inspected { values, block_counts, block_stored_sizes })
}
