//! Explorers: stateless DFS over a choice tree (SAE), deviation-bounded environment
//! exploration (ENV), explicit-state BFS over histories (HIST).

use std::collections::{BTreeMap, HashSet, VecDeque};
use std::hash::{Hash, Hasher};

/// Decisions of one execution. `pick` = ordinary enumeration choice; `dev` = environment
/// deviation point (default answer 0; any other answer costs one unit of the deviation budget).
pub struct Chooser {
	prefix: Vec<usize>,
	/// (choice, arity, is_dev)
	pub trace: Vec<(usize, usize, bool)>,
	dev_budget: Option<usize>,
	pub devs_used: usize,
	/// set when the run must not be advanced past the prefix (replay mode)
	strict: bool,
}

impl Chooser {
	pub fn new(prefix: Vec<usize>, dev_budget: Option<usize>) -> Self {
		Chooser { prefix, trace: Vec::new(), dev_budget, devs_used: 0, strict: false }
	}
	pub fn replay(prefix: Vec<usize>) -> Self {
		Chooser { prefix, trace: Vec::new(), dev_budget: None, devs_used: 0, strict: true }
	}
	fn next(&mut self, n: usize, is_dev: bool) -> usize {
		assert!(n >= 1, "pick(0)");
		let pos = self.trace.len();
		let c = if pos < self.prefix.len() { self.prefix[pos] } else { 0 };
		if c >= n {
			// A prefix recorded by a previous run of the same deterministic closure cannot go out
			// of range: this is nondeterminism in the harness, a machinery error.
			panic!("MACHINERY: replayed choice {c} out of range {n} at position {pos} (nondeterministic case builder)");
		}
		let _ = self.strict;
		self.trace.push((c, n, is_dev));
		c
	}
	pub fn pick(&mut self, n: usize) -> usize {
		self.next(n, false)
	}
	pub fn flag(&mut self) -> bool {
		self.pick(2) == 1
	}
	pub fn choose<'a, T>(&mut self, items: &'a [T]) -> &'a T {
		&items[self.pick(items.len())]
	}
	/// Environment deviation point with `n` possible answers, answer 0 being the default.
	pub fn dev(&mut self, n: usize) -> usize {
		let exhausted = self.dev_budget.map_or(false, |b| self.devs_used >= b);
		// Past the replayed prefix an exhausted budget leaves only the default answer.
		let pos = self.trace.len();
		let arity = if exhausted && pos >= self.prefix.len() { 1 } else { n };
		let c = self.next(arity.max(1), true);
		if c != 0 {
			self.devs_used += 1;
		}
		c
	}
	pub fn choices(&self) -> Vec<usize> {
		self.trace.iter().map(|t| t.0).collect()
	}
}

impl vmodel::Pick for Chooser {
	fn pick(&mut self, n: usize) -> usize {
		Chooser::pick(self, n)
	}
}

#[derive(Default, Clone, Debug)]
pub struct TreeStats {
	/// distinct nodes of the choice tree visited (excluding the root)
	pub nodes: u64,
	/// leaves = complete executions
	pub leaves: u64,
	/// set if the walk stopped on a cap
	pub capped: bool,
}

/// Walk the whole choice tree of `f` depth-first. `f` returns `false` to abort the walk
/// (cap reached); returns stats. With `dev_budget = Some(d)` only executions with at most d
/// deviations exist in the tree.
pub fn explore(dev_budget: Option<usize>, max_leaves: u64, mut f: impl FnMut(&mut Chooser) -> bool) -> TreeStats {
	let mut stats = TreeStats::default();
	let mut prefix: Vec<usize> = Vec::new();
	let mut shared = 0usize; // number of leading trace positions shared with the previous run
	loop {
		let mut ch = Chooser::new(prefix.clone(), dev_budget);
		let cont = f(&mut ch);
		stats.leaves += 1;
		stats.nodes += (ch.trace.len() - shared.min(ch.trace.len())) as u64;
		if !cont || stats.leaves >= max_leaves {
			// was this the last leaf anyway?
			let more = ch.trace.iter().any(|&(c, n, _)| c + 1 < n);
			stats.capped = more;
			return stats;
		}
		// advance: rightmost incrementable position
		let mut i = ch.trace.len();
		loop {
			if i == 0 {
				return stats;
			}
			i -= 1;
			let (c, n, is_dev) = ch.trace[i];
			if c + 1 < n {
				// incrementing a default dev answer costs budget: check
				if is_dev && c == 0 {
					if let Some(b) = dev_budget {
						let used_before: usize = ch.trace[..i].iter().filter(|t| t.2 && t.0 != 0).count();
						if used_before >= b {
							continue;
						}
					}
				}
				prefix = ch.trace[..i].iter().map(|t| t.0).collect();
				prefix.push(c + 1);
				shared = i;
				break;
			}
		}
	}
}

pub fn hash64<T: Hash>(t: &T) -> u64 {
	let mut h = std::collections::hash_map::DefaultHasher::new();
	t.hash(&mut h);
	h.finish()
}

/// Coverage accumulated by a check (mergeable across parallel work units).
#[derive(Default, Clone)]
pub struct Cover {
	pub states: u64,
	pub transitions: u64,
	pub evaluations: u64,
	pub impl_runs: u64,
	pub nontrivial: HashSet<u64>,
	pub outcomes: HashSet<u64>,
	pub samples: Vec<serde_json::Value>,
	pub counters: BTreeMap<String, u64>,
	pub caps: Vec<String>,
}

impl Cover {
	pub fn add_tree(&mut self, t: &TreeStats, what: &str) {
		self.states += t.nodes + 1;
		self.transitions += t.nodes;
		if t.capped {
			self.caps.push(format!("{what}: leaf cap hit after {} leaves", t.leaves));
		}
	}
	pub fn count(&mut self, k: &str, n: u64) {
		*self.counters.entry(k.to_owned()).or_insert(0) += n;
	}
	pub fn sample(&mut self, v: serde_json::Value) {
		if self.samples.len() < 6 {
			self.samples.push(v);
		}
	}
	pub fn merge(&mut self, o: Cover) {
		self.states += o.states;
		self.transitions += o.transitions;
		self.evaluations += o.evaluations;
		self.impl_runs += o.impl_runs;
		self.nontrivial.extend(o.nontrivial);
		self.outcomes.extend(o.outcomes);
		for s in o.samples {
			if self.samples.len() < 12 {
				self.samples.push(s);
			}
		}
		for (k, v) in o.counters {
			*self.counters.entry(k).or_insert(0) += v;
		}
		self.caps.extend(o.caps);
	}
}

/// Explicit-state BFS over histories. A state is reached by re-executing its history
/// (`build`), which returns the exact key of the state and whether the invariant holds.
pub struct Bfs<Op> {
	pub states: u64,
	pub transitions: u64,
	pub max_depth: usize,
	pub violations: Vec<(Vec<Op>, String)>,
}

pub fn bfs<Op: Clone, K: Hash + Eq>(
	ops: &[Op],
	depth: usize,
	max_states: u64,
	mut build: impl FnMut(&[Op]) -> (K, Result<(), String>, bool),
) -> (Bfs<Op>, bool) {
	// build(history) -> (key, invariant, expandable)
	let mut seen: HashSet<u64> = HashSet::new();
	let mut out = Bfs { states: 0, transitions: 0, max_depth: 0, violations: Vec::new() };
	let mut frontier: VecDeque<Vec<Op>> = VecDeque::new();
	let (k0, inv0, _) = build(&[]);
	seen.insert(hash64(&k0));
	out.states = 1;
	if let Err(e) = inv0 {
		out.violations.push((vec![], e));
	}
	frontier.push_back(vec![]);
	let mut capped = false;
	while let Some(hist) = frontier.pop_front() {
		if hist.len() >= depth {
			continue;
		}
		for op in ops {
			let mut h = hist.clone();
			h.push(op.clone());
			let (k, inv, expandable) = build(&h);
			out.transitions += 1;
			if let Err(e) = inv {
				if out.violations.len() < 50 {
					out.violations.push((h.clone(), e));
				}
			}
			if seen.insert(hash64(&k)) {
				out.states += 1;
				out.max_depth = out.max_depth.max(h.len());
				if expandable {
					frontier.push_back(h);
				}
				if out.states >= max_states {
					capped = true;
					return (out, capped);
				}
			}
		}
	}
	(out, capped)
}

#[cfg(test)]
mod tests {
	use super::*;
	#[test]
	fn full_tree() {
		let mut seen = Vec::new();
		let st = explore(None, u64::MAX, |c| {
			let a = c.pick(2);
			let b = if a == 1 { c.pick(3) } else { 0 };
			seen.push((a, b));
			true
		});
		assert_eq!(seen, vec![(0, 0), (1, 0), (1, 1), (1, 2)]);
		assert_eq!(st.leaves, 4);
		assert_eq!(st.nodes, 2 + 3);
	}
	#[test]
	fn dev_bound() {
		for (bound, expect) in [(0usize, 1u64), (1, 1 + 3 * 2), (2, 1 + 6 + 3 * 4)] {
			let st = explore(Some(bound), u64::MAX, |c| {
				for _ in 0..3 {
					c.dev(3);
				}
				true
			});
			assert_eq!(st.leaves, expect, "bound {bound}");
		}
	}
}
