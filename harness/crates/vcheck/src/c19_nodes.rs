//! C19 — node-vector cases: a harness-side description of a `SchemaMut` node vector
//! (`NodeSpec`), its rendering, its translation to the crate's public builder API, and a
//! harness-side structural analysis (used only to *describe* cases, never to judge them).

use serde_avro_fast::schema::{Array, Decimal, Enum, Fixed, LogicalType, Map, Name, Record, RecordField, RegularType, SchemaKey, SchemaNode, Union, UnknownLogicalType};

#[derive(Clone, Debug, PartialEq)]
pub enum Kind {
	Null,
	Boolean,
	Int,
	Long,
	Float,
	Double,
	Bytes,
	String,
	Array(usize),
	Map(usize),
	Union(Vec<usize>),
	Record(Vec<(String, usize)>),
	Enum(Vec<String>),
	Fixed(usize),
}

#[derive(Clone, Debug, PartialEq)]
pub enum Lt {
	Decimal(u32, usize),
	Uuid,
	Date,
	TimeMillis,
	TimeMicros,
	TimestampMillis,
	TimestampMicros,
	Duration,
	BigDecimal,
	Unknown(String),
}

#[derive(Clone, Debug, PartialEq)]
pub struct NodeSpec {
	pub kind: Kind,
	/// fully qualified name handed to `Name::from_fully_qualified_name`; None = "R<i>" / "E<i>" / "F<i>"
	pub name: Option<String>,
	pub logical: Option<Lt>,
}

impl NodeSpec {
	pub fn plain(kind: Kind) -> NodeSpec {
		NodeSpec { kind, name: None, logical: None }
	}
	pub fn keys(&self) -> Vec<usize> {
		match &self.kind {
			Kind::Array(k) | Kind::Map(k) => vec![*k],
			Kind::Union(v) => v.clone(),
			Kind::Record(f) => f.iter().map(|x| x.1).collect(),
			_ => vec![],
		}
	}
	pub fn keys_mut(&mut self) -> Vec<&mut usize> {
		match &mut self.kind {
			Kind::Array(k) | Kind::Map(k) => vec![k],
			Kind::Union(v) => v.iter_mut().collect(),
			Kind::Record(f) => f.iter_mut().map(|x| &mut x.1).collect(),
			_ => vec![],
		}
	}
	pub fn named(&self) -> bool {
		matches!(self.kind, Kind::Record(_) | Kind::Enum(_) | Kind::Fixed(_))
	}
	pub fn name_at(&self, i: usize) -> String {
		match (&self.name, &self.kind) {
			(Some(n), _) => n.clone(),
			(None, Kind::Record(_)) => format!("R{i}"),
			(None, Kind::Enum(_)) => format!("E{i}"),
			(None, _) => format!("F{i}"),
		}
	}
}

fn key_text(k: usize) -> String {
	if k == usize::MAX {
		"#usize::MAX".to_owned()
	} else if k >= 1 << 63 {
		format!("#(1<<63)|{}", k ^ (1 << 63))
	} else {
		format!("#{k}")
	}
}

fn usize_text(k: usize) -> String {
	if k == usize::MAX {
		"usize::MAX".to_owned()
	} else {
		k.to_string()
	}
}

/// One line, unambiguous: `[#0 Array(items=#0), #1 Record("R1"){f:#0}]`
pub fn render(nodes: &[NodeSpec]) -> String {
	let mut s = String::from("[");
	for (i, n) in nodes.iter().enumerate() {
		if i > 0 {
			s.push_str(", ");
		}
		s.push_str(&format!("#{i} "));
		match &n.kind {
			Kind::Null => s.push_str("Null"),
			Kind::Boolean => s.push_str("Boolean"),
			Kind::Int => s.push_str("Int"),
			Kind::Long => s.push_str("Long"),
			Kind::Float => s.push_str("Float"),
			Kind::Double => s.push_str("Double"),
			Kind::Bytes => s.push_str("Bytes"),
			Kind::String => s.push_str("String"),
			Kind::Array(k) => s.push_str(&format!("Array(items={})", key_text(*k))),
			Kind::Map(k) => s.push_str(&format!("Map(values={})", key_text(*k))),
			Kind::Union(v) => s.push_str(&format!("Union[{}]", v.iter().map(|k| key_text(*k)).collect::<Vec<_>>().join(","))),
			Kind::Record(f) => s.push_str(&format!("Record({:?}){{{}}}", n.name_at(i), f.iter().map(|(n, k)| format!("{n:?}:{}", key_text(*k))).collect::<Vec<_>>().join(","))),
			Kind::Enum(sy) => s.push_str(&format!("Enum({:?}){:?}", n.name_at(i), sy)),
			Kind::Fixed(sz) => s.push_str(&format!("Fixed({:?},size={})", n.name_at(i), usize_text(*sz))),
		}
		match &n.logical {
			None => {}
			Some(Lt::Decimal(sc, pr)) => s.push_str(&format!("+decimal(scale={},precision={})", if *sc == u32::MAX { "u32::MAX".to_owned() } else { sc.to_string() }, usize_text(*pr))),
			Some(Lt::Unknown(u)) => s.push_str(&format!("+unknown({u:?})")),
			Some(l) => s.push_str(&format!("+{l:?}")),
		}
	}
	s.push(']');
	s
}

/// Translate to the crate's public builder types.
pub fn build(nodes: &[NodeSpec]) -> Vec<SchemaNode> {
	nodes
		.iter()
		.enumerate()
		.map(|(i, n)| {
			let name = || Name::from_fully_qualified_name(n.name_at(i));
			let k = SchemaKey::from_idx;
			let t = match &n.kind {
				Kind::Null => RegularType::Null,
				Kind::Boolean => RegularType::Boolean,
				Kind::Int => RegularType::Int,
				Kind::Long => RegularType::Long,
				Kind::Float => RegularType::Float,
				Kind::Double => RegularType::Double,
				Kind::Bytes => RegularType::Bytes,
				Kind::String => RegularType::String,
				Kind::Array(x) => RegularType::Array(Array::new(k(*x))),
				Kind::Map(x) => RegularType::Map(Map::new(k(*x))),
				Kind::Union(v) => RegularType::Union(Union::new(v.iter().map(|x| k(*x)).collect())),
				Kind::Record(f) => RegularType::Record(Record::new(name(), f.iter().map(|(fname, x)| RecordField::new(fname.clone(), k(*x))).collect())),
				Kind::Enum(sy) => RegularType::Enum(Enum::new(name(), sy.clone())),
				Kind::Fixed(sz) => RegularType::Fixed(Fixed::new(name(), *sz)),
			};
			match &n.logical {
				None => SchemaNode::new(t),
				Some(l) => SchemaNode::with_logical_type(
					t,
					match l {
						Lt::Decimal(sc, pr) => LogicalType::Decimal(Decimal::new(*sc, *pr)),
						Lt::Uuid => LogicalType::Uuid,
						Lt::Date => LogicalType::Date,
						Lt::TimeMillis => LogicalType::TimeMillis,
						Lt::TimeMicros => LogicalType::TimeMicros,
						Lt::TimestampMillis => LogicalType::TimestampMillis,
						Lt::TimestampMicros => LogicalType::TimestampMicros,
						Lt::Duration => LogicalType::Duration,
						Lt::BigDecimal => LogicalType::BigDecimal,
						Lt::Unknown(u) => LogicalType::Unknown(UnknownLogicalType::new(u.clone())),
					},
				),
			}
		})
		.collect()
}

#[derive(Clone, Copy, Default, Debug)]
pub struct Features {
	pub empty: bool,
	pub dangling: bool,
	/// a cycle consisting only of array/map/union nodes is met by a depth-first walk from the
	/// root (children in order, every named node expanded on its first visit only) before the
	/// walk meets a dangling key
	pub unnamed_cycle_from_root: bool,
	/// some cycle of in-range keys exists anywhere in the vector
	pub any_cycle: bool,
	/// a cycle through at least one named node is reachable from the root
	pub named_cycle_from_root: bool,
	pub shared: bool,
	pub decorated: bool,
}

fn plain_identifier(s: &str) -> bool {
	let mut it = s.chars();
	matches!(it.next(), Some(c) if c.is_ascii_alphabetic() || c == '_') && it.all(|c| c.is_ascii_alphanumeric() || c == '_')
}

pub fn analyze(nodes: &[NodeSpec]) -> Features {
	let len = nodes.len();
	let mut f = Features { empty: len == 0, ..Features::default() };
	let mut indeg = vec![0usize; len];
	let all_keys: Vec<Vec<usize>> = nodes.iter().map(|n| n.keys()).collect();
	for (n, ks) in nodes.iter().zip(&all_keys) {
		for &k in ks {
			if k >= len {
				f.dangling = true;
			} else {
				indeg[k] += 1;
			}
		}
		if n.logical.is_some() {
			f.decorated = true;
		}
		if let Some(name) = &n.name {
			if !name.split('.').all(plain_identifier) {
				f.decorated = true;
			}
		}
		match &n.kind {
			Kind::Fixed(sz) if *sz > 16 => f.decorated = true,
			Kind::Enum(sy) if sy.is_empty() || sy.iter().any(|s| !plain_identifier(s)) => f.decorated = true,
			Kind::Record(fs) if fs.iter().any(|x| !plain_identifier(&x.0)) => f.decorated = true,
			_ => {}
		}
	}
	f.shared = indeg.iter().any(|d| *d >= 2);
	// any cycle: iterative colouring DFS over in-range edges
	{
		let mut colour = vec![0u8; len];
		for start in 0..len {
			if colour[start] != 0 {
				continue;
			}
			let mut stack: Vec<(usize, usize)> = vec![(start, 0)];
			colour[start] = 1;
			while let Some(&mut (n, ref mut ci)) = stack.last_mut() {
				let ks = &all_keys[n];
				if *ci < ks.len() {
					let k = ks[*ci];
					*ci += 1;
					if k < len {
						if colour[k] == 1 {
							f.any_cycle = true;
						} else if colour[k] == 0 {
							colour[k] = 1;
							stack.push((k, 0));
						}
					}
				} else {
					colour[n] = 2;
					stack.pop();
				}
			}
		}
	}
	if len == 0 {
		return f;
	}
	// the depth-first walk described above, iteratively (vectors can be 10^5 long)
	let mut expanded = vec![false; len];
	let mut on_path = vec![false; len];
	let mut stack: Vec<(usize, usize)> = Vec::new();
	let enter = |n: usize, stack: &mut Vec<(usize, usize)>, on_path: &mut Vec<bool>, expanded: &mut Vec<bool>, f: &mut Features| -> bool {
		// returns false when the walk must stop
		if nodes[n].named() {
			if on_path[n] {
				f.named_cycle_from_root = true;
			}
			if expanded[n] {
				return true;
			}
			expanded[n] = true;
		} else if on_path[n] {
			f.unnamed_cycle_from_root = true;
			return false;
		}
		on_path[n] = true;
		stack.push((n, 0));
		true
	};
	if !enter(0, &mut stack, &mut on_path, &mut expanded, &mut f) {
		return f;
	}
	while let Some(&mut (n, ref mut ci)) = stack.last_mut() {
		let ks = &all_keys[n];
		if *ci < ks.len() {
			let k = ks[*ci];
			*ci += 1;
			if k >= len {
				return f; // the walk stops at a dangling key
			}
			if !enter(k, &mut stack, &mut on_path, &mut expanded, &mut f) {
				return f;
			}
		} else {
			on_path[n] = false;
			stack.pop();
		}
	}
	f
}

pub fn feature_text(f: &Features) -> String {
	let mut v = Vec::new();
	if f.empty {
		v.push("empty vector");
	}
	if f.dangling {
		v.push("dangling key");
	}
	if f.unnamed_cycle_from_root {
		v.push("unnamed cycle reachable from the root (array/map/union nodes only, met depth-first before any dangling key)");
	} else if f.any_cycle {
		v.push("cycle (through a named node, or not reached from the root)");
	}
	if f.named_cycle_from_root {
		v.push("cycle through a named node reachable from the root");
	}
	if f.shared {
		v.push("shared node");
	}
	if f.decorated {
		v.push("logical type / unusual name / extreme parameter");
	}
	if v.is_empty() {
		"plain tree".to_owned()
	} else {
		v.join("; ")
	}
}

// ------------------------------------------------------------------------------------------
// alphabets

pub const KEY_REMAP: usize = 1 << 63;

pub fn keys1(len: usize, reduced: bool) -> Vec<usize> {
	let mut k: Vec<usize> = (0..len).collect();
	if reduced {
		k.push(len);
	} else {
		k.extend([len, len + 1, usize::MAX, KEY_REMAP, KEY_REMAP | 1]);
	}
	k
}

pub fn keys2(len: usize, reduced: bool) -> Vec<(usize, usize)> {
	let mut v = Vec::new();
	for a in 0..len {
		for b in 0..len {
			v.push((a, b));
		}
	}
	let dang: &[usize] = if reduced { &[] } else { &[len, usize::MAX] };
	for &d in dang {
		for i in 0..len {
			v.push((d, i));
			v.push((i, d));
		}
	}
	if !reduced {
		v.push((len, len));
	}
	v
}

/// Shape alphabet of one node of a vector of `len` nodes: every node type, every key assignment.
pub fn sigma(len: usize, reduced: bool) -> Vec<NodeSpec> {
	let mut v = Vec::new();
	let p = NodeSpec::plain;
	v.push(p(Kind::Int));
	if !reduced {
		v.push(p(Kind::Null));
	}
	for k in keys1(len, reduced) {
		v.push(p(Kind::Array(k)));
		if !reduced || k < len {
			v.push(p(Kind::Map(k)));
		}
	}
	v.push(p(Kind::Union(vec![])));
	v.push(p(Kind::Record(vec![])));
	for k in keys1(len, reduced) {
		v.push(p(Kind::Union(vec![k])));
		v.push(p(Kind::Record(vec![("f".into(), k)])));
	}
	for (a, b) in keys2(len, reduced) {
		v.push(p(Kind::Union(vec![a, b])));
		v.push(p(Kind::Record(vec![("f".into(), a), ("g".into(), b)])));
	}
	if !reduced {
		v.push(p(Kind::Enum(vec!["A".into(), "B".into()])));
	}
	v.push(p(Kind::Fixed(4)));
	v
}

/// placeholder key inside decorated nodes: replaced by the index of a trailing plain `Int`
pub const KEY_LEAF: usize = 999_999;

pub fn logicals() -> Vec<Option<Lt>> {
	let mut v = vec![None];
	for sc in [0u32, 1, 28, 29, u32::MAX] {
		for pr in [0usize, 1, usize::MAX] {
			v.push(Some(Lt::Decimal(sc, pr)));
		}
	}
	v.extend([Lt::Uuid, Lt::Date, Lt::TimeMillis, Lt::TimeMicros, Lt::TimestampMillis, Lt::TimestampMicros, Lt::Duration, Lt::BigDecimal].map(Some));
	v.extend(["", "decimal", "é\""].map(|s| Some(Lt::Unknown(s.to_owned()))));
	v
}

pub const NAMES: [&str; 10] = ["", ".", "a.", ".a", "a..b", "é.é", "\"", "a.b", "X", "ns.X"];
/// Dotted extremes for the `names` family: leading / trailing / doubled dots, multi-byte
/// characters next to a dot, a NUL.
pub const DOTTED_NAMES: [&str; 26] = ["", ".", "..", "...", ".a", ".a.", "a.", "a..b", ".a.b", ".ns.sub.", ".a.é", "é.", ".é", "a.é.b", "\u{0}.x", "é.é", "\"", "a.b", "X", "ns.X", "ns.sub.X", ".ns.X", "..a", "a..", ".é.", "😀.😀"];
pub const FIXED_SIZES: [usize; 6] = [0, 1, 12, 16, 17, usize::MAX];

/// Decorated single nodes: every kind x every logical type (matching or not) x names x parameters.
pub fn decorated() -> Vec<NodeSpec> {
	let mut v = Vec::new();
	let ls = logicals();
	for l in &ls {
		for k in [Kind::Null, Kind::Boolean, Kind::Int, Kind::Long, Kind::Float, Kind::Double, Kind::Bytes, Kind::String, Kind::Array(KEY_LEAF), Kind::Map(KEY_LEAF), Kind::Union(vec![KEY_LEAF])] {
			v.push(NodeSpec { kind: k, name: None, logical: l.clone() });
		}
		for name in NAMES {
			let name = Some(name.to_owned());
			for fields in [vec![("f".to_owned(), KEY_LEAF)], vec![("".to_owned(), KEY_LEAF), ("\"".to_owned(), KEY_LEAF)], vec![("f".to_owned(), KEY_LEAF), ("f".to_owned(), KEY_LEAF)]] {
				v.push(NodeSpec { kind: Kind::Record(fields), name: name.clone(), logical: l.clone() });
			}
			for sy in [vec![], vec!["A".to_owned()], vec!["A".to_owned(), "A".to_owned()], vec!["".to_owned(), "\"".to_owned()]] {
				v.push(NodeSpec { kind: Kind::Enum(sy), name: name.clone(), logical: l.clone() });
			}
			for sz in FIXED_SIZES {
				v.push(NodeSpec { kind: Kind::Fixed(sz), name: name.clone(), logical: l.clone() });
			}
		}
	}
	v
}

/// A smaller decorated alphabet for pairs of decorated nodes under one union / record.
pub fn decorated_small() -> Vec<NodeSpec> {
	let mut v = Vec::new();
	let n = |kind: Kind, logical: Option<Lt>| NodeSpec { kind, name: None, logical };
	for k in [Kind::Null, Kind::Int, Kind::Long, Kind::Bytes, Kind::String, Kind::Array(KEY_LEAF), Kind::Map(KEY_LEAF), Kind::Union(vec![KEY_LEAF])] {
		v.push(n(k, None));
	}
	v.push(n(Kind::Int, Some(Lt::Date)));
	v.push(n(Kind::Long, Some(Lt::TimestampMillis)));
	v.push(n(Kind::Bytes, Some(Lt::Decimal(0, 1))));
	v.push(n(Kind::Bytes, Some(Lt::Decimal(u32::MAX, usize::MAX))));
	v.push(n(Kind::Bytes, Some(Lt::BigDecimal)));
	v.push(n(Kind::String, Some(Lt::Uuid)));
	v.push(n(Kind::Int, Some(Lt::Uuid)));
	for name in ["X", "a.X", ""] {
		v.push(NodeSpec { kind: Kind::Record(vec![("f".into(), KEY_LEAF)]), name: Some(name.into()), logical: None });
		v.push(NodeSpec { kind: Kind::Enum(vec!["A".into()]), name: Some(name.into()), logical: None });
	}
	for name in ["X", "a.X"] {
		for sz in [0usize, 12, 16, 17, usize::MAX] {
			for l in [None, Some(Lt::Decimal(0, 1)), Some(Lt::Duration)] {
				v.push(NodeSpec { kind: Kind::Fixed(sz), name: Some(name.into()), logical: l });
			}
		}
	}
	v
}

/// Named nodes of the `names` family: record, enum, fixed, decimal over fixed, under every dotted name.
pub fn named_nodes() -> Vec<NodeSpec> {
	let mut v = Vec::new();
	for name in DOTTED_NAMES {
		let name = Some(name.to_owned());
		v.push(NodeSpec { kind: Kind::Record(vec![("f".into(), KEY_LEAF)]), name: name.clone(), logical: None });
		v.push(NodeSpec { kind: Kind::Enum(vec!["A".into()]), name: name.clone(), logical: None });
		v.push(NodeSpec { kind: Kind::Fixed(4), name: name.clone(), logical: None });
		v.push(NodeSpec { kind: Kind::Fixed(16), name: name.clone(), logical: Some(Lt::Decimal(0, 1)) });
	}
	v
}
pub const NAME_CONTEXTS: [usize; 7] = [0, 1, 2, 3, 4, 5, 6];

/// Put decorated nodes (whose own keys are `KEY_LEAF`) into a context. `ctx`:
/// 0 root; 1 both branches of a union; 2 both fields of a record in namespace `ns`; 3 array items;
/// 4 both fields of a record `W` spelled in the same namespace as the first node (everything up to
/// its last dot); 5 both fields of a record `W` in the null namespace; 6 second branch of `[int, D]`.
pub fn in_context(ctx: usize, ds: &[NodeSpec]) -> Vec<NodeSpec> {
	let mut v = Vec::new();
	let first = if ctx == 0 { 0 } else { 1 };
	let keys: Vec<usize> = (0..ds.len()).map(|i| first + i).collect();
	let both = |i: usize| if keys.len() > 1 { keys[i] } else { keys[0] };
	match ctx {
		0 => {}
		1 => v.push(NodeSpec::plain(Kind::Union(vec![both(0), both(1)]))),
		2 => v.push(NodeSpec { kind: Kind::Record(vec![("f".into(), both(0)), ("g".into(), both(1))]), name: Some("ns.W".into()), logical: None }),
		4 | 5 => {
			let prefix = match (ctx, ds[0].name.as_deref().and_then(|n| n.rfind('.').map(|i| &n[..=i]))) {
				(4, Some(p)) => p.to_owned(),
				_ => String::new(),
			};
			v.push(NodeSpec { kind: Kind::Record(vec![("f".into(), both(0)), ("g".into(), both(1))]), name: Some(format!("{prefix}W")), logical: None })
		}
		6 => v.push(NodeSpec::plain(Kind::Union(vec![KEY_LEAF, keys[0]]))),
		_ => v.push(NodeSpec::plain(Kind::Array(keys[0]))),
	}
	v.extend(ds.iter().cloned());
	let leaf = v.len();
	v.push(NodeSpec::plain(Kind::Int));
	for n in v.iter_mut() {
		for k in n.keys_mut() {
			if *k == KEY_LEAF {
				*k = leaf;
			}
		}
	}
	v
}

// ------------------------------------------------------------------------------------------
// builder-side ladders

/// `R_i{a:R_{i+1}, b:R_{i+1}}`, n records, then an int
pub fn diamond(n: usize) -> Vec<NodeSpec> {
	let mut v: Vec<NodeSpec> = (0..n).map(|i| NodeSpec::plain(Kind::Record(vec![("a".into(), i + 1), ("b".into(), i + 1)]))).collect();
	v.push(NodeSpec::plain(Kind::Int));
	v
}
/// `R_i{next:R_{i+1}}`, n records, then an int
pub fn ref_chain(n: usize) -> Vec<NodeSpec> {
	let mut v: Vec<NodeSpec> = (0..n).map(|i| NodeSpec::plain(Kind::Record(vec![("next".into(), i + 1)]))).collect();
	v.push(NodeSpec::plain(Kind::Int));
	v
}
/// array of array of … of int, n arrays
pub fn array_chain(n: usize) -> Vec<NodeSpec> {
	let mut v: Vec<NodeSpec> = (0..n).map(|i| NodeSpec::plain(Kind::Array(i + 1))).collect();
	v.push(NodeSpec::plain(Kind::Int));
	v
}
/// kind 0: record of n int fields; 1: union of n distinct fixed types; 2: enum of n symbols;
/// 3: record of n fields all of the same record type
pub fn wide(kind: usize, n: usize) -> Vec<NodeSpec> {
	match kind {
		0 => vec![NodeSpec::plain(Kind::Record((0..n).map(|i| (format!("f{i}"), 1)).collect())), NodeSpec::plain(Kind::Int)],
		1 => {
			let mut v = vec![NodeSpec::plain(Kind::Union((1..=n).collect()))];
			v.extend((0..n).map(|_| NodeSpec::plain(Kind::Fixed(1))));
			v
		}
		2 => vec![NodeSpec::plain(Kind::Enum((0..n).map(|i| format!("S{i}")).collect()))],
		_ => vec![NodeSpec::plain(Kind::Record((0..n).map(|i| (format!("f{i}"), 1)).collect())), NodeSpec::plain(Kind::Record(vec![("v".into(), 2)])), NodeSpec::plain(Kind::Int)],
	}
}
