//! Schema documents for C07 / C08 / C09(a): the AST grammar (named types in namespaces
//! {∅, a, a.b, b}, nested under records / arrays / maps / unions, references, recursion,
//! shadowing, logical types), the spelling plans driven through `vmodel::schema::spell`,
//! forward-reference variants, invalid documents derived by single edits, and the
//! bisimulation between an AST and the crate's parsed node graph.

use crate::explore::{explore, hash64, Chooser, Cover};
use crate::report::Violation;
use rayon::prelude::*;
use serde_avro_fast::schema::{LogicalType, RegularType, SchemaNode};
use std::collections::{HashMap, HashSet};
use vmodel::json::J;
use vmodel::schema::{resolve_text, spell, split_fullname, Logical, RSchema, ResolveCfg, SpellCfg};
use vmodel::Pick;

pub const NAMESPACES: [&str; 4] = ["", "a", "a.b", "b"];
pub const SIMPLE: [&str; 4] = ["X", "Y", "Z", "W"];

pub fn join(ns: &str, simple: &str) -> String {
	if ns.is_empty() {
		simple.to_owned()
	} else {
		format!("{ns}.{simple}")
	}
}

// ---------------------------------------------------------------------------------------------
// AST grammar

#[derive(Clone, Copy, Debug, PartialEq, Eq)]
pub enum Wrap {
	Id,
	Array,
	Map,
	/// `[null, T]`
	UnionNull,
	/// `[T, int]`
	UnionInt,
	ArrayMap,
	MapUnion,
	UnionArray,
}

pub fn wrap(w: Wrap, t: RSchema) -> RSchema {
	match w {
		Wrap::Id => t,
		Wrap::Array => RSchema::array(t),
		Wrap::Map => RSchema::map(t),
		Wrap::UnionNull => RSchema::Union(vec![RSchema::Null, t]),
		Wrap::UnionInt => RSchema::Union(vec![t, RSchema::Int]),
		Wrap::ArrayMap => RSchema::array(RSchema::map(t)),
		Wrap::MapUnion => RSchema::map(RSchema::Union(vec![RSchema::Null, t])),
		Wrap::UnionArray => RSchema::Union(vec![RSchema::Null, RSchema::array(t)]),
	}
}

#[derive(Clone, Copy, Debug, PartialEq, Eq)]
pub enum NameMode {
	/// i-th named type has simple name SIMPLE[i]
	Distinct,
	/// every named type has simple name X (shadowing: the namespaces must differ)
	AllX,
	/// per type: own letter or X
	PerType,
}

#[derive(Clone, Debug)]
pub struct Bounds {
	pub label: &'static str,
	pub max_named: usize,
	/// maximal number of edge fields (fields whose type is a new named type or a reference) per record
	pub max_fields: usize,
	/// maximal number of edge fields in the whole AST
	pub max_edges: usize,
	/// 0 = record, 1 = enum, 2 = fixed
	pub kinds: &'static [usize],
	pub wrappers: &'static [Wrap],
	pub root_wrappers: &'static [Wrap],
	pub names: NameMode,
	/// namespaces available to the named types
	pub namespaces: &'static [&'static str],
}

struct Gen<'a> {
	ch: &'a mut Chooser,
	b: &'a Bounds,
	defs: Vec<String>,
	edges: usize,
	ok: bool,
}

pub const ENUM_SYMBOLS: [&str; 3] = ["B", "A", "C"];
pub const FIELD_NAMES: [&str; 3] = ["q", "p", "r"];

impl<'a> Gen<'a> {
	fn named(&mut self) -> RSchema {
		let idx = self.defs.len();
		let ns = self.b.namespaces[self.ch.pick(self.b.namespaces.len())];
		let simple = match self.b.names {
			NameMode::Distinct => SIMPLE[idx],
			NameMode::AllX => "X",
			NameMode::PerType => {
				if idx > 0 && self.ch.flag() {
					"X"
				} else {
					SIMPLE[idx]
				}
			}
		};
		let full = join(ns, simple);
		if self.defs.contains(&full) {
			self.ok = false;
			return RSchema::Int;
		}
		self.defs.push(full.clone());
		match self.b.kinds[self.ch.pick(self.b.kinds.len())] {
			0 => {
				let max_e = self.b.max_fields.min(self.b.max_edges - self.edges);
				let ne = self.ch.pick(max_e + 1);
				if ne == 0 {
					return RSchema::Record { name: full, fields: vec![(FIELD_NAMES[0].to_owned(), RSchema::Int)] };
				}
				let mut fields = Vec::new();
				for i in 0..ne {
					if !self.ok || self.edges >= self.b.max_edges {
						break;
					}
					self.edges += 1;
					let t = self.edge(ns);
					fields.push((FIELD_NAMES[i].to_owned(), t));
				}
				RSchema::Record { name: full, fields }
			}
			1 => RSchema::Enum { name: full, symbols: ENUM_SYMBOLS.iter().map(|s| s.to_string()).collect() },
			_ => RSchema::Fixed { name: full, size: 3 },
		}
	}
	fn edge(&mut self, ns: &str) -> RSchema {
		#[derive(Clone, Copy)]
		enum Opt {
			New,
			Ref(usize),
		}
		let mut opts = Vec::new();
		if self.defs.len() < self.b.max_named {
			opts.push(Opt::New);
		}
		for (j, d) in self.defs.iter().enumerate() {
			let dns = split_fullname(d).0;
			// a reference to a null-namespace type from inside a namespace is not expressible
			if dns == ns || !dns.is_empty() {
				opts.push(Opt::Ref(j));
			}
		}
		if opts.is_empty() {
			return RSchema::Int;
		}
		let o = opts[self.ch.pick(opts.len())];
		let t0 = match o {
			Opt::New => self.named(),
			Opt::Ref(j) => RSchema::Ref(self.defs[j].clone()),
		};
		if !self.ok {
			return RSchema::Int;
		}
		let w = self.b.wrappers[self.ch.pick(self.b.wrappers.len())];
		wrap(w, t0)
	}
}

pub fn gen_ast(ch: &mut Chooser, b: &Bounds) -> Option<RSchema> {
	let mut g = Gen { ch, b, defs: Vec::new(), edges: 0, ok: true };
	let w = b.root_wrappers[g.ch.pick(b.root_wrappers.len())];
	let t = g.named();
	if !g.ok {
		return None;
	}
	Some(wrap(w, t))
}

// ---------------------------------------------------------------------------------------------
// Sites: pre-order numbering of AST nodes with their enclosing namespace

#[derive(Clone, Debug, PartialEq)]
pub enum SiteKind {
	/// definition of the named type (index of the outermost node: the logical annotation if any)
	Def(String),
	Ref(String),
	Prim,
	Other,
}

#[derive(Clone, Debug)]
pub struct Site {
	pub idx: usize,
	/// pre-order index of the parent node (usize::MAX for the root)
	pub parent: usize,
	/// index one past the subtree
	pub end: usize,
	pub kind: SiteKind,
	pub enclosing: String,
}

pub fn sites(s: &RSchema) -> Vec<Site> {
	fn go(s: &RSchema, enclosing: &str, parent: usize, n: &mut usize, out: &mut Vec<Site>) {
		let idx = *n;
		*n += 1;
		let slot = out.len();
		out.push(Site { idx, parent, end: 0, kind: SiteKind::Other, enclosing: enclosing.to_owned() });
		let kind = match s {
			RSchema::Logical(_, b) => {
				let before = out.len();
				go(b, enclosing, idx, n, out);
				// the annotated definition's site is the annotation
				match out[before].kind.clone() {
					SiteKind::Def(name) => {
						out[before].kind = SiteKind::Other;
						SiteKind::Def(name)
					}
					_ => SiteKind::Other,
				}
			}
			RSchema::Array(i) | RSchema::Map(i) => {
				go(i, enclosing, idx, n, out);
				SiteKind::Other
			}
			RSchema::Union(v) => {
				for b in v {
					go(b, enclosing, idx, n, out);
				}
				SiteKind::Other
			}
			RSchema::Record { name, fields } => {
				let ns = split_fullname(name).0;
				for (_, f) in fields {
					go(f, ns, idx, n, out);
				}
				SiteKind::Def(name.clone())
			}
			RSchema::Enum { name, .. } | RSchema::Fixed { name, .. } => SiteKind::Def(name.clone()),
			RSchema::Ref(name) => SiteKind::Ref(name.clone()),
			_ => SiteKind::Prim,
		};
		out[slot].kind = kind;
		out[slot].end = *n;
	}
	let mut out = Vec::new();
	let mut n = 0;
	go(s, "", usize::MAX, &mut n, &mut out);
	out
}

/// The subtree at pre-order index `target`.
pub fn get_at(s: &RSchema, target: usize) -> Option<RSchema> {
	fn go(s: &RSchema, target: usize, n: &mut usize) -> Option<RSchema> {
		let idx = *n;
		*n += 1;
		if idx == target {
			return Some(s.clone());
		}
		match s {
			RSchema::Logical(_, b) | RSchema::Array(b) | RSchema::Map(b) => go(b, target, n),
			RSchema::Union(v) => v.iter().find_map(|b| go(b, target, n)),
			RSchema::Record { fields, .. } => fields.iter().find_map(|(_, f)| go(f, target, n)),
			_ => None,
		}
	}
	go(s, target, &mut 0)
}

/// Copy of `s` with the subtree at pre-order index `target` replaced by `new`.
pub fn replace_at(s: &RSchema, target: usize, new: &RSchema) -> RSchema {
	fn go(s: &RSchema, target: usize, new: &RSchema, n: &mut usize) -> RSchema {
		let idx = *n;
		if idx == target {
			*n += count(s);
			return new.clone();
		}
		*n += 1;
		match s {
			RSchema::Logical(l, b) => RSchema::Logical(l.clone(), Box::new(go(b, target, new, n))),
			RSchema::Array(b) => RSchema::Array(Box::new(go(b, target, new, n))),
			RSchema::Map(b) => RSchema::Map(Box::new(go(b, target, new, n))),
			RSchema::Union(v) => RSchema::Union(v.iter().map(|b| go(b, target, new, n)).collect()),
			RSchema::Record { name, fields } => RSchema::Record { name: name.clone(), fields: fields.iter().map(|(fname, f)| (fname.clone(), go(f, target, new, n))).collect() },
			other => other.clone(),
		}
	}
	go(s, target, new, &mut 0)
}

fn count(s: &RSchema) -> usize {
	s.size()
}

/// Replace every named definition inside `s` (except the outermost) by a reference to it.
fn inner_defs_to_refs(s: &RSchema, top: bool) -> RSchema {
	match s {
		RSchema::Logical(l, b) => match &**b {
			RSchema::Fixed { name, .. } | RSchema::Enum { name, .. } | RSchema::Record { name, .. } if !top => RSchema::Ref(name.clone()),
			_ => RSchema::Logical(l.clone(), Box::new(inner_defs_to_refs(b, top))),
		},
		RSchema::Array(b) => RSchema::Array(Box::new(inner_defs_to_refs(b, false))),
		RSchema::Map(b) => RSchema::Map(Box::new(inner_defs_to_refs(b, false))),
		RSchema::Union(v) => RSchema::Union(v.iter().map(|b| inner_defs_to_refs(b, false)).collect()),
		RSchema::Record { name, fields } => {
			if top {
				RSchema::Record { name: name.clone(), fields: fields.iter().map(|(n, f)| (n.clone(), inner_defs_to_refs(f, false))).collect() }
			} else {
				RSchema::Ref(name.clone())
			}
		}
		RSchema::Enum { name, .. } | RSchema::Fixed { name, .. } if !top => RSchema::Ref(name.clone()),
		other => other.clone(),
	}
}

fn rename_def(s: &RSchema, to: &str) -> RSchema {
	match s {
		RSchema::Logical(l, b) => RSchema::Logical(l.clone(), Box::new(rename_def(b, to))),
		RSchema::Record { fields, .. } => RSchema::Record { name: to.to_owned(), fields: fields.clone() },
		RSchema::Enum { symbols, .. } => RSchema::Enum { name: to.to_owned(), symbols: symbols.clone() },
		RSchema::Fixed { size, .. } => RSchema::Fixed { name: to.to_owned(), size: *size },
		other => other.clone(),
	}
}

#[derive(Clone, Debug, Default)]
pub struct Feats {
	pub named: usize,
	pub refs: usize,
	pub ns_transitions: usize,
	pub recursive: bool,
	pub shadow: bool,
	pub logical: usize,
}

pub fn feats(s: &RSchema) -> Feats {
	let st = sites(s);
	let mut f = Feats::default();
	let mut simple: Vec<&str> = Vec::new();
	for site in st.iter() {
		match &site.kind {
			SiteKind::Def(n) => {
				f.named += 1;
				let (ns, sn) = split_fullname(n);
				if ns != site.enclosing {
					f.ns_transitions += 1;
				}
				if simple.contains(&sn) {
					f.shadow = true;
				}
				simple.push(sn);
				// recursive: a reference to n inside its own subtree
				if st.iter().any(|r| r.idx > site.idx && r.idx < site.end && r.kind == SiteKind::Ref(n.clone())) {
					f.recursive = true;
				}
			}
			SiteKind::Ref(_) => f.refs += 1,
			_ => {}
		}
	}
	fn logicals(s: &RSchema) -> usize {
		match s {
			RSchema::Logical(_, b) => 1 + logicals(b),
			RSchema::Array(b) | RSchema::Map(b) => logicals(b),
			RSchema::Union(v) => v.iter().map(logicals).sum(),
			RSchema::Record { fields, .. } => fields.iter().map(|(_, f)| logicals(f)).sum(),
			_ => 0,
		}
	}
	f.logical = logicals(s);
	f
}

// ---------------------------------------------------------------------------------------------
// Cases

#[derive(Clone, Debug, PartialEq)]
pub enum Expect {
	/// spec-valid, definitions at first use
	Valid,
	/// valid, but at least one reference precedes its definition (documented as supported)
	ValidForward,
	/// must be rejected; the string names the class
	Invalid(&'static str),
}

#[derive(Clone, Debug)]
pub struct AstCase {
	pub family: String,
	pub choices: Vec<usize>,
	pub ast: RSchema,
	pub expect: Expect,
	pub feats: Feats,
	/// spell with `vary_scale` (decimal family only)
	pub vary_scale: bool,
}

impl AstCase {
	fn new(family: &str, choices: Vec<usize>, ast: RSchema, expect: Expect) -> AstCase {
		let feats = feats(&ast);
		AstCase { family: family.to_owned(), choices, ast, expect, feats, vary_scale: false }
	}
}

const W_QUICK: [Wrap; 4] = [Wrap::Id, Wrap::Array, Wrap::Map, Wrap::UnionNull];
const W_ALL: [Wrap; 8] = [Wrap::Id, Wrap::Array, Wrap::Map, Wrap::UnionNull, Wrap::UnionInt, Wrap::ArrayMap, Wrap::MapUnion, Wrap::UnionArray];
const W_ROOT: [Wrap; 4] = [Wrap::Id, Wrap::Array, Wrap::Map, Wrap::UnionNull];
const W_ID: [Wrap; 1] = [Wrap::Id];
const W_CHAIN: [Wrap; 2] = [Wrap::Id, Wrap::UnionNull];

pub const NS2: [&str; 2] = ["", "a.b"];
const K_RE: [usize; 2] = [0, 1];
const K_ALL: [usize; 3] = [0, 1, 2];

pub fn grammars(thorough: bool) -> Vec<Bounds> {
	let mut v = vec![
		Bounds { label: "k2", max_named: 2, max_fields: 2, max_edges: 2, kinds: &K_ALL, wrappers: &W_QUICK, root_wrappers: &W_ROOT, names: NameMode::Distinct, namespaces: &NAMESPACES },
		Bounds { label: "k2-wrappers", max_named: 2, max_fields: 1, max_edges: 2, kinds: &K_RE, wrappers: &W_ALL, root_wrappers: &W_ID, names: NameMode::Distinct, namespaces: &NAMESPACES },
		Bounds { label: "k3", max_named: 3, max_fields: 2, max_edges: 3, kinds: &K_RE, wrappers: &W_CHAIN, root_wrappers: &W_ID, names: NameMode::Distinct, namespaces: &NAMESPACES },
		Bounds { label: "k3-shadow", max_named: 3, max_fields: 2, max_edges: 3, kinds: &K_RE, wrappers: &W_CHAIN, root_wrappers: &W_ID, names: NameMode::AllX, namespaces: &NAMESPACES },
	];
	if thorough {
		v.push(Bounds { label: "k3-w4", max_named: 3, max_fields: 2, max_edges: 3, kinds: &K_RE, wrappers: &W_QUICK, root_wrappers: &W_ID, names: NameMode::Distinct, namespaces: &NAMESPACES });
		v.push(Bounds { label: "k3-fixed", max_named: 3, max_fields: 2, max_edges: 3, kinds: &K_ALL, wrappers: &W_CHAIN, root_wrappers: &W_ID, names: NameMode::Distinct, namespaces: &NAMESPACES });
		v.push(Bounds { label: "k3-pertype", max_named: 3, max_fields: 2, max_edges: 3, kinds: &K_RE, wrappers: &W_CHAIN, root_wrappers: &W_ID, names: NameMode::PerType, namespaces: &NAMESPACES });
		v.push(Bounds { label: "k4-chain", max_named: 4, max_fields: 1, max_edges: 4, kinds: &K_RE, wrappers: &W_CHAIN, root_wrappers: &W_ID, names: NameMode::Distinct, namespaces: &NAMESPACES });
		v.push(Bounds { label: "k4-shadow", max_named: 4, max_fields: 1, max_edges: 4, kinds: &K_RE, wrappers: &W_CHAIN, root_wrappers: &W_ID, names: NameMode::AllX, namespaces: &NAMESPACES });
		v.push(Bounds { label: "k4-ns2", max_named: 4, max_fields: 2, max_edges: 4, kinds: &K_RE, wrappers: &W_CHAIN, root_wrappers: &W_ID, names: NameMode::Distinct, namespaces: &NS2 });
	}
	v
}

pub fn describe_grammars(thorough: bool) -> String {
	grammars(thorough)
		.iter()
		.map(|b| {
			format!(
				"{}: <= {} named types ({}), <= {} edge fields per record and <= {} in the AST, wrappers {:?}, root wrappers {:?}, names {:?}, namespaces {:?}",
				b.label,
				b.max_named,
				b.kinds.iter().map(|k| ["record", "enum", "fixed"][*k]).collect::<Vec<_>>().join("/"),
				b.max_fields,
				b.max_edges,
				b.wrappers,
				b.root_wrappers,
				b.names,
				b.namespaces
			)
		})
		.collect::<Vec<_>>()
		.join("; ")
}

pub fn describe_plan(p: &Plan) -> String {
	format!(
		"per AST: full per-site product of definition-name spellings (inherited / dotted fullname / simple name + namespace attribute incl. \"\" / dotted + contradicting namespace attribute) x reference spellings (simple / fullname) under the plain document-level configuration; 'every site takes option k' (k=0..3; primitives as string or {{\"type\":..}} too) under all 18 document-level configurations (attribute order type-first/name-first/reversed x extra attributes none/doc+aliases+default+order/unknown keys with nested JSON x minified/whitespace) for ASTs with <= {} named types and the hand-written families (larger: k=0..3 plain + k=1 under the 17 others){}{}{}; bare strings in type position (primitives and references: root, field type, items, values, union members) written with a \\uXXXX escape: all sites at once (first / last character) in 4 spellings for every AST, every non-empty subset of the sites (<= 4 sites) or every single site for ASTs with <= 2 named types and the hand-written families; every string position the parser reads (name, namespace, field name, symbol, the type attribute of a schema object, logicalType, doc, aliases entries, type-position strings, keys of unknown attributes, the known attribute keys themselves) written with a \\uXXXX escape of its first or last character: all positions at once in two decorated spellings for every AST, one spelling per position kind for ASTs with <= 1 named type and the hand-written families; `scale` omitted where it is 0 in the decimal families; leaf cap {} per product",
		p.diag_full_max_named,
		if p.full_product_max_named > 0 { format!("; all sites (names x references x primitives x scale) x 18 configurations for ASTs with <= {} named types and <= 14 nodes", p.full_product_max_named) } else { String::new() },
		if p.all_sites_product_max_named > 0 { format!("; all sites under the plain configuration for ASTs with <= {} named types and <= 14 nodes", p.all_sites_product_max_named) } else { String::new() },
		if p.cfg_product_max_named > 0 { format!("; names x references under each of the 17 other configurations for ASTs with <= {} named types", p.cfg_product_max_named) } else { String::new() },
		p.product_cap
	)
}

/// Hand-written families: every logical type, unions of named types, second uses.
pub fn specials() -> Vec<(String, RSchema, bool)> {
	let mut out: Vec<(String, RSchema, bool)> = Vec::new();
	let prims_logical: Vec<(RSchema, bool)> = vec![
		(RSchema::decimal_bytes(4, 2), false),
		(RSchema::decimal_bytes(4, 0), true),
		(RSchema::logical(Logical::Uuid, RSchema::String), false),
		(RSchema::logical(Logical::Date, RSchema::Int), false),
		(RSchema::logical(Logical::TimeMillis, RSchema::Int), false),
		(RSchema::logical(Logical::TimeMicros, RSchema::Long), false),
		(RSchema::logical(Logical::TimestampMillis, RSchema::Long), false),
		(RSchema::logical(Logical::TimestampMicros, RSchema::Long), false),
		(RSchema::logical(Logical::BigDecimal, RSchema::Bytes), false),
		(RSchema::logical(Logical::Unknown("x-custom".into()), RSchema::Int), false),
		(RSchema::logical(Logical::Unknown("x-custom".into()), RSchema::array(RSchema::Int)), false),
	];
	// bare logical types at the root
	for (i, (l, vs)) in prims_logical.iter().enumerate() {
		out.push((format!("logical-root-{i}"), l.clone(), *vs));
	}
	for (ri, rns) in NAMESPACES.iter().enumerate() {
		let rname = join(rns, "X");
		// record with every logical type as a field (primitive bases)
		let fields: Vec<(String, RSchema)> = prims_logical.iter().enumerate().map(|(i, (l, _))| (format!("l{i}"), l.clone())).collect();
		out.push((format!("logical-fields-{ri}"), RSchema::Record { name: rname.clone(), fields }, true));
		for (fi, fns) in NAMESPACES.iter().enumerate() {
			let fname = join(fns, "Y");
			let ename = join(fns, "Z");
			let expressible = fns == rns || !fns.is_empty();
			// logical types over named types, with a second use by reference where expressible
			let mut fields = vec![
				("d".to_owned(), RSchema::decimal_fixed(&fname, 2, 4, 1)),
				("u".to_owned(), RSchema::logical(Logical::Duration, RSchema::fixed(&join(fns, "W"), 12))),
				("e".to_owned(), RSchema::logical(Logical::Unknown("x-custom".into()), RSchema::Enum { name: ename.clone(), symbols: vec!["S".into(), "T".into()] })),
			];
			if expressible {
				fields.push(("d2".to_owned(), RSchema::array(RSchema::Ref(fname.clone()))));
				fields.push(("e2".to_owned(), RSchema::Union(vec![RSchema::Null, RSchema::Ref(ename.clone())])));
			}
			out.push((format!("logical-named-{ri}-{fi}"), RSchema::Record { name: rname.clone(), fields }, false));
			// decimal over fixed with scale 0 (scale may be omitted)
			out.push((format!("decimal-fixed-scale0-{ri}-{fi}"), RSchema::Record { name: rname.clone(), fields: vec![("d".to_owned(), RSchema::decimal_fixed(&fname, 2, 4, 0))] }, true));
			// union of two named records at the root, the second referring to the first
			let yname = join(fns, "Y");
			let mut yfields = vec![("v".to_owned(), RSchema::Int)];
			if rns == fns || !rns.is_empty() {
				yfields.push(("x".to_owned(), RSchema::Ref(rname.clone())));
			}
			out.push((
				format!("root-union-{ri}-{fi}"),
				RSchema::Union(vec![
					RSchema::Null,
					RSchema::Record { name: rname.clone(), fields: vec![("self".to_owned(), RSchema::Union(vec![RSchema::Null, RSchema::Ref(rname.clone())])), ("selfs".to_owned(), RSchema::map(RSchema::Ref(rname.clone())))] },
					RSchema::Record { name: yname.clone(), fields: yfields },
					RSchema::Enum { name: join(fns, "Z"), symbols: vec!["S".into()] },
				]),
				false,
			));
			// a record logical-annotated with an unknown logical type
			out.push((
				format!("logical-record-{ri}-{fi}"),
				RSchema::logical(
					Logical::Unknown("x-custom".into()),
					RSchema::Record { name: rname.clone(), fields: vec![("m".to_owned(), RSchema::logical(Logical::Unknown("x-other".into()), RSchema::map(RSchema::fixed(&fname, 0))))] },
				),
				false,
			));
		}
	}
	// decimal boundaries: scale = precision is valid (0 <= scale <= precision); over bytes and
	// over fixed at the largest precision the fixed can hold
	{
		let bytes_ps: [(usize, u32); 5] = [(1, 0), (1, 1), (2, 2), (4, 4), (38, 38)];
		let fixed_sps: [(usize, usize, u32); 6] = [(1, 1, 0), (1, 1, 1), (1, 2, 2), (2, 4, 4), (8, 18, 18), (16, 38, 38)];
		for (i, (p, sc)) in bytes_ps.iter().enumerate() {
			out.push((format!("decimal-bounds-root-bytes-{i}"), RSchema::decimal_bytes(*p, *sc), *sc == 0));
		}
		for (i, (size, p, sc)) in fixed_sps.iter().enumerate() {
			out.push((format!("decimal-bounds-root-fixed-{i}"), RSchema::decimal_fixed("a.F", *size, *p, *sc), *sc == 0));
		}
		let mut fields: Vec<(String, RSchema)> = bytes_ps.iter().enumerate().map(|(i, (p, sc))| (format!("b{i}"), RSchema::decimal_bytes(*p, *sc))).collect();
		// (two of the fixed ones only: the spelling product grows with the number of named types)
		fields.extend(fixed_sps.iter().enumerate().filter(|(i, _)| *i == 2 || *i == 5).map(|(i, (size, p, sc))| (format!("f{i}"), RSchema::decimal_fixed(&format!("a.F{i}"), *size, *p, *sc))));
		fields.push(("f2again".to_owned(), RSchema::array(RSchema::Ref("a.F2".into()))));
		out.push(("decimal-bounds-fields".to_owned(), RSchema::Record { name: "a.X".into(), fields }, false));
	}
	// enum with zero symbols (accepted by the crate; canonical form "symbols":[])
	for (ni, ns) in NAMESPACES.iter().enumerate() {
		let e0 = || RSchema::Enum { name: join(ns, "Y"), symbols: vec![] };
		out.push((format!("enum0-root-{ni}"), e0(), false));
		out.push((format!("enum0-array-{ni}"), RSchema::array(e0()), false));
		out.push((format!("enum0-map-{ni}"), RSchema::map(e0()), false));
		out.push((format!("enum0-union-{ni}"), RSchema::Union(vec![RSchema::Null, e0(), RSchema::Int]), false));
		for (ri, rns) in NAMESPACES.iter().enumerate() {
			let mut fields = vec![("e".to_owned(), e0()), ("n".to_owned(), RSchema::Enum { name: join(rns, "Z"), symbols: vec!["".into()] })];
			if ns == rns || !ns.is_empty() {
				fields.push(("e2".to_owned(), RSchema::Union(vec![RSchema::Null, RSchema::Ref(join(ns, "Y"))])));
			}
			out.push((format!("enum0-field-{ni}-{ri}"), RSchema::Record { name: join(rns, "X"), fields }, false));
		}
	}
	// two references pending at once, both before their definitions (forward references), with
	// the same simple name in different namespaces (and a control with different simple names)
	let def = |kind: usize, full: &str| match kind {
		0 => RSchema::Record { name: full.to_owned(), fields: vec![("v".to_owned(), RSchema::Int)] },
		_ => RSchema::Enum { name: full.to_owned(), symbols: vec!["S".into(), "T".into()] },
	};
	for (ai, ans) in NAMESPACES.iter().enumerate() {
		for (bi, bns) in NAMESPACES.iter().enumerate() {
			if ai == bi {
				continue;
			}
			for same in [true, false] {
				let a = join(ans, "Id");
				let b = join(bns, if same { "Id" } else { "Jd" });
				for kinds in 0..4usize {
					for order in 0..2usize {
						for w in [Wrap::Id, Wrap::Array] {
							let defs = |fields: &mut Vec<(String, RSchema)>| {
								let da = ("c".to_owned(), def(kinds & 1, &a));
								let db = ("d".to_owned(), def(kinds >> 1, &b));
								if order == 0 {
									fields.push(da);
									fields.push(db);
								} else {
									fields.push(db);
									fields.push(da);
								}
							};
							// nested: the root lives in A's namespace, the second reference sits in a
							// record of B's namespace: both can be written as the bare simple name
							if same {
								let mut fields = vec![
									("a".to_owned(), wrap(w, RSchema::Ref(a.clone()))),
									("q".to_owned(), RSchema::Record { name: join(bns, "Q"), fields: vec![("y".to_owned(), RSchema::Union(vec![RSchema::Null, RSchema::Ref(b.clone())]))] }),
								];
								defs(&mut fields);
								out.push((format!("fwd2-nested-{ai}-{bi}-{kinds}-{order}-{w:?}"), RSchema::Record { name: join(ans, "R"), fields }, false));
							}
							// flat: both references are fields of the root record
							for (ri, rns) in NAMESPACES.iter().enumerate() {
								let ok = |ns: &str| ns == *rns || !ns.is_empty();
								if !ok(ans) || !ok(bns) || (kinds != 0 && ri > 1) {
									continue;
								}
								let mut fields = vec![("a".to_owned(), wrap(w, RSchema::Ref(a.clone()))), ("b".to_owned(), RSchema::map(RSchema::Ref(b.clone())))];
								defs(&mut fields);
								out.push((format!("fwd2-flat-{ai}-{bi}-{same}-{kinds}-{order}-{w:?}-{ri}"), RSchema::Record { name: join(rns, "R"), fields }, false));
							}
						}
					}
				}
			}
		}
	}
	out
}

/// Swap the definition of `name` with its first later reference (outside the definition), if the
/// reference can be written at the definition's site.
pub fn swap_forward(ast: &RSchema, name: &str) -> Option<RSchema> {
	let st = sites(ast);
	let d = st.iter().find(|d| d.kind == SiteKind::Def(name.to_owned()))?;
	let (ns, _) = split_fullname(name);
	if !(ns == d.enclosing || !ns.is_empty()) {
		return None;
	}
	let r = st.iter().find(|r| r.idx >= d.end && r.kind == SiteKind::Ref(name.to_owned()))?;
	let def = get_at(ast, d.idx).unwrap();
	let step1 = replace_at(ast, r.idx, &def);
	Some(replace_at(&step1, d.idx, &RSchema::Ref(name.to_owned())))
}

/// All forward-reference variants of a valid AST: for each named type with a reference after
/// its (complete) definition, swap the definition with the first such reference; plus the
/// variant in which every such type is swapped (several references pending at once).
pub fn forward_variants(ast: &RSchema) -> Vec<RSchema> {
	let names: Vec<String> = sites(ast).iter().filter_map(|s| if let SiteKind::Def(n) = &s.kind { Some(n.clone()) } else { None }).collect();
	let mut out = Vec::new();
	let mut all = ast.clone();
	let mut swapped = 0;
	for n in &names {
		if let Some(v) = swap_forward(ast, n) {
			out.push(v);
		}
		if let Some(v) = swap_forward(&all, n) {
			all = v;
			swapped += 1;
		}
	}
	if swapped >= 2 {
		out.push(all);
	}
	out
}

/// Invalid ASTs derived from a valid one by a single edit.
pub fn invalid_ast_edits(ast: &RSchema) -> Vec<(&'static str, RSchema)> {
	let st = sites(ast);
	let defs: Vec<&Site> = st.iter().filter(|s| matches!(s.kind, SiteKind::Def(_))).collect();
	let def_names: Vec<String> = defs.iter().map(|s| if let SiteKind::Def(n) = &s.kind { n.clone() } else { unreachable!() }).collect();
	let mut out: Vec<(&'static str, RSchema)> = Vec::new();
	for s in &st {
		match &s.kind {
			SiteKind::Ref(n) => {
				// unknown reference, as a fullname and as a simple name
				out.push(("unknown-reference", replace_at(ast, s.idx, &RSchema::Ref("q.Nope".into()))));
				out.push(("unknown-reference", replace_at(ast, s.idx, &RSchema::Ref(join(&s.enclosing, "Nope")))));
				// duplicate definition: a second definition in place of the reference
				if let Some(d) = defs.iter().find(|d| d.kind == SiteKind::Def(n.clone())) {
					let def = inner_defs_to_refs(&get_at(ast, d.idx).unwrap(), true);
					// only if the copy's inner references are expressible at this site: fullnames
					// with a namespace always are; null-namespace ones only from the null namespace
					let copy_ns = split_fullname(n).0;
					let inner_ok = sites(&def).iter().all(|i| match &i.kind {
						SiteKind::Ref(r) => {
							let rns = split_fullname(r).0;
							!rns.is_empty() || copy_ns.is_empty()
						}
						_ => true,
					});
					if inner_ok {
						out.push(("duplicate-definition", replace_at(ast, s.idx, &def)));
					}
				}
			}
			_ => {}
		}
		// simple-name reference that only exists in another namespace
		if matches!(s.kind, SiteKind::Ref(_) | SiteKind::Prim) && !matches!(get_at(ast, s.idx), Some(RSchema::Null)) {
			for dn in &def_names {
				let (dns, simple) = split_fullname(dn);
				let wrong = join(&s.enclosing, simple);
				if dns != s.enclosing && !def_names.contains(&wrong) {
					// only if the parent is not a logical annotation
					let parent_is_logical = st.iter().any(|p| p.idx + 1 == s.idx && matches!(get_at(ast, p.idx), Some(RSchema::Logical(..))));
					if !parent_is_logical {
						out.push(("reference-in-wrong-namespace", replace_at(ast, s.idx, &RSchema::Ref(wrong))));
					}
				}
			}
		}
		if let SiteKind::Def(n) = &s.kind {
			// the definition removed: references to it dangle
			if st.iter().any(|r| r.kind == SiteKind::Ref(n.clone()) && !(r.idx > s.idx && r.idx < s.end)) && s.idx != 0 {
				out.push(("unknown-reference", replace_at(ast, s.idx, &RSchema::Int)));
			}
			// renamed to the fullname of another definition
			for other in &def_names {
				if other != n {
					// must not be an ancestor/descendant relation problem: any pair is a duplicate
					let def = get_at(ast, s.idx).unwrap();
					out.push(("duplicate-definition", replace_at(ast, s.idx, &rename_def(&def, other))));
				}
			}
		}
	}
	out
}

/// Invalid documents derived from a valid JSON document by deleting one required attribute or
/// replacing a node by the bare name of a complex type.
pub fn invalid_json_edits(doc: &J, all_complex_names: bool) -> Vec<(&'static str, J)> {
	// paths of schema-position nodes
	#[derive(Clone)]
	enum Step {
		Key(String),
		Idx(usize),
	}
	fn get<'a>(j: &'a J, path: &[Step]) -> &'a J {
		let mut cur = j;
		for s in path {
			cur = match (s, cur) {
				(Step::Key(k), J::Obj(_)) => cur.get(k).unwrap(),
				(Step::Idx(i), J::Arr(v)) => &v[*i],
				_ => unreachable!(),
			};
		}
		cur
	}
	fn set(j: &J, path: &[Step], f: &dyn Fn(&J) -> J) -> J {
		if path.is_empty() {
			return f(j);
		}
		match (&path[0], j) {
			(Step::Key(k), J::Obj(kv)) => J::Obj(kv.iter().map(|(kk, v)| if kk == k { (kk.clone(), set(v, &path[1..], f)) } else { (kk.clone(), v.clone()) }).collect()),
			(Step::Idx(i), J::Arr(v)) => J::Arr(v.iter().enumerate().map(|(ii, e)| if ii == *i { set(e, &path[1..], f) } else { e.clone() }).collect()),
			_ => unreachable!(),
		}
	}
	fn walk(j: &J, path: &mut Vec<Step>, nodes: &mut Vec<Vec<Step>>, fields: &mut Vec<Vec<Step>>) {
		nodes.push(path.clone());
		match j {
			J::Arr(v) => {
				for (i, b) in v.iter().enumerate() {
					path.push(Step::Idx(i));
					walk(b, path, nodes, fields);
					path.pop();
				}
			}
			J::Obj(_) => match j.get("type").and_then(|t| t.as_str()) {
				Some("record") => {
					if let Some(J::Arr(fs)) = j.get("fields") {
						for (i, f) in fs.iter().enumerate() {
							path.push(Step::Key("fields".into()));
							path.push(Step::Idx(i));
							fields.push(path.clone());
							if let Some(t) = f.get("type") {
								path.push(Step::Key("type".into()));
								walk(t, path, nodes, fields);
								path.pop();
							}
							path.pop();
							path.pop();
						}
					}
				}
				Some("array") => {
					if let Some(t) = j.get("items") {
						path.push(Step::Key("items".into()));
						walk(t, path, nodes, fields);
						path.pop();
					}
				}
				Some("map") => {
					if let Some(t) = j.get("values") {
						path.push(Step::Key("values".into()));
						walk(t, path, nodes, fields);
						path.pop();
					}
				}
				_ => {}
			},
			_ => {}
		}
	}
	let del = |key: &'static str| move |j: &J| -> J {
		match j {
			J::Obj(kv) => J::Obj(kv.iter().filter(|(k, _)| k != key).cloned().collect()),
			o => o.clone(),
		}
	};
	let mut nodes = Vec::new();
	let mut fields = Vec::new();
	walk(doc, &mut Vec::new(), &mut nodes, &mut fields);
	let mut out: Vec<(&'static str, J)> = Vec::new();
	for p in &nodes {
		let n = get(doc, p);
		if let J::Obj(_) = n {
			out.push(("missing-type", set(doc, p, &del("type"))));
			let required: &[(&str, &'static str, &'static str)] = &[
				("record", "name", "missing-name"),
				("record", "fields", "missing-fields"),
				("enum", "name", "missing-name"),
				("enum", "symbols", "missing-symbols"),
				("fixed", "name", "missing-name"),
				("fixed", "size", "missing-size"),
				("array", "items", "missing-items"),
				("map", "values", "missing-values"),
			];
			let t = n.get("type").and_then(|t| t.as_str()).unwrap_or("");
			for (ty, key, class) in required {
				if t == *ty && n.get(key).is_some() {
					out.push((class, set(doc, p, &del(key))));
				}
			}
			if n.get("logicalType").and_then(|l| l.as_str()) == Some("decimal") && n.get("precision").is_some() {
				out.push(("missing-precision", set(doc, p, &del("precision"))));
			}
		}
		let names: &[&str] = if all_complex_names { &["record", "enum", "fixed", "array", "map"] } else { &["record", "array"] };
		for complex in names.iter().copied() {
			out.push(("complex-type-as-bare-string", set(doc, p, &|_| J::Str(complex.into()))));
		}
	}
	for p in &fields {
		out.push(("missing-field-type", set(doc, p, &del("type"))));
		out.push(("missing-field-name", set(doc, p, &del("name"))));
	}
	out
}

// ---------------------------------------------------------------------------------------------
// Spelling plans

pub struct DiagPick(pub usize);
impl Pick for DiagPick {
	fn pick(&mut self, n: usize) -> usize {
		self.0 % n
	}
}

#[derive(Clone, Debug)]
pub enum SpellTok {
	Product(Vec<usize>),
	Diag(usize),
}

pub fn doc_cfgs() -> Vec<(usize, usize, usize)> {
	let mut v = Vec::new();
	for attr_order in 0..3 {
		for extras in 0..3 {
			for whitespace in 0..2 {
				v.push((attr_order, extras, whitespace));
			}
		}
	}
	v
}

pub struct Doc<'a> {
	pub case: &'a AstCase,
	pub text: String,
	pub tok: SpellTok,
	pub cfg: SpellCfg,
}

impl Doc<'_> {
	pub fn replay(&self, check: &str) -> serde_json::Value {
		let plain = spell(&self.case.ast, &mut vmodel::Zero, &SpellCfg::plain());
		serde_json::json!({
			"check": check,
			"kind": "doc",
			"family": self.case.family,
			"ast_choices": self.case.choices,
			"ast_plain": plain,
			"expect": expect_str(&self.case.expect),
			"text": self.text,
			"spelling": format!("{:?} {:?}", self.tok, self.cfg),
		})
	}
	pub fn nontrivial(&self) -> bool {
		self.case.feats.refs >= 1 || self.case.feats.ns_transitions >= 1
	}
}

pub fn expect_str(e: &Expect) -> String {
	match e {
		Expect::Valid => "valid".into(),
		Expect::ValidForward => "valid-forward".into(),
		Expect::Invalid(c) => format!("invalid:{c}"),
	}
}

pub fn expect_from_str(s: &str) -> Expect {
	match s {
		"valid" => Expect::Valid,
		"valid-forward" => Expect::ValidForward,
		other => {
			let c = other.strip_prefix("invalid:").unwrap_or("unknown");
			// leak: replay only
			Expect::Invalid(Box::leak(c.to_owned().into_boxed_str()))
		}
	}
}

#[derive(Clone, Debug)]
pub struct Plan {
	/// per-site product over definition-name and reference spellings (document-level plain)
	pub product_names_refs: bool,
	/// leaf cap of one product walk
	pub product_cap: u64,
	/// "every site takes option k" for k in 0..4, under all 18 document-level configurations
	pub diag: bool,
	/// ASTs with more named types get the reduced diagonal set (k = 0..3 plain, k = 1 under the
	/// 17 other document-level configurations)
	pub diag_full_max_named: usize,
	/// full product names x refs x primitives x scale x 18 document-level configurations, for
	/// small ASTs (<= 14 nodes) with at most this many named types (0 = never)
	pub full_product_max_named: usize,
	/// names x refs x primitives x scale under the plain document-level configuration, for small
	/// ASTs with at most this many named types
	pub all_sites_product_max_named: usize,
	/// names x refs under each of the 17 other document-level configurations, for ASTs with at
	/// most this many named types
	pub cfg_product_max_named: usize,
	/// bare type-position strings (primitives and references) written with a \uXXXX escape: all
	/// sites at once for every AST (5 documents), per site for ASTs with <= 2 named types
	/// 0 = none, 1 = the all-sites spellings only, 2 = all-sites and per-site
	pub escapes: usize,
}

/// Enumerate the spellings of one case according to the plan.
pub fn for_each_spelling(case: &AstCase, plan: &Plan, cover: &mut Cover, f: &mut dyn FnMut(&Doc, &mut Cover)) {
	let invalid = matches!(case.expect, Expect::Invalid(_));
	if invalid {
		// invalid ASTs: the four diagonal spellings, plain document level, plus one decorated
		for k in 0..4 {
			let cfg = SpellCfg { vary_names: true, vary_refs: true, vary_prims: true, vary_scale: false, attr_order: 0, extras: 0, whitespace: 0 };
			let text = spell(&case.ast, &mut DiagPick(k), &cfg);
			f(&Doc { case, text, tok: SpellTok::Diag(k), cfg }, cover);
		}
		let cfg = SpellCfg { vary_names: true, vary_refs: true, vary_prims: true, vary_scale: false, attr_order: 2, extras: 1, whitespace: 1 };
		let text = spell(&case.ast, &mut DiagPick(1), &cfg);
		f(&Doc { case, text, tok: SpellTok::Diag(1), cfg }, cover);
		cover.states += 5;
		cover.transitions += 5;
		return;
	}
	if plan.product_names_refs {
		let cfg = SpellCfg { vary_names: true, vary_refs: true, vary_prims: false, vary_scale: case.vary_scale, attr_order: 0, extras: 0, whitespace: 0 };
		let st = explore(None, plan.product_cap, |ch| {
			let text = spell(&case.ast, ch, &cfg);
			f(&Doc { case, text, tok: SpellTok::Product(ch.choices()), cfg: cfg.clone() }, cover);
			true
		});
		cover.add_tree(&st, &format!("spelling product of {} {:?}", case.family, case.choices));
	}
	if plan.diag {
		let full = case.feats.named <= plan.diag_full_max_named || !case.family.starts_with('k');
		for (attr_order, extras, whitespace) in doc_cfgs() {
			for k in 0..4 {
				// reduced set: k = 0..3 under the plain configuration, k = 1 under the 17 others
				if !full && (attr_order, extras, whitespace) != (0, 0, 0) && k != 1 {
					continue;
				}
				let cfg = SpellCfg { vary_names: true, vary_refs: true, vary_prims: true, vary_scale: false, attr_order, extras, whitespace };
				let text = spell(&case.ast, &mut DiagPick(k), &cfg);
				f(&Doc { case, text, tok: SpellTok::Diag(k), cfg }, cover);
				cover.states += 1;
				cover.transitions += 1;
			}
		}
	}
	if plan.escapes >= 1 {
		// every bare type-position string escaped (first character for even k, last for odd k)
		let mut cfgs: Vec<(usize, SpellCfg)> = (0..4).map(|k| (k, SpellCfg { vary_names: true, vary_refs: true, vary_prims: true, vary_scale: false, attr_order: 0, extras: 0, whitespace: 0 })).collect();
		// every string position the parser reads, escaped: two decorated spellings with all
		// positions at once (for every AST), one spelling per position kind (small ASTs and the
		// hand-written families)
		{
			let cfg_a = SpellCfg { vary_names: true, vary_refs: true, vary_prims: true, vary_scale: false, attr_order: 0, extras: 1, whitespace: 0 };
			let cfg_b = SpellCfg { vary_names: true, vary_refs: true, vary_prims: true, vary_scale: false, attr_order: 2, extras: 2, whitespace: 1 };
			let a = spell(&case.ast, &mut DiagPick(2), &cfg_a);
			let b = spell(&case.ast, &mut DiagPick(1), &cfg_b);
			let mut emit = |base: &str, kind: EscKind, last: bool, k: usize, cfg: &SpellCfg, cover: &mut Cover| {
				let (text, n) = escape_kind(base, kind, last);
				if n > 0 {
					cover.count(&format!("escaped_spellings:{kind:?}"), 1);
					cover.states += 1;
					cover.transitions += 1;
					f(&Doc { case, text, tok: SpellTok::Diag(k), cfg: cfg.clone() }, cover);
				}
			};
			emit(&a, EscKind::All, false, 2, &cfg_a, cover);
			emit(&b, EscKind::All, true, 1, &cfg_b, cover);
			if case.feats.named <= 1 || !case.family.starts_with('k') {
				for (i, kind) in ESC_KINDS.iter().enumerate() {
					if *kind == EscKind::UnknownKey {
						emit(&b, *kind, i % 2 == 1, 1, &cfg_b, cover);
					} else {
						emit(&a, *kind, i % 2 == 1, 2, &cfg_a, cover);
					}
				}
			}
		}
		for (k, cfg) in cfgs {
			let text = spell(&case.ast, &mut DiagPick(k), &cfg);
			let (text, n) = escape_type_strings(&text, &mut |_| Some(k % 2 == 1));
			if n > 0 {
				f(&Doc { case, text, tok: SpellTok::Diag(k), cfg }, cover);
				cover.states += 1;
				cover.transitions += 1;
			}
		}
		// per site: every non-empty subset of the sites (<= 4 sites) or every single site
		if plan.escapes >= 2 && (case.feats.named <= 2 || !case.family.starts_with('k')) {
			let cfg = SpellCfg::plain();
			let base = spell(&case.ast, &mut vmodel::Zero, &cfg);
			let (_, n) = escape_type_strings(&base, &mut |_| None);
			let subsets: Vec<u64> = if n <= 4 { (1..(1u64 << n)).collect() } else { (0..n.min(60)).map(|i| 1u64 << i).collect() };
			for m in subsets {
				let (text, _) = escape_type_strings(&base, &mut |i| if m >> i & 1 == 1 { Some(false) } else { None });
				f(&Doc { case, text, tok: SpellTok::Diag(0), cfg: cfg.clone() }, cover);
				cover.states += 1;
				cover.transitions += 1;
			}
		}
	}
	let small = case.ast.size() <= 14;
	let mut product = |cfg: SpellCfg, what: &str, cover: &mut Cover| {
		let st = explore(None, plan.product_cap, |ch| {
			let text = spell(&case.ast, ch, &cfg);
			f(&Doc { case, text, tok: SpellTok::Product(ch.choices()), cfg: cfg.clone() }, cover);
			true
		});
		cover.add_tree(&st, &format!("{what} of {} {:?}", case.family, case.choices));
	};
	if small && case.feats.named <= plan.full_product_max_named {
		for (attr_order, extras, whitespace) in doc_cfgs() {
			product(SpellCfg { vary_names: true, vary_refs: true, vary_prims: true, vary_scale: case.vary_scale, attr_order, extras, whitespace }, "full spelling product", cover);
		}
	} else {
		if small && case.feats.named <= plan.all_sites_product_max_named {
			product(SpellCfg { vary_names: true, vary_refs: true, vary_prims: true, vary_scale: case.vary_scale, attr_order: 0, extras: 0, whitespace: 0 }, "all-sites spelling product", cover);
		}
		if case.feats.named <= plan.cfg_product_max_named {
			for (attr_order, extras, whitespace) in doc_cfgs() {
				if (attr_order, extras, whitespace) != (0, 0, 0) {
					product(SpellCfg { vary_names: true, vary_refs: true, vary_prims: false, vary_scale: false, attr_order, extras, whitespace }, "name/reference spelling product under a document-level configuration", cover);
				}
			}
		}
	}
}

pub fn plan(thorough: bool) -> Plan {
	if thorough {
		Plan { product_names_refs: true, product_cap: 200_000, diag: true, diag_full_max_named: 2, full_product_max_named: 1, all_sites_product_max_named: 2, cfg_product_max_named: 2, escapes: 2 }
	} else {
		Plan { product_names_refs: true, product_cap: 20_000, diag: true, diag_full_max_named: 2, full_product_max_named: 0, all_sites_product_max_named: 0, cfg_product_max_named: 0, escapes: 2 }
	}
}

// ---------------------------------------------------------------------------------------------
// Case enumeration (streamed: only the choice vectors of the base ASTs are kept in memory)

pub struct BaseSet {
	pub grammars: Vec<Bounds>,
	/// (grammar index, choice vector) of every distinct AST of the grammars
	pub bases: Vec<(u8, Vec<u8>)>,
	pub specials: Vec<(String, RSchema, bool)>,
	pub grammar_nodes: u64,
	pub grammar_leaves: u64,
	pub rejected: u64,
	pub thorough: bool,
}

pub fn bases(thorough: bool) -> BaseSet {
	let grammars = grammars(thorough);
	let mut bases: Vec<(u8, Vec<u8>)> = Vec::new();
	let mut nodes = 0u64;
	let mut leaves = 0u64;
	let mut rejected = 0u64;
	let mut seen: HashSet<u64> = HashSet::new();
	for (gi, b) in grammars.iter().enumerate() {
		let st = explore(None, u64::MAX, |ch| {
			match gen_ast(ch, b) {
				Some(ast) => {
					if seen.insert(hash64(&ast)) {
						bases.push((gi as u8, ch.choices().into_iter().map(|c| c as u8).collect()));
					}
				}
				None => rejected += 1,
			}
			true
		});
		nodes += st.nodes;
		leaves += st.leaves;
	}
	let specials: Vec<(String, RSchema, bool)> = specials().into_iter().filter(|(_, ast, _)| seen.insert(hash64(ast))).collect();
	BaseSet { grammars, bases, specials, grammar_nodes: nodes, grammar_leaves: leaves, rejected, thorough }
}

pub fn case_of_grammar(b: &Bounds, choices: Vec<usize>) -> AstCase {
	let mut ch = Chooser::replay(choices.clone());
	let ast = gen_ast(&mut ch, b).expect("base AST regenerates");
	let expect = if has_unconditional_record_cycle(&ast) { Expect::Invalid("unconditional-record-cycle") } else { Expect::Valid };
	AstCase::new(b.label, choices, ast, expect)
}

pub fn case_of_special(label: &str, i: usize, ast: &RSchema, vary_scale: bool) -> AstCase {
	let expect = if defined_before_use(ast) { Expect::Valid } else { Expect::ValidForward };
	let mut c = AstCase::new(label, vec![i], ast.clone(), expect);
	c.vary_scale = vary_scale;
	c
}

impl BaseSet {
	pub fn len(&self) -> usize {
		self.bases.len() + self.specials.len()
	}
	pub fn case(&self, i: usize) -> AstCase {
		if i < self.bases.len() {
			let (gi, choices) = &self.bases[i];
			case_of_grammar(&self.grammars[*gi as usize], choices.iter().map(|c| *c as usize).collect())
		} else {
			let i = i - self.bases.len();
			let (label, ast, vary_scale) = &self.specials[i];
			case_of_special(label, i, ast, *vary_scale)
		}
	}
	/// ASTs whose single-edit invalid derivatives are enumerated
	pub fn derive_invalid_from(&self, c: &AstCase) -> bool {
		if c.family.starts_with("fwd2") {
			return true;
		}
		if c.expect != Expect::Valid {
			return false;
		}
		if c.family.starts_with('k') {
			c.feats.named <= if self.thorough { 3 } else { 2 }
		} else {
			!c.family.starts_with("logical-fields")
		}
	}
}

pub fn derived_forward(c: &AstCase) -> Vec<AstCase> {
	if c.expect != Expect::Valid {
		return vec![];
	}
	let mut seen = HashSet::new();
	forward_variants(&c.ast)
		.into_iter()
		.enumerate()
		.filter(|(_, fw)| seen.insert(hash64(fw)))
		.map(|(i, fw)| {
			let mut ch = c.choices.clone();
			ch.push(i);
			AstCase::new(&format!("{}+forward", c.family), ch, fw, Expect::ValidForward)
		})
		.collect()
}

pub fn derived_invalid(c: &AstCase) -> Vec<AstCase> {
	let mut seen = HashSet::new();
	invalid_ast_edits(&c.ast)
		.into_iter()
		.enumerate()
		.filter(|(_, (_, bad))| seen.insert(hash64(bad)))
		.map(|(i, (class, bad))| {
			let mut ch = c.choices.clone();
			ch.push(i);
			AstCase::new(&format!("{}+{}", c.family, class), ch, bad, Expect::Invalid(class))
		})
		.collect()
}

/// Run `f` on every base case, in parallel over chunks of cases; results merged in case order.
pub fn par_bases(set: &BaseSet, f: &(dyn Fn(&AstCase, &mut Cover, &mut Vec<Violation>) + Sync)) -> (Cover, Vec<Violation>) {
	let idx: Vec<usize> = (0..set.len()).collect();
	let (mut cover, out) = idx
		.par_chunks(64)
		.map(|chunk| {
			let mut cover = Cover::default();
			let mut out: Vec<Violation> = Vec::new();
			for &i in chunk {
				if !room(&cover, &out) {
					break;
				}
				let case = set.case(i);
				f(&case, &mut cover, &mut out);
			}
			(cover, out)
		})
		.reduce(
			|| (Cover::default(), Vec::new()),
			|mut a, b| {
				a.0.merge(b.0);
				if a.1.len() < 2000 {
					a.1.extend(b.1);
				}
				a
			},
		);
	cover.states += set.grammar_nodes + 1;
	cover.transitions += set.grammar_nodes;
	(cover, out)
}

/// Per-chunk violation cap. Violations of a class that is attributed to a single known cause
/// (counter `attributed_violations`) do not use up the room, so that a known finding cannot
/// hide the rest of the chunk.
pub fn room(cover: &Cover, out: &[Violation]) -> bool {
	(out.len() as u64) < 100 + cover.counters.get("attributed_violations").copied().unwrap_or(0)
}

/// Judge every spelling of a case.
pub fn spell_and_judge(case: &AstCase, plan: &Plan, cover: &mut Cover, out: &mut Vec<Violation>, judge: &dyn Fn(&Doc, &mut Cover, &mut Vec<Violation>)) {
	for_each_spelling(case, plan, cover, &mut |doc, cover| {
		if room(cover, out) {
			judge(doc, cover, out);
		}
	});
}

// ---------------------------------------------------------------------------------------------
// Model self-check: the spelled document denotes the AST (protects against false alarms caused
// by the generator). Returns an error text on disagreement (machinery error, not a verdict).

pub fn model_agrees(doc: &Doc) -> Result<(), String> {
	let forward = doc.case.expect == Expect::ValidForward;
	match resolve_text(&doc.text, &ResolveCfg { allow_forward: forward, allow_leading_dot: false }) {
		Ok(back) if back == doc.case.ast => Ok(()),
		Ok(back) => Err(format!("the reference resolver reads {} as {back:?}, generator meant {:?}", doc.text, doc.case.ast)),
		Err(e) => Err(format!("the reference resolver rejects {}: {e} (generator meant {:?})", doc.text, doc.case.ast)),
	}
}

/// For invalid cases: the model must reject too (resolver error, or unconditional cycle).
pub fn model_rejects(text: &str) -> bool {
	match resolve_text(text, &ResolveCfg { allow_forward: true, allow_leading_dot: false }) {
		Err(_) => true,
		Ok(ast) => has_unconditional_record_cycle(&ast),
	}
}

// ---------------------------------------------------------------------------------------------
// Bisimulation AST <-> crate node graph

fn logical_matches(l: Option<&Logical>, c: Option<&LogicalType>) -> bool {
	match (l, c) {
		(None, None) => true,
		(Some(Logical::Decimal { precision, scale }), Some(LogicalType::Decimal(d))) => d.precision == *precision && d.scale == *scale,
		(Some(Logical::Decimal { .. }), _) | (_, Some(LogicalType::Decimal(_))) => false,
		(Some(l), Some(c)) => l.name() == c.as_str() && matches!(l, Logical::Unknown(_)) == matches!(c, LogicalType::Unknown(_)),
		_ => false,
	}
}

pub fn kind_name(t: &RegularType) -> &'static str {
	match t {
		RegularType::Null => "null",
		RegularType::Boolean => "boolean",
		RegularType::Int => "int",
		RegularType::Long => "long",
		RegularType::Float => "float",
		RegularType::Double => "double",
		RegularType::Bytes => "bytes",
		RegularType::String => "string",
		RegularType::Array(_) => "array",
		RegularType::Map(_) => "map",
		RegularType::Union(_) => "union",
		RegularType::Record(_) => "record",
		RegularType::Enum(_) => "enum",
		RegularType::Fixed(_) => "fixed",
	}
}

/// `Ok(())` iff the graph reachable from `nodes[0]` is bisimilar to the AST: same kinds,
/// fullnames, field names in order, symbols in order, sizes, logical types with parameters, and
/// every reference lands on the node index of its definition.
pub fn bisim(ast: &RSchema, nodes: &[SchemaNode]) -> Result<(), String> {
	struct St<'a> {
		nodes: &'a [SchemaNode],
		at: HashMap<String, usize>,
		defined: HashSet<String>,
	}
	fn name_ok(full: &str, n: &serde_avro_fast::schema::Name) -> bool {
		let (ns, simple) = split_fullname(full);
		n.fully_qualified_name() == full && n.name() == simple && n.namespace().unwrap_or("") == ns
	}
	fn land(st: &mut St, name: &str, idx: usize, path: &str, what: &str) -> Result<(), String> {
		match st.at.get(name) {
			Some(&i) if i != idx => Err(format!("{path}: {what} of {name} is node {idx}, but another occurrence of {name} is node {i}")),
			Some(_) => Ok(()),
			None => {
				st.at.insert(name.to_owned(), idx);
				Ok(())
			}
		}
	}
	fn go(s: &RSchema, idx: usize, path: &str, st: &mut St) -> Result<(), String> {
		let all: &[SchemaNode] = st.nodes;
		let node = all.get(idx).ok_or_else(|| format!("{path}: key {idx} out of range ({} nodes)", all.len()))?;
		let (l, base) = match s {
			RSchema::Logical(l, b) => (Some(l), &**b),
			s => (None, s),
		};
		if let RSchema::Ref(n) = base {
			match node.type_.name() {
				Some(nm) if name_ok(n, nm) => {}
				other => return Err(format!("{path}: reference to {n} lands on node {idx} which is {} {:?}", kind_name(&node.type_), other.map(|n| n.fully_qualified_name().to_owned()))),
			}
			return land(st, n, idx, path, "reference");
		}
		if !logical_matches(l, node.logical_type.as_ref()) {
			return Err(format!("{path}: logical type {:?} expected, node {idx} has {:?}", l, node.logical_type));
		}
		let mismatch = |what: &str| Err(format!("{path}: expected {what}, node {idx} is {} ({:?})", kind_name(&node.type_), node.type_));
		match (base, &node.type_) {
			(RSchema::Null, RegularType::Null)
			| (RSchema::Boolean, RegularType::Boolean)
			| (RSchema::Int, RegularType::Int)
			| (RSchema::Long, RegularType::Long)
			| (RSchema::Float, RegularType::Float)
			| (RSchema::Double, RegularType::Double)
			| (RSchema::Bytes, RegularType::Bytes)
			| (RSchema::String, RegularType::String) => Ok(()),
			(RSchema::Array(i), RegularType::Array(a)) => go(i, a.items.idx(), &format!("{path}/items"), st),
			(RSchema::Map(i), RegularType::Map(m)) => go(i, m.values.idx(), &format!("{path}/values"), st),
			(RSchema::Union(v), RegularType::Union(u)) => {
				if v.len() != u.variants.len() {
					return mismatch(&format!("union of {} branches", v.len()));
				}
				for (i, (b, k)) in v.iter().zip(&u.variants).enumerate() {
					go(b, k.idx(), &format!("{path}/{i}"), st)?;
				}
				Ok(())
			}
			(RSchema::Record { name, fields }, RegularType::Record(r)) => {
				if !name_ok(name, &r.name) {
					return mismatch(&format!("record {name}"));
				}
				land(st, name, idx, path, "definition")?;
				if !st.defined.insert(name.clone()) {
					return Err(format!("MACHINERY: AST defines {name} twice"));
				}
				if fields.len() != r.fields.len() {
					return mismatch(&format!("record {name} with {} fields", fields.len()));
				}
				for ((fname, ft), rf) in fields.iter().zip(&r.fields) {
					if *fname != rf.name {
						return mismatch(&format!("record {name} with field {fname} here (found {})", rf.name));
					}
					go(ft, rf.type_.idx(), &format!("{path}/{fname}"), st)?;
				}
				Ok(())
			}
			(RSchema::Enum { name, symbols }, RegularType::Enum(e)) => {
				if !name_ok(name, &e.name) || *symbols != e.symbols {
					return mismatch(&format!("enum {name} {symbols:?}"));
				}
				land(st, name, idx, path, "definition")?;
				st.defined.insert(name.clone());
				Ok(())
			}
			(RSchema::Fixed { name, size }, RegularType::Fixed(f)) => {
				if !name_ok(name, &f.name) || *size != f.size {
					return mismatch(&format!("fixed {name} size {size}"));
				}
				land(st, name, idx, path, "definition")?;
				st.defined.insert(name.clone());
				Ok(())
			}
			(other, _) => mismatch(&format!("{other:?}")),
		}
	}
	let mut st = St { nodes, at: HashMap::new(), defined: HashSet::new() };
	go(ast, 0, "", &mut st)?;
	for n in st.at.keys() {
		if !st.defined.contains(n) {
			return Err(format!("MACHINERY: AST refers to {n} but never defines it"));
		}
	}
	Ok(())
}

/// No whitespace outside string literals.
pub fn is_minified(text: &str) -> bool {
	let mut in_str = false;
	let mut esc = false;
	for c in text.chars() {
		if in_str {
			if esc {
				esc = false;
			} else if c == '\\' {
				esc = true;
			} else if c == '"' {
				in_str = false;
			}
		} else if c == '"' {
			in_str = true;
		} else if c.is_whitespace() {
			return false;
		}
	}
	true
}

/// Ordered JSON equality: same keys in the same order, strings equal after unescaping, numbers
/// equal by value.
pub fn json_same(a: &J, b: &J) -> bool {
	match (a, b) {
		(J::Num(x), J::Num(y)) => x == y || matches!((x.parse::<f64>(), y.parse::<f64>()), (Ok(p), Ok(q)) if p == q),
		(J::Arr(x), J::Arr(y)) => x.len() == y.len() && x.iter().zip(y).all(|(p, q)| json_same(p, q)),
		(J::Obj(x), J::Obj(y)) => x.len() == y.len() && x.iter().zip(y).all(|((k1, v1), (k2, v2))| k1 == k2 && json_same(v1, v2)),
		(x, y) => x == y,
	}
}

// ---------------------------------------------------------------------------------------------
// Single edits for C08's difference pairs

/// Rename a named type everywhere (definition and references).
pub fn rename_all(s: &RSchema, old: &str, new: &str) -> RSchema {
	let r = |n: &String| if n == old { new.to_owned() } else { n.clone() };
	match s {
		RSchema::Logical(l, b) => RSchema::Logical(l.clone(), Box::new(rename_all(b, old, new))),
		RSchema::Array(b) => RSchema::Array(Box::new(rename_all(b, old, new))),
		RSchema::Map(b) => RSchema::Map(Box::new(rename_all(b, old, new))),
		RSchema::Union(v) => RSchema::Union(v.iter().map(|b| rename_all(b, old, new)).collect()),
		RSchema::Record { name, fields } => RSchema::Record { name: r(name), fields: fields.iter().map(|(n, f)| (n.clone(), rename_all(f, old, new))).collect() },
		RSchema::Enum { name, symbols } => RSchema::Enum { name: r(name), symbols: symbols.clone() },
		RSchema::Fixed { name, size } => RSchema::Fixed { name: r(name), size: *size },
		RSchema::Ref(name) => RSchema::Ref(r(name)),
		other => other.clone(),
	}
}

/// Every reference can be written per the specification at its site.
pub fn expressible(s: &RSchema) -> bool {
	sites(s).iter().all(|site| match &site.kind {
		SiteKind::Ref(n) => {
			let ns = split_fullname(n).0;
			ns == site.enclosing || !ns.is_empty()
		}
		_ => true,
	})
}

/// (changing, preserving): single edits that change / do not change the Parsing Canonical Form.
pub fn pcf_edits(ast: &RSchema) -> (Vec<(&'static str, RSchema)>, Vec<(&'static str, RSchema)>) {
	let st = sites(ast);
	let mut changing: Vec<(&'static str, RSchema)> = Vec::new();
	let mut preserving: Vec<(&'static str, RSchema)> = Vec::new();
	let node = |idx: usize| get_at(ast, idx).unwrap();
	let all_names: Vec<String> = st.iter().filter_map(|s| if let SiteKind::Def(n) = &s.kind { Some(n.clone()) } else { None }).collect();
	for s in &st {
		let parent = if s.parent == usize::MAX { None } else { Some(node(s.parent)) };
		let under_logical = matches!(parent, Some(RSchema::Logical(..)));
		let under_union = matches!(parent, Some(RSchema::Union(_)));
		let me = node(s.idx);
		if !under_logical && !under_union {
			changing.push(("wrapped-in-array", replace_at(ast, s.idx, &RSchema::array(me.clone()))));
		}
		match &me {
			RSchema::Int if !under_logical => {
				if !(under_union && matches!(&parent, Some(RSchema::Union(v)) if v.contains(&RSchema::Long))) {
					changing.push(("int-to-long", replace_at(ast, s.idx, &RSchema::Long)));
				}
				preserving.push(("logical-type-added", replace_at(ast, s.idx, &RSchema::logical(Logical::Date, RSchema::Int))));
			}
			RSchema::Union(v) if v.len() >= 2 => {
				let mut w = v.clone();
				w.swap(0, 1);
				changing.push(("branches-swapped", replace_at(ast, s.idx, &RSchema::Union(w))));
			}
			_ => {}
		}
		if let SiteKind::Def(name) = &s.kind {
			let (ns, simple) = split_fullname(name);
			let q = join(ns, "Q");
			if !all_names.contains(&q) {
				changing.push(("renamed", rename_all(ast, name, &q)));
			}
			for other in NAMESPACES {
				let moved = join(other, simple);
				if other != ns && !all_names.contains(&moved) {
					let e = rename_all(ast, name, &moved);
					if expressible(&e) {
						changing.push(("namespace-changed", e));
					}
				}
			}
			let (l, base) = match &me {
				RSchema::Logical(l, b) => (Some(l.clone()), (**b).clone()),
				b => (None, b.clone()),
			};
			let rewrap = |b: RSchema| match &l {
				Some(l) => RSchema::Logical(l.clone(), Box::new(b)),
				None => b,
			};
			match &base {
				RSchema::Record { name, fields } => {
					if fields.len() >= 2 {
						let mut f = fields.clone();
						f.swap(0, 1);
						changing.push(("fields-reordered", replace_at(ast, s.idx, &rewrap(RSchema::Record { name: name.clone(), fields: f }))));
					}
					let mut f = fields.clone();
					f[0].0 = "zz".into();
					changing.push(("field-renamed", replace_at(ast, s.idx, &rewrap(RSchema::Record { name: name.clone(), fields: f }))));
				}
				RSchema::Enum { name, symbols } => {
					if symbols.len() >= 2 {
						let mut sy = symbols.clone();
						sy.swap(0, 1);
						changing.push(("symbols-reordered", replace_at(ast, s.idx, &rewrap(RSchema::Enum { name: name.clone(), symbols: sy }))));
					}
					if !symbols.is_empty() {
						let mut sy = symbols.clone();
						sy[0] = "ZZ".into();
						changing.push(("symbol-renamed", replace_at(ast, s.idx, &rewrap(RSchema::Enum { name: name.clone(), symbols: sy }))));
					}
					// a symbol added (in particular to an enum without symbols)
					let mut sy = symbols.clone();
					sy.push("".into());
					if !symbols.contains(&String::new()) {
						changing.push(("symbol-added", replace_at(ast, s.idx, &rewrap(RSchema::Enum { name: name.clone(), symbols: sy }))));
					}
				}
				RSchema::Fixed { name, size } => {
					changing.push(("size-changed", replace_at(ast, s.idx, &rewrap(RSchema::Fixed { name: name.clone(), size: size + 1 }))));
				}
				_ => {}
			}
			if l.is_none() {
				preserving.push(("logical-type-added", replace_at(ast, s.idx, &RSchema::logical(Logical::Unknown("x-custom".into()), base.clone()))));
			}
		}
	}
	changing.retain(|(_, e)| defined_before_use(e));
	preserving.retain(|(_, e)| defined_before_use(e));
	(changing, preserving)
}

/// Every reference comes after the start of the definition it refers to (document order).
pub fn defined_before_use(s: &RSchema) -> bool {
	let st = sites(s);
	st.iter().all(|r| match &r.kind {
		SiteKind::Ref(n) => st.iter().any(|d| d.kind == SiteKind::Def(n.clone()) && d.idx < r.idx),
		_ => true,
	})
}

/// A record that contains itself through record fields only (directly or through other
/// records). Own implementation over the AST: looks through logical annotations and resolves
/// references to definitions anywhere in the document.
pub fn has_unconditional_record_cycle(root: &RSchema) -> bool {
	fn collect<'a>(s: &'a RSchema, defs: &mut HashMap<&'a str, &'a RSchema>) {
		match s {
			RSchema::Logical(_, b) | RSchema::Array(b) | RSchema::Map(b) => collect(b, defs),
			RSchema::Union(v) => v.iter().for_each(|b| collect(b, defs)),
			RSchema::Record { name, fields } => {
				defs.insert(name, s);
				fields.iter().for_each(|(_, f)| collect(f, defs));
			}
			_ => {}
		}
	}
	fn visit<'a>(s: &'a RSchema, defs: &HashMap<&'a str, &'a RSchema>, stack: &mut Vec<&'a str>) -> bool {
		let s = match s {
			RSchema::Logical(_, b) => &**b,
			s => s,
		};
		let s = match s {
			RSchema::Ref(n) => match defs.get(n.as_str()) {
				Some(d) => *d,
				None => return false,
			},
			s => s,
		};
		if let RSchema::Record { name, fields } = s {
			if stack.contains(&name.as_str()) {
				return true;
			}
			stack.push(name);
			for (_, f) in fields {
				if visit(f, defs, stack) {
					return true;
				}
			}
			stack.pop();
		}
		false
	}
	let mut defs = HashMap::new();
	collect(root, &mut defs);
	let all: Vec<&RSchema> = defs.values().copied().collect();
	all.into_iter().any(|d| visit(d, &defs, &mut Vec::new()))
}

/// Maximal number of distinct names referred to before their definition at one point of the
/// document (references pending at once).
pub fn pending_at_once(s: &RSchema) -> usize {
	let st = sites(s);
	let mut pending: Vec<&str> = Vec::new();
	let mut max = 0;
	for site in &st {
		match &site.kind {
			SiteKind::Ref(n) => {
				let defined = st.iter().any(|d| d.kind == SiteKind::Def(n.clone()) && d.idx < site.idx);
				if !defined && !pending.contains(&n.as_str()) {
					pending.push(n);
					max = max.max(pending.len());
				}
			}
			SiteKind::Def(n) => pending.retain(|p| p != n),
			_ => {}
		}
	}
	max
}

// ---------------------------------------------------------------------------------------------
// JSON escapes in type position

const ESC_MARK: char = '\u{E000}';

/// Rewrite a schema document so that chosen bare strings in TYPE position (the root, a field's
/// `type`, array `items`, map `values`, union members — primitives and references; not the
/// `type` attribute of a schema object, not names) are written with a `\uXXXX` escape for one
/// of their characters. `choose(site index)` returns `None` (leave), `Some(false)` (escape the
/// first character) or `Some(true)` (escape the last). Returns the text and the number of sites.
pub fn escape_type_strings(text: &str, choose: &mut dyn FnMut(usize) -> Option<bool>) -> (String, usize) {
	fn node(j: &mut J, n: &mut usize, choose: &mut dyn FnMut(usize) -> Option<bool>) {
		match j {
			J::Str(s) => {
				let i = *n;
				*n += 1;
				if s.is_empty() {
					return;
				}
				match choose(i) {
					None => {}
					Some(false) => s.insert(0, ESC_MARK),
					Some(true) => {
						let at = s.char_indices().last().map(|(i, _)| i).unwrap_or(0);
						s.insert(at, ESC_MARK);
					}
				}
			}
			J::Arr(v) => v.iter_mut().for_each(|b| node(b, n, choose)),
			J::Obj(kv) => {
				let t = kv.iter().find(|(k, _)| k == "type").and_then(|(_, v)| v.as_str()).map(|s| s.to_owned());
				let key = match t.as_deref() {
					Some("record") => "fields",
					Some("array") => "items",
					Some("map") => "values",
					_ => return,
				};
				for (k, v) in kv.iter_mut() {
					if k != key {
						continue;
					}
					if key == "fields" {
						if let J::Arr(fs) = v {
							for f in fs.iter_mut() {
								if let J::Obj(fkv) = f {
									for (fk, fv) in fkv.iter_mut() {
										if fk == "type" {
											node(fv, n, choose);
										}
									}
								}
							}
						}
					} else {
						node(v, n, choose);
					}
				}
			}
			_ => {}
		}
	}
	fn pretty(j: &J, ind: usize, out: &mut String) {
		let pad = |n: usize, out: &mut String| {
			out.push('\n');
			for _ in 0..n {
				out.push_str("  ");
			}
		};
		match j {
			J::Arr(a) if !a.is_empty() => {
				out.push('[');
				for (i, v) in a.iter().enumerate() {
					if i > 0 {
						out.push(',');
					}
					pad(ind + 1, out);
					pretty(v, ind + 1, out);
				}
				pad(ind, out);
				out.push(']');
			}
			J::Obj(kv) if !kv.is_empty() => {
				out.push('{');
				for (i, (k, v)) in kv.iter().enumerate() {
					if i > 0 {
						out.push(',');
					}
					pad(ind + 1, out);
					vmodel::json::write_str(k, out);
					out.push_str(": ");
					pretty(v, ind + 1, out);
				}
				pad(ind, out);
				out.push('}');
			}
			other => other.write_min(out),
		}
	}
	let mut j = vmodel::json::parse(text).expect("own speller writes JSON");
	let mut n = 0usize;
	node(&mut j, &mut n, choose);
	let rendered = if is_minified(text) {
		j.to_min_string()
	} else {
		let mut s = String::new();
		pretty(&j, 0, &mut s);
		s
	};
	let mut out = String::with_capacity(rendered.len() + 16);
	let mut it = rendered.chars();
	while let Some(c) = it.next() {
		if c == ESC_MARK {
			let e = it.next().expect("marker precedes a character");
			let mut buf = [0u16; 2];
			for u in e.encode_utf16(&mut buf) {
				out.push_str(&format!("\\u{:04x}", u));
			}
		} else {
			out.push(c);
		}
	}
	(out, n)
}

/// Kinds of string positions a schema document has.
#[derive(Clone, Copy, Debug, PartialEq, Eq)]
pub enum EscKind {
	TypePos,
	Name,
	Namespace,
	FieldName,
	Symbol,
	TypeAttr,
	LogicalType,
	Doc,
	Alias,
	UnknownKey,
	AttrKey,
	All,
}

pub const ESC_KINDS: [EscKind; 11] =
	[EscKind::TypePos, EscKind::Name, EscKind::Namespace, EscKind::FieldName, EscKind::Symbol, EscKind::TypeAttr, EscKind::LogicalType, EscKind::Doc, EscKind::Alias, EscKind::UnknownKey, EscKind::AttrKey];

/// Rewrite a schema document so that every string of the given position kind (all kinds for
/// `All`) — values AND object keys — is written with a `\uXXXX` escape for its first (or last)
/// character. Returns the text and the number of strings escaped.
pub fn escape_kind(text: &str, kind: EscKind, last: bool) -> (String, usize) {
	struct W {
		kind: EscKind,
		last: bool,
		n: usize,
	}
	impl W {
		fn on(&self, k: EscKind) -> bool {
			self.kind == EscKind::All || self.kind == k
		}
		fn mark(&mut self, s: &mut String) {
			if s.is_empty() {
				return;
			}
			let at = if self.last { s.char_indices().last().map(|(i, _)| i).unwrap_or(0) } else { 0 };
			s.insert(at, ESC_MARK);
			self.n += 1;
		}
		fn mark_val(&mut self, v: &mut J, k: EscKind) {
			if self.on(k) {
				if let J::Str(s) = v {
					self.mark(s);
				}
			}
		}
		fn mark_arr(&mut self, v: &mut J, k: EscKind) {
			if let J::Arr(a) = v {
				for e in a.iter_mut() {
					self.mark_val(e, k);
				}
			}
		}
		/// a node in type position
		fn node(&mut self, j: &mut J) {
			match j {
				J::Str(_) => self.mark_val(j, EscKind::TypePos),
				J::Arr(v) => v.iter_mut().for_each(|b| self.node(b)),
				J::Obj(kv) => {
					let t = kv.iter().find(|(k, _)| k == "type").and_then(|(_, v)| v.as_str()).map(|s| s.to_owned());
					for (k, v) in kv.iter_mut() {
						let known = match k.as_str() {
							"name" => {
								self.mark_val(v, EscKind::Name);
								true
							}
							"namespace" => {
								self.mark_val(v, EscKind::Namespace);
								true
							}
							"type" => {
								self.mark_val(v, EscKind::TypeAttr);
								true
							}
							"logicalType" => {
								self.mark_val(v, EscKind::LogicalType);
								true
							}
							"doc" => {
								self.mark_val(v, EscKind::Doc);
								true
							}
							"aliases" => {
								self.mark_arr(v, EscKind::Alias);
								true
							}
							"symbols" => {
								self.mark_arr(v, EscKind::Symbol);
								true
							}
							"fields" if t.as_deref() == Some("record") => {
								if let J::Arr(fs) = v {
									for f in fs.iter_mut() {
										self.field(f);
									}
								}
								true
							}
							"items" if t.as_deref() == Some("array") => {
								self.node(v);
								true
							}
							"values" if t.as_deref() == Some("map") => {
								self.node(v);
								true
							}
							"size" | "precision" | "scale" | "default" | "order" => true,
							_ => false,
						};
						if self.on(if known { EscKind::AttrKey } else { EscKind::UnknownKey }) {
							self.mark(k);
						}
					}
				}
				_ => {}
			}
		}
		fn field(&mut self, f: &mut J) {
			if let J::Obj(kv) = f {
				for (k, v) in kv.iter_mut() {
					let known = match k.as_str() {
						"name" => {
							self.mark_val(v, EscKind::FieldName);
							true
						}
						"type" => {
							self.node(v);
							true
						}
						"doc" => {
							self.mark_val(v, EscKind::Doc);
							true
						}
						"aliases" => {
							self.mark_arr(v, EscKind::Alias);
							true
						}
						"default" | "order" => true,
						_ => false,
					};
					if self.on(if known { EscKind::AttrKey } else { EscKind::UnknownKey }) {
						self.mark(k);
					}
				}
			}
		}
	}
	fn pretty(j: &J, ind: usize, out: &mut String) {
		let pad = |n: usize, out: &mut String| {
			out.push('\n');
			for _ in 0..n {
				out.push(' ');
			}
		};
		match j {
			J::Arr(a) if !a.is_empty() => {
				out.push('[');
				for (i, v) in a.iter().enumerate() {
					if i > 0 {
						out.push(',');
					}
					pad(ind + 1, out);
					pretty(v, ind + 1, out);
				}
				pad(ind, out);
				out.push(']');
			}
			J::Obj(kv) if !kv.is_empty() => {
				out.push('{');
				for (i, (k, v)) in kv.iter().enumerate() {
					if i > 0 {
						out.push(',');
					}
					pad(ind + 1, out);
					vmodel::json::write_str(k, out);
					out.push_str(" : ");
					pretty(v, ind + 1, out);
				}
				pad(ind, out);
				out.push('}');
			}
			other => other.write_min(out),
		}
	}
	let mut j = vmodel::json::parse(text).expect("own speller writes JSON");
	let mut w = W { kind, last, n: 0 };
	w.node(&mut j);
	let rendered = if is_minified(text) {
		j.to_min_string()
	} else {
		let mut s = String::new();
		pretty(&j, 0, &mut s);
		s
	};
	let mut out = String::with_capacity(rendered.len() + 16);
	let mut it = rendered.chars();
	while let Some(c) = it.next() {
		if c == ESC_MARK {
			let e = it.next().expect("marker precedes a character");
			let mut buf = [0u16; 2];
			for u in e.encode_utf16(&mut buf) {
				out.push_str(&format!("\\u{:04x}", u));
			}
		} else {
			out.push(c);
		}
	}
	(out, w.n)
}
