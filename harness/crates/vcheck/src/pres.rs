//! `Pres`: a *presentation* of a value: its `Serialize` impl performs exactly the serde calls
//! spelled out by the tree. Supports failure injection at the k-th nested `serialize` call.

use serde::ser::{Error as _, Serialize, SerializeMap, SerializeSeq, SerializeStruct, SerializeStructVariant, SerializeTuple, SerializeTupleStruct, SerializeTupleVariant, Serializer};
use std::cell::Cell;
use std::collections::HashMap;
use std::sync::Mutex;

pub fn intern(s: &str) -> &'static str {
	static TABLE: Mutex<Option<HashMap<String, &'static str>>> = Mutex::new(None);
	let mut g = TABLE.lock().unwrap();
	let t = g.get_or_insert_with(HashMap::new);
	if let Some(v) = t.get(s) {
		return v;
	}
	let leaked: &'static str = Box::leak(s.to_owned().into_boxed_str());
	t.insert(s.to_owned(), leaked);
	leaked
}

thread_local! {
	static CALLS: Cell<usize> = const { Cell::new(0) };
	static FAIL_AT: Cell<Option<usize>> = const { Cell::new(None) };
}

/// Run `f` with failure injection: the `k`-th (0-based) `Pres::serialize` call returns
/// `Err(custom("injected failure"))`. Returns (result of f, number of serialize calls made).
pub fn with_failure<R>(k: Option<usize>, f: impl FnOnce() -> R) -> (R, usize) {
	CALLS.with(|c| c.set(0));
	FAIL_AT.with(|c| c.set(k));
	let r = f();
	FAIL_AT.with(|c| c.set(None));
	(r, CALLS.with(|c| c.get()))
}

#[derive(Clone, Debug, PartialEq)]
pub enum Pres {
	Bool(bool),
	I8(i8),
	I16(i16),
	I32(i32),
	I64(i64),
	I128(i128),
	U8(u8),
	U16(u16),
	U32(u32),
	U64(u64),
	U128(u128),
	/// bit pattern
	F32(u32),
	/// bit pattern
	F64(u64),
	Char(char),
	Str(String),
	Bytes(Vec<u8>),
	Unit,
	None,
	Some(Box<Pres>),
	UnitStruct(&'static str),
	UnitVariant { name: &'static str, idx: u32, variant: &'static str },
	NewtypeStruct(&'static str, Box<Pres>),
	NewtypeVariant { name: &'static str, idx: u32, variant: &'static str, value: Box<Pres> },
	Seq { len: Option<usize>, elems: Vec<Pres> },
	Tuple(Vec<Pres>),
	TupleStruct(&'static str, Vec<Pres>),
	TupleVariant { name: &'static str, idx: u32, variant: &'static str, elems: Vec<Pres> },
	/// `split`: serialize_key + serialize_value instead of serialize_entry
	Map { len: Option<usize>, entries: Vec<(Pres, Pres)>, split: bool },
	Struct { name: &'static str, fields: Vec<(&'static str, Pres)> },
	StructVariant { name: &'static str, idx: u32, variant: &'static str, fields: Vec<(&'static str, Pres)> },
	/// always fails
	Fail,
}

impl Pres {
	pub fn str(s: &str) -> Pres {
		Pres::Str(s.to_owned())
	}
	pub fn seq(elems: Vec<Pres>) -> Pres {
		Pres::Seq { len: Some(elems.len()), elems }
	}
	pub fn strukt(name: &str, fields: Vec<(&str, Pres)>) -> Pres {
		Pres::Struct { name: intern(name), fields: fields.into_iter().map(|(k, v)| (intern(k), v)).collect() }
	}
	pub fn map(entries: Vec<(&str, Pres)>) -> Pres {
		Pres::Map { len: Some(entries.len()), entries: entries.into_iter().map(|(k, v)| (Pres::str(k), v)).collect(), split: false }
	}
	pub fn newtype_variant(variant: &str, value: Pres) -> Pres {
		Pres::NewtypeVariant { name: "E", idx: 0, variant: intern(variant), value: Box::new(value) }
	}
	pub fn unit_variant(variant: &str) -> Pres {
		Pres::UnitVariant { name: "E", idx: 0, variant: intern(variant) }
	}
	/// short constructor name, for coverage matrices
	pub fn kind(&self) -> &'static str {
		match self {
			Pres::Bool(_) => "bool",
			Pres::I8(_) => "i8",
			Pres::I16(_) => "i16",
			Pres::I32(_) => "i32",
			Pres::I64(_) => "i64",
			Pres::I128(_) => "i128",
			Pres::U8(_) => "u8",
			Pres::U16(_) => "u16",
			Pres::U32(_) => "u32",
			Pres::U64(_) => "u64",
			Pres::U128(_) => "u128",
			Pres::F32(_) => "f32",
			Pres::F64(_) => "f64",
			Pres::Char(_) => "char",
			Pres::Str(_) => "str",
			Pres::Bytes(_) => "bytes",
			Pres::Unit => "unit",
			Pres::None => "none",
			Pres::Some(_) => "some",
			Pres::UnitStruct(_) => "unit_struct",
			Pres::UnitVariant { .. } => "unit_variant",
			Pres::NewtypeStruct(..) => "newtype_struct",
			Pres::NewtypeVariant { .. } => "newtype_variant",
			Pres::Seq { .. } => "seq",
			Pres::Tuple(_) => "tuple",
			Pres::TupleStruct(..) => "tuple_struct",
			Pres::TupleVariant { .. } => "tuple_variant",
			Pres::Map { .. } => "map",
			Pres::Struct { .. } => "struct",
			Pres::StructVariant { .. } => "struct_variant",
			Pres::Fail => "fail",
		}
	}
}

impl Serialize for Pres {
	fn serialize<S: Serializer>(&self, s: S) -> Result<S::Ok, S::Error> {
		let k = CALLS.with(|c| {
			let v = c.get();
			c.set(v + 1);
			v
		});
		if FAIL_AT.with(|c| c.get()) == Some(k) {
			return Err(S::Error::custom("injected failure"));
		}
		match self {
			Pres::Bool(v) => s.serialize_bool(*v),
			Pres::I8(v) => s.serialize_i8(*v),
			Pres::I16(v) => s.serialize_i16(*v),
			Pres::I32(v) => s.serialize_i32(*v),
			Pres::I64(v) => s.serialize_i64(*v),
			Pres::I128(v) => s.serialize_i128(*v),
			Pres::U8(v) => s.serialize_u8(*v),
			Pres::U16(v) => s.serialize_u16(*v),
			Pres::U32(v) => s.serialize_u32(*v),
			Pres::U64(v) => s.serialize_u64(*v),
			Pres::U128(v) => s.serialize_u128(*v),
			Pres::F32(b) => s.serialize_f32(f32::from_bits(*b)),
			Pres::F64(b) => s.serialize_f64(f64::from_bits(*b)),
			Pres::Char(c) => s.serialize_char(*c),
			Pres::Str(v) => s.serialize_str(v),
			Pres::Bytes(v) => s.serialize_bytes(v),
			Pres::Unit => s.serialize_unit(),
			Pres::None => s.serialize_none(),
			Pres::Some(v) => s.serialize_some(&**v),
			Pres::UnitStruct(n) => s.serialize_unit_struct(n),
			Pres::UnitVariant { name, idx, variant } => s.serialize_unit_variant(name, *idx, variant),
			Pres::NewtypeStruct(n, v) => s.serialize_newtype_struct(n, &**v),
			Pres::NewtypeVariant { name, idx, variant, value } => s.serialize_newtype_variant(name, *idx, variant, &**value),
			Pres::Seq { len, elems } => {
				let mut q = s.serialize_seq(*len)?;
				for e in elems {
					q.serialize_element(e)?;
				}
				q.end()
			}
			Pres::Tuple(elems) => {
				let mut q = s.serialize_tuple(elems.len())?;
				for e in elems {
					q.serialize_element(e)?;
				}
				q.end()
			}
			Pres::TupleStruct(n, elems) => {
				let mut q = s.serialize_tuple_struct(n, elems.len())?;
				for e in elems {
					q.serialize_field(e)?;
				}
				q.end()
			}
			Pres::TupleVariant { name, idx, variant, elems } => {
				let mut q = s.serialize_tuple_variant(name, *idx, variant, elems.len())?;
				for e in elems {
					q.serialize_field(e)?;
				}
				q.end()
			}
			Pres::Map { len, entries, split } => {
				let mut m = s.serialize_map(*len)?;
				for (k, v) in entries {
					if *split {
						m.serialize_key(k)?;
						m.serialize_value(v)?;
					} else {
						m.serialize_entry(k, v)?;
					}
				}
				m.end()
			}
			Pres::Struct { name, fields } => {
				let mut m = s.serialize_struct(name, fields.len())?;
				for (k, v) in fields {
					m.serialize_field(k, v)?;
				}
				m.end()
			}
			Pres::StructVariant { name, idx, variant, fields } => {
				let mut m = s.serialize_struct_variant(name, *idx, variant, fields.len())?;
				for (k, v) in fields {
					m.serialize_field(k, v)?;
				}
				m.end()
			}
			Pres::Fail => Err(S::Error::custom("Pres::Fail")),
		}
	}
}
