//! C19 — the operations executed on a case inside a runner process, and the families of cases.

use crate::c19_nodes::{self as cn, NodeSpec};
use crate::c19_texts as ct;
use crate::envs::ChunkedBufRead;
use crate::explore::hash64;
use crate::isolate::{OpOut, StepCell, CODE_ERR, CODE_OK};
use crate::obs::Hint;
use crate::pres::Pres;
use crate::subj::{self, Limits, Out};
use serde_avro_fast::schema::SchemaMut;
use serde_avro_fast::Schema;
use std::sync::OnceLock;

pub const STEPS: [&str; 14] = ["start", "build the case", "parse", "Debug of SchemaMut", "serde_json::to_string(&SchemaMut)", "canonical_form_rabin_fingerprint", "freeze", "Debug/json/fingerprint of Schema", "deserialize with the frozen schema", "serialize with the frozen schema", "drop", "harness self-test", "Name::name / namespace / fully_qualified_name", "Schema::try_from(SchemaMut)"];
pub const ST_BUILD: u8 = 1;
pub const ST_PARSE: u8 = 2;
pub const ST_DEBUG: u8 = 3;
pub const ST_JSON: u8 = 4;
pub const ST_FP: u8 = 5;
pub const ST_FREEZE: u8 = 6;
pub const ST_SDEBUG: u8 = 7;
pub const ST_DE: u8 = 8;
pub const ST_SER: u8 = 9;
pub const ST_DROP: u8 = 10;
pub const ST_SELF: u8 = 11;
pub const ST_NAME: u8 = 12;
pub const ST_TRYFROM: u8 = 13;

pub const FLAG_NONTRIVIAL: u8 = 1;
pub const FLAG_UNNAMED_CYCLE: u8 = 2;
pub const FLAG_NAMED_CYCLE: u8 = 4;
pub const FLAG_DANGLING: u8 = 8;

// detail bits of the freeze / pipeline operations
pub const D_DE_OK: u8 = 1;
pub const D_DE_ERR: u8 = 2;
pub const D_SER_OK: u8 = 4;
pub const D_SER_ERR: u8 = 8;
pub const D_JSON_OK: u8 = 16;
pub const D_FP_OK: u8 = 32;
pub const D_FREEZE_OK: u8 = 64;

#[derive(Clone, Copy, PartialEq, Eq, Debug)]
pub enum Fam {
	SelfTest,
	Nodes(usize),
	Decor,
	Decor2,
	Names,
	Shapes,
	NearMiss,
	Prefix,
	OddValues,
	Nest,
	DiamondNest,
	DiamondFwd,
	DiamondBuilder,
	RefChainText,
	RefChainBuilder,
	ArrayChainBuilder,
	WideText,
	WideBuilder,
}

pub const CHAIN_RUNGS: [usize; 9] = [10, 100, 1000, 2000, 5000, 10_000, 20_000, 50_000, 100_000];
pub const WIDE_RUNGS: [usize; 3] = [10, 1000, 100_000];
pub const DIAMOND_MAX: usize = 64;

impl Fam {
	pub fn name(self) -> String {
		match self {
			Fam::SelfTest => "selftest".into(),
			Fam::Nodes(l) => format!("nodes-{l}"),
			Fam::Decor => "decor".into(),
			Fam::Decor2 => "decor2".into(),
			Fam::Names => "names".into(),
			Fam::Shapes => "shapes".into(),
			Fam::NearMiss => "nearmiss".into(),
			Fam::Prefix => "prefix".into(),
			Fam::OddValues => "oddvals".into(),
			Fam::Nest => "nest".into(),
			Fam::DiamondNest => "diamond-nest".into(),
			Fam::DiamondFwd => "diamond-fwd".into(),
			Fam::DiamondBuilder => "diamond-builder".into(),
			Fam::RefChainText => "refchain-text".into(),
			Fam::RefChainBuilder => "refchain-builder".into(),
			Fam::ArrayChainBuilder => "arraychain-builder".into(),
			Fam::WideText => "wide-text".into(),
			Fam::WideBuilder => "wide-builder".into(),
		}
	}
	pub fn parse(s: &str) -> Option<Fam> {
		if let Some(l) = s.strip_prefix("nodes-") {
			return l.parse().ok().map(Fam::Nodes);
		}
		[Fam::SelfTest, Fam::Decor, Fam::Decor2, Fam::Names, Fam::Shapes, Fam::NearMiss, Fam::Prefix, Fam::OddValues, Fam::Nest, Fam::DiamondNest, Fam::DiamondFwd, Fam::DiamondBuilder, Fam::RefChainText, Fam::RefChainBuilder, Fam::ArrayChainBuilder, Fam::WideText, Fam::WideBuilder]
			.into_iter()
			.find(|f| f.name() == s)
	}
	pub fn is_text(self) -> bool {
		matches!(self, Fam::Shapes | Fam::NearMiss | Fam::Prefix | Fam::OddValues | Fam::Nest | Fam::DiamondNest | Fam::DiamondFwd | Fam::RefChainText | Fam::WideText)
	}
	pub fn is_ladder(self) -> bool {
		matches!(self, Fam::DiamondNest | Fam::DiamondFwd | Fam::DiamondBuilder | Fam::RefChainText | Fam::RefChainBuilder | Fam::ArrayChainBuilder | Fam::WideText | Fam::WideBuilder)
	}
	pub fn nops(self) -> usize {
		match self {
			Fam::SelfTest => 1,
			// the diamond ladders' cost is the parse itself: one parse per rung
			Fam::DiamondNest | Fam::DiamondFwd => 1,
			f if f.is_text() => 2,
			_ => 4,
		}
	}
	pub fn op_name(self, op: usize) -> &'static str {
		if self == Fam::SelfTest {
			return "selftest";
		}
		if self.is_text() {
			return ["parse-mut (text.parse::<SchemaMut>(), then Debug, to_string, fingerprint, freeze, use)", "parse-schema (text.parse::<Schema>(), then use)"][op];
		}
		["debug (format!(\"{:?}\", SchemaMut))", "json (serde_json::to_string(&SchemaMut))", "fingerprint (SchemaMut::canonical_form_rabin_fingerprint)", "freeze (SchemaMut::freeze and Schema::try_from, then use of each Schema)"][op]
	}
	/// per-case CPU horizon
	pub fn horizon_ms(self) -> u64 {
		if self == Fam::SelfTest {
			300
		} else {
			10_000
		}
	}
	pub fn stop_on_timeout(self) -> bool {
		self.is_ladder()
	}
}

/// length class of a chain rung, so that a known finding can be limited to long chains
fn chain_tag(n: usize) -> &'static str {
	if n >= 2000 {
		" [n>=2000]"
	} else {
		""
	}
}

/// Per-process context of a family (alphabets are built once).
pub struct Ctx {
	pub fam: Fam,
	pub thorough: bool,
	sigma: Vec<NodeSpec>,
	decor: Vec<NodeSpec>,
	shapes1: Vec<String>,
	near: Option<ct::NearMiss>,
	prefixes: ct::Prefixes,
}

pub enum Case {
	SelfTest(u64),
	Nodes { nodes: Vec<NodeSpec>, desc: String, big: bool },
	Text { text: String, desc: String },
}

impl Ctx {
	pub fn new(fam: Fam, thorough: bool) -> Ctx {
		let sigma = match fam {
			Fam::Nodes(l) => cn::sigma(l, l >= 4),
			_ => vec![],
		};
		let decor = match fam {
			Fam::Decor => cn::decorated(),
			Fam::Decor2 => cn::decorated_small(),
			Fam::Names => cn::named_nodes(),
			_ => vec![],
		};
		let shapes1 = if fam == Fam::Shapes { ct::shapes1() } else { vec![] };
		let near = if fam == Fam::NearMiss { Some(ct::NearMiss::new(thorough)) } else { None };
		Ctx { fam, thorough, sigma, decor, shapes1, near, prefixes: ct::Prefixes::new() }
	}
	pub fn count(&self) -> u64 {
		let w = ct::WRAPPERS.len() as u64;
		match self.fam {
			Fam::SelfTest => 6,
			Fam::Nodes(l) => (self.sigma.len() as u64).pow(l as u32),
			Fam::Decor => 4 * self.decor.len() as u64,
			Fam::Decor2 => 2 * (self.decor.len() as u64).pow(2),
			Fam::Names => (cn::NAME_CONTEXTS.len() * self.decor.len()) as u64,
			Fam::Shapes => {
				let s = self.shapes1.len() as u64;
				s + w * s + if self.thorough { w * w * s } else { 0 }
			}
			Fam::NearMiss => self.near.as_ref().unwrap().count(),
			Fam::Prefix => self.prefixes.count(),
			Fam::OddValues => ct::odd_count(),
			Fam::Nest => (ct::NEST_PATTERNS * ct::nest_depths(self.thorough).len()) as u64,
			Fam::DiamondNest | Fam::DiamondFwd | Fam::DiamondBuilder => DIAMOND_MAX as u64,
			Fam::RefChainText | Fam::RefChainBuilder | Fam::ArrayChainBuilder => CHAIN_RUNGS.len() as u64,
			Fam::WideText => (ct::WIDE_TEXT_KINDS * WIDE_RUNGS.len()) as u64,
			Fam::WideBuilder => (4 * WIDE_RUNGS.len()) as u64,
		}
	}
	pub fn prefix_seed_indices(&self) -> Vec<u64> {
		self.prefixes.seed_full_indices()
	}
	pub fn case(&self, idx: u64) -> Case {
		let nodes = |nodes: Vec<NodeSpec>| {
			let desc = format!("builder graph: SchemaMut::from_nodes({})", cn::render(&nodes));
			Case::Nodes { nodes, desc, big: false }
		};
		let big = |nodes: Vec<NodeSpec>, desc: String| {
			let head = cn::render(&nodes[..nodes.len().min(3)]);
			Case::Nodes { desc: format!("builder ladder: {desc}; SchemaMut::from_nodes of {} nodes beginning {head}", nodes.len()), nodes, big: true }
		};
		let ladder_text = |text: String, desc: String| Case::Text { desc: format!("text ladder: {desc}; document of {} bytes beginning {}", text.len(), crate::report::truncate(&text, 160)), text };
		match self.fam {
			Fam::SelfTest => Case::SelfTest(idx),
			Fam::Nodes(l) => {
				let base = self.sigma.len() as u64;
				let mut v = Vec::with_capacity(l);
				let mut r = idx;
				for _ in 0..l {
					v.push(self.sigma[(r % base) as usize].clone());
					r /= base;
				}
				v.reverse();
				nodes(v)
			}
			Fam::Decor => {
				let d = self.decor.len() as u64;
				nodes(cn::in_context((idx / d) as usize, &[self.decor[(idx % d) as usize].clone()]))
			}
			Fam::Names => {
				let d = self.decor.len() as u64;
				nodes(cn::in_context(cn::NAME_CONTEXTS[(idx / d) as usize], &[self.decor[(idx % d) as usize].clone()]))
			}
			Fam::Decor2 => {
				let d = self.decor.len() as u64;
				let (c, r) = (idx / (d * d), idx % (d * d));
				nodes(cn::in_context(1 + c as usize, &[self.decor[(r / d) as usize].clone(), self.decor[(r % d) as usize].clone()]))
			}
			Fam::Shapes => {
				let s = self.shapes1.len() as u64;
				let w = ct::WRAPPERS.len() as u64;
				let text = if idx < s {
					self.shapes1[idx as usize].clone()
				} else if idx < s + w * s {
					let r = idx - s;
					ct::wrap((r / s) as usize, &self.shapes1[(r % s) as usize])
				} else {
					let r = idx - s - w * s;
					let (w1, r2) = (r / (w * s), r % (w * s));
					ct::wrap(w1 as usize, &ct::wrap((r2 / s) as usize, &self.shapes1[(r2 % s) as usize]))
				};
				Case::Text { text, desc: "JSON shape".into() }
			}
			Fam::NearMiss => {
				let (text, desc) = self.near.as_ref().unwrap().case(idx);
				Case::Text { text, desc }
			}
			Fam::OddValues => {
				let (text, desc) = ct::odd_case(idx);
				Case::Text { text, desc }
			}
			Fam::Prefix => {
				let (text, desc) = self.prefixes.case(idx);
				Case::Text { text, desc }
			}
			Fam::Nest => {
				let ds = ct::nest_depths(self.thorough);
				let (p, d) = ((idx as usize) / ds.len(), ds[(idx as usize) % ds.len()]);
				let (text, desc) = ct::nest(p, d);
				if text.len() > 400 {
					Case::Text { desc: format!("{desc}; document of {} bytes beginning {}", text.len(), crate::report::truncate(&text, 120)), text }
				} else {
					Case::Text { text, desc }
				}
			}
			Fam::DiamondNest => {
				let n = idx as usize + 1;
				ladder_text(ct::diamond_nest(n), format!("diamond chain by nesting R_i{{a:<definition of R_i+1>, b:\"R_i+1\"}}, n={n} records"))
			}
			Fam::DiamondFwd => {
				let n = idx as usize + 1;
				ladder_text(ct::diamond_fwd(n), format!("diamond chain by forward reference, flat union [R_0{{a:\"R_1\",b:\"R_1\"}}, …], n={n} records"))
			}
			Fam::DiamondBuilder => {
				let n = idx as usize + 1;
				big(cn::diamond(n), format!("diamond chain R_i{{a:#i+1, b:#i+1}}, n={n} records"))
			}
			Fam::RefChainText => {
				let n = CHAIN_RUNGS[idx as usize];
				ladder_text(ct::ref_chain(n), format!("reference chain, flat union of n={n}{} records each referring to the next", chain_tag(n)))
			}
			Fam::RefChainBuilder => {
				let n = CHAIN_RUNGS[idx as usize];
				big(cn::ref_chain(n), format!("reference chain R_i{{next:#i+1}}, n={n}{} records", chain_tag(n)))
			}
			Fam::ArrayChainBuilder => {
				let n = CHAIN_RUNGS[idx as usize];
				big(cn::array_chain(n), format!("array chain Array(items=#i+1), n={n}{} arrays", chain_tag(n)))
			}
			Fam::WideText => {
				let (k, n) = ((idx as usize) / WIDE_RUNGS.len(), WIDE_RUNGS[(idx as usize) % WIDE_RUNGS.len()]);
				let (text, what) = ct::wide(k, n);
				ladder_text(text, format!("wide: {what}, n={n}"))
			}
			Fam::WideBuilder => {
				let (k, n) = ((idx as usize) / WIDE_RUNGS.len(), WIDE_RUNGS[(idx as usize) % WIDE_RUNGS.len()]);
				big(cn::wide(k, n), format!("wide (kind {k}: 0 record of n int fields, 1 union of n fixed, 2 enum of n symbols, 3 record of n references to one record), n={n}"))
			}
		}
	}
	/// (description, hash, flags)
	pub fn describe(&self, idx: u64) -> (String, u64, u8) {
		match self.case(idx) {
			Case::SelfTest(i) => (format!("harness self-test case {i}"), hash64(&("selftest", i)), 0),
			Case::Nodes { nodes, desc, big } => {
				let f = cn::analyze(&nodes);
				let mut flags = 0;
				let nontrivial = f.empty || f.dangling || f.any_cycle || f.shared || f.decorated || (big && nodes.len() > 2);
				if nontrivial {
					flags |= FLAG_NONTRIVIAL;
				}
				if f.unnamed_cycle_from_root {
					flags |= FLAG_UNNAMED_CYCLE;
				}
				if f.named_cycle_from_root {
					flags |= FLAG_NAMED_CYCLE;
				}
				if f.dangling {
					flags |= FLAG_DANGLING;
				}
				let h = hash64(&desc);
				(format!("{desc} | features: {}", cn::feature_text(&f)), h, flags)
			}
			Case::Text { text, desc } => {
				let h = hash64(&text);
				// every text of these families is a near-miss / odd / ladder document except the unmodified seeds
				let trivial = desc.ends_with("unmodified");
				let shown = if text.len() <= 400 { format!("{desc}: text «{text}»") } else { desc };
				(shown, h, if trivial { 0 } else { FLAG_NONTRIVIAL })
			}
		}
	}
}

// ------------------------------------------------------------------------------------------
// use of a frozen schema

fn hostile() -> &'static Vec<Vec<u8>> {
	static H: OnceLock<Vec<Vec<u8>>> = OnceLock::new();
	H.get_or_init(|| {
		vec![
			vec![],
			vec![0],
			vec![0; 16],
			vec![2; 16384],
			vec![0; 16384],
			vec![1; 64],
			vec![0xff; 16],
			vec![0x80, 0x80, 0x80, 0x80, 0x80, 0x80, 0x80, 0x80, 0x80, 0x01],
			vec![0xfe, 0xff, 0xff, 0xff, 0x0f],
			vec![4, b'a', b'b', 0, 2, 0, 0, 0, 0, 0, 0, 0, 0, 0, 0, 0, 0, 0, 0, 0],
			{
				let mut v = vec![2u8, 0];
				v.extend(std::iter::repeat([2u8, 2]).take(4096).flatten());
				v
			},
		]
	})
}

fn hints() -> &'static Vec<Hint> {
	static H: OnceLock<Vec<Hint>> = OnceLock::new();
	H.get_or_init(|| vec![Hint::Any, Hint::Ignored, Hint::Option(Box::new(Hint::Any)), Hint::Enum("E", vec![]), Hint::Seq(Box::new(Hint::Any)), Hint::U64])
}

fn presentations() -> &'static Vec<Pres> {
	static P: OnceLock<Vec<Pres>> = OnceLock::new();
	P.get_or_init(|| {
		let s = Pres::strukt;
		vec![
			Pres::Unit,
			Pres::None,
			Pres::Some(Box::new(Pres::Unit)),
			Pres::Bool(true),
			Pres::I32(0),
			Pres::I64(1),
			Pres::I64(i64::MAX),
			Pres::U64(u64::MAX),
			Pres::I128(i128::MAX),
			Pres::F32(1.0f32.to_bits()),
			Pres::F64(1.5f64.to_bits()),
			Pres::Char('a'),
			Pres::str(""),
			Pres::str("a"),
			Pres::str("1.5"),
			Pres::str("A"),
			Pres::Bytes(vec![]),
			Pres::Bytes(vec![0; 12]),
			Pres::Bytes(vec![1; 16]),
			Pres::Bytes(vec![0; 17]),
			Pres::seq(vec![]),
			Pres::seq(vec![Pres::I64(0)]),
			Pres::seq(vec![Pres::seq(vec![Pres::seq(vec![])])]),
			Pres::Tuple(vec![Pres::U32(1), Pres::U32(2), Pres::U32(3)]),
			Pres::map(vec![]),
			Pres::map(vec![("f", Pres::I64(0))]),
			s("R0", vec![]),
			s("R1", vec![("f", Pres::Unit)]),
			s("R0", vec![("f", Pres::I64(0)), ("g", Pres::I64(0))]),
			s("R0", vec![("g", Pres::I64(0)), ("f", Pres::I64(0))]),
			s("D", vec![("months", Pres::U32(1)), ("days", Pres::U32(2)), ("milliseconds", Pres::U32(3))]),
			s("R0", vec![("f", s("R1", vec![("f", s("R2", vec![("f", Pres::None)]))]))]),
			s("R0", vec![("next", s("R1", vec![("next", Pres::I64(0))]))]),
			Pres::UnitStruct("A"),
			Pres::unit_variant("A"),
			Pres::unit_variant("Null"),
			Pres::NewtypeStruct("R1", Box::new(Pres::I64(0))),
			Pres::newtype_variant("Int", Pres::I64(0)),
			Pres::newtype_variant("R1", s("R1", vec![])),
			Pres::newtype_variant("X", Pres::Bytes(vec![0; 12])),
			Pres::Some(Box::new(Pres::Some(Box::new(Pres::Some(Box::new(Pres::I64(0))))))),
		]
	})
}

/// cap of the serialization sink: the 41 presentations are tiny (largest legitimate output < 1 KiB)
pub const SINK_CAP: usize = 64 * 1024;
pub const VERDICT_RUNAWAY: &str = "HARNESS-VERDICT runaway-output: ";
pub const VERDICT_DANGLING: &str = "HARNESS-VERDICT dangling-key-after-parse: ";
pub const VERDICT_NAME: &str = "HARNESS-VERDICT name-accessors-inconsistent: ";
pub const VERDICT_ROUTES: &str = "HARNESS-VERDICT freeze-routes-differ: ";

/// The accessors of every `Name` in the graph are total and consistent with each other:
/// `namespace() + "." + name() == fully_qualified_name()` when there is a namespace,
/// `name() == fully_qualified_name()` otherwise.
fn check_names(m: &SchemaMut) {
	for (i, n) in m.nodes().iter().enumerate() {
		if let Some(name) = n.type_.name() {
			let (fq, ns, nm) = (name.fully_qualified_name(), name.namespace(), name.name());
			let rebuilt = match ns {
				Some(ns) => format!("{ns}.{nm}"),
				None => nm.to_owned(),
			};
			if rebuilt != fq {
				panic!("{VERDICT_NAME}node #{i}: fully_qualified_name() = {fq:?} but namespace() = {ns:?} and name() = {nm:?}");
			}
		}
	}
}

/// A recursive typed target: every field name the builder graphs use, each an optional box of the same type.
#[derive(serde::Deserialize, Default)]
#[serde(default)]
#[allow(dead_code)]
struct RecTarget {
	f: Option<Box<RecTarget>>,
	g: Option<Box<RecTarget>>,
	a: Option<Box<RecTarget>>,
	b: Option<Box<RecTarget>>,
	next: Option<Box<RecTarget>>,
	v: Option<Box<RecTarget>>,
}

/// A `SchemaMut` that `str::parse` returned as Ok must be a closed graph: every key it holds
/// (array items, map values, union variants, record field types) is an index below
/// `nodes().len()`. A key that is not (e.g. a late-name placeholder that was never remapped)
/// makes the documented `schema[key]` panic and every later traversal fail.
fn check_keys_in_range(m: &SchemaMut) {
	use serde_avro_fast::schema::RegularType as T;
	let len = m.nodes().len();
	for (i, n) in m.nodes().iter().enumerate() {
		let keys: Vec<usize> = match &n.type_ {
			T::Array(a) => vec![a.items.idx()],
			T::Map(x) => vec![x.values.idx()],
			T::Union(u) => u.variants.iter().map(|k| k.idx()).collect(),
			T::Record(r) => r.fields.iter().map(|f| f.type_.idx()).collect(),
			_ => vec![],
		};
		if let Some(k) = keys.iter().find(|k| **k >= len) {
			panic!("{VERDICT_DANGLING}str::parse::<SchemaMut>() returned Ok, but node #{i} ({}) holds the key {k} while the graph has {len} nodes", match &n.type_ {
				T::Array(_) => "array",
				T::Map(_) => "map",
				T::Union(_) => "union",
				_ => "record",
			});
		}
	}
}

struct Capped {
	buf: Vec<u8>,
	tripped: bool,
}
impl std::io::Write for Capped {
	fn write(&mut self, b: &[u8]) -> std::io::Result<usize> {
		if self.buf.len() + b.len() > SINK_CAP {
			self.tripped = true;
			return Err(std::io::Error::new(std::io::ErrorKind::Other, "harness sink: 64 KiB cap reached"));
		}
		self.buf.extend_from_slice(b);
		Ok(b.len())
	}
	fn flush(&mut self) -> std::io::Result<()> {
		Ok(())
	}
}

/// Serialize into a sink that refuses more than `SINK_CAP` bytes, so that a serializer that
/// tries to emit an unbounded amount of output is observed cheaply (and deterministically)
/// instead of exhausting memory. Returns (outcome, cap reached).
fn ser_capped(schema: &Schema, p: &Pres, slow: bool) -> (Out<Vec<u8>>, bool) {
	let mut sink = Capped { buf: Vec::new(), tripped: false };
	let o = subj::guarded(|| {
		let mut config = serde_avro_fast::ser::SerializerConfig::new(schema);
		if slow {
			config.allow_slow_sequence_to_bytes();
		}
		serde_avro_fast::to_datum(p, &mut sink, &mut config).map(|_| ()).map_err(|e| e.to_string())
	});
	let tripped = sink.tripped;
	(o.map(|_| sink.buf), tripped)
}

/// Largest `"size": N` in a schema's JSON (0 if none)
fn max_fixed_size(json: &str) -> u128 {
	let mut max = 0u128;
	let mut rest = json;
	while let Some(i) = rest.find("\"size\":") {
		rest = &rest[i + 7..];
		let digits: String = rest.chars().take_while(|c| c.is_ascii_digit()).collect();
		if let Ok(n) = digits.parse::<u128>() {
			max = max.max(n);
		}
	}
	max
}

fn panic_out<T>(o: &Out<T>, what: &str) {
	if let Out::Panic(m) = o {
		panic!("{what}: {m}");
	}
}

/// Serialize and deserialize with a frozen schema; returns detail bits. Any panic of the
/// crate is re-raised (with what was being done) and caught by the runner.
pub fn use_schema(schema: &Schema, step: &StepCell) -> u8 {
	use_schema_with(schema, step, true)
}

/// `full = false`: the reduced phase used for the second of two schemas frozen from one graph
/// with identical json() and fingerprint — every hostile input is still decoded (skipped with
/// IgnoredAny, observed with deserialize_any, into the recursive typed target), the other hints,
/// the reader runs and the serializations are not repeated.
pub fn use_schema_with(schema: &Schema, step: &StepCell, full: bool) -> u8 {
	let mut d = 0u8;
	step.set(ST_SDEBUG);
	let dbg = subj::guarded(|| Ok(format!("{:?}", schema).len() + schema.json().len() + schema.rabin_fingerprint().len()));
	panic_out(&dbg, "Debug / json() / rabin_fingerprint() of the frozen Schema panicked");
	step.set(ST_DE);
	let limits = Limits { allowed_depth: None, max_seq_size: Some(1000), max_alloc_size: Some(64) };
	let mut de = |bytes: &[u8], what: &str| {
		for h in hints().iter().take(if full { usize::MAX } else { 2 }) {
			let o = subj::de_slice(schema, bytes, h, &limits);
			panic_out(&o, &format!("deserializing {what} from a slice with hint {h:?} panicked"));
			d |= if o.is_ok() { D_DE_OK } else { D_DE_ERR };
		}
		let o = subj::guarded(|| serde_avro_fast::from_datum_slice::<RecTarget>(bytes, schema).map(|_| ()).map_err(|e| e.to_string()));
		panic_out(&o, &format!("deserializing {what} into a recursive typed target (struct of Option<Box<Self>> fields) panicked"));
		if !full {
			return;
		}
		let (o, _) = subj::de_reader(schema, ChunkedBufRead::uniform(bytes, 3), &Hint::Any, &limits);
		panic_out(&o, &format!("deserializing {what} from a reader (3-byte refills, max_alloc_size 64) panicked"));
		let (o, _) = subj::de_reader(schema, ChunkedBufRead::whole(bytes), &Hint::Ignored, &limits);
		panic_out(&o, &format!("skipping {what} from a reader panicked"));
	};
	for (i, h) in hostile().iter().enumerate() {
		let what = if h.len() > 32 { format!("hostile input #{i} ({} bytes beginning {})", h.len(), crate::report::hex(&h[..8])) } else { format!("hostile input #{i} [{}]", crate::report::hex(h)) };
		de(h, &what);
	}
	if !full {
		return d;
	}
	step.set(ST_SER);
	let mut sd = 0u8;
	let mut produced: Vec<Vec<u8>> = Vec::new();
	for p in presentations() {
		for slow in [false, true] {
			if slow && !matches!(p, Pres::Seq { .. } | Pres::Tuple(_)) {
				continue;
			}
			let (o, tripped) = ser_capped(schema, p, slow);
			panic_out(&o, &format!("serializing {p:?} panicked"));
			if tripped && max_fixed_size(schema.json()) >= SINK_CAP as u128 {
				// the schema itself declares a fixed at least as large as the cap: output of that
				// size is the encoding the schema asks for, not a runaway (no verdict, DESIGN §7)
				continue;
			}
			if tripped {
				panic!("{VERDICT_RUNAWAY}serializing the presentation {p:?} tried to write more than {SINK_CAP} bytes to the sink (the sink refused; with a Vec sink the call does not return)");
			}
			match o {
				Out::Ok(b) => {
					sd |= D_SER_OK;
					if produced.len() < 8 && !produced.contains(&b) {
						produced.push(b);
					}
				}
				_ => sd |= D_SER_ERR,
			}
		}
	}
	step.set(ST_DE);
	for b in &produced {
		de(b, &format!("the crate's own output [{}]", crate::report::hex(&b[..b.len().min(32)])));
	}
	d | sd
}

// ------------------------------------------------------------------------------------------
// operations

#[inline(never)]
fn selftest_recurse(n: u64) -> u64 {
	let pad = [n; 16];
	if n == 0 {
		return 0;
	}
	std::hint::black_box(selftest_recurse(std::hint::black_box(n - 1)) + pad[(n % 16) as usize])
}

fn out(ok: bool, detail: u8) -> OpOut {
	OpOut { code: if ok { CODE_OK } else { CODE_ERR }, detail }
}

pub fn run_op(ctx: &Ctx, idx: u64, op: usize, step: &StepCell, meta: &mut dyn FnMut(u64, u8)) -> OpOut {
	step.set(ST_BUILD);
	if op == 0 {
		// hash and flags of the case are recorded once; the parent regenerates them if operation 0 died
		let (_, h, flags) = ctx.describe(idx);
		meta(h, flags);
	}
	match ctx.case(idx) {
		Case::SelfTest(i) => {
			step.set(ST_SELF);
			match i {
				1 => out(selftest_recurse(u64::MAX / 2) > 0, 0),
				3 => {
					let mut x = 0u64;
					loop {
						x = std::hint::black_box(x.wrapping_add(1));
					}
				}
				4 => panic!("self-test panic"),
				_ => out(true, 0),
			}
		}
		Case::Nodes { nodes, .. } => {
			let m = SchemaMut::from_nodes(cn::build(&nodes));
			match op {
				0 => {
					step.set(ST_NAME);
					check_names(&m);
					step.set(ST_DEBUG);
					let n = format!("{m:?}").len();
					step.set(ST_DROP);
					out(n > 0, 0)
				}
				1 => {
					step.set(ST_JSON);
					let r = serde_json::to_string(&m);
					step.set(ST_DROP);
					out(r.is_ok(), 0)
				}
				2 => {
					step.set(ST_FP);
					let r = m.canonical_form_rabin_fingerprint();
					step.set(ST_DROP);
					out(r.is_ok(), 0)
				}
				_ => {
					// both public routes from a graph to a Schema: SchemaMut::freeze() and
					// Schema::try_from(SchemaMut) (what `.try_into()` and the derive crate use)
					let m2 = m.clone();
					step.set(ST_FREEZE);
					let r1 = m.freeze();
					let mut d = 0u8;
					if let Ok(s) = &r1 {
						d |= use_schema(s, step) | D_FREEZE_OK;
					}
					step.set(ST_TRYFROM);
					let r2 = Schema::try_from(m2);
					if let Ok(s) = &r2 {
						let same = matches!(&r1, Ok(s1) if s1.json() == s.json() && s1.rabin_fingerprint() == s.rabin_fingerprint());
						d |= use_schema_with(s, step, !same) | D_FREEZE_OK;
					}
					step.set(ST_TRYFROM);
					let ok = match (&r1, &r2) {
						(Ok(s1), Ok(s2)) => {
							if s1.json() != s2.json() || s1.rabin_fingerprint() != s2.rabin_fingerprint() {
								panic!("{VERDICT_ROUTES}freeze() and Schema::try_from() both return Ok but json() is {:?} vs {:?}, fingerprint {:?} vs {:?}", s1.json(), s2.json(), s1.rabin_fingerprint(), s2.rabin_fingerprint());
							}
							true
						}
						(Err(_), Err(_)) => false,
						(a, b) => panic!("{VERDICT_ROUTES}SchemaMut::freeze() returned {} but Schema::try_from() of the same graph returned {}", if a.is_ok() { "Ok" } else { "Err" }, if b.is_ok() { "Ok" } else { "Err" }),
					};
					step.set(ST_DROP);
					drop((r1, r2));
					out(ok, d)
				}
			}
		}
		Case::Text { text, .. } => {
			if op == 0 {
				step.set(ST_PARSE);
				let m: SchemaMut = match text.parse() {
					Ok(m) => m,
					Err(_) => return out(false, 0),
				};
				let mut d = 0u8;
				check_keys_in_range(&m);
				step.set(ST_DEBUG);
				let _ = format!("{m:?}").len();
				step.set(ST_JSON);
				if serde_json::to_string(&m).is_ok() {
					d |= D_JSON_OK;
				}
				step.set(ST_FP);
				if m.canonical_form_rabin_fingerprint().is_ok() {
					d |= D_FP_OK;
				}
				step.set(ST_FREEZE);
				if let Ok(s) = m.freeze() {
					d |= D_FREEZE_OK;
					d |= use_schema(&s, step);
					step.set(ST_DROP);
					drop(s);
				}
				out(true, d)
			} else {
				step.set(ST_PARSE);
				match text.parse::<Schema>() {
					Ok(s) => {
						let d = use_schema(&s, step);
						step.set(ST_DROP);
						drop(s);
						out(true, d | D_FREEZE_OK)
					}
					Err(_) => out(false, 0),
				}
			}
		}
	}
}
