//! C07 — schema parsing resolves names per the Avro specification for every spelling; invalid
//! documents are rejected.

use crate::explore::{hash64, Cover};
use crate::report::{truncate, Report, Violation};
use crate::sgen::{self, AstCase, Doc, Expect, SpellTok};
use crate::subj::{guarded, Out};
use serde_avro_fast::schema::SchemaMut;
use serde_json::json;
use vmodel::json::J;
use vmodel::schema::{pcf, resolve_text, spell, RSchema, ResolveCfg, SpellCfg};

fn machinery(msg: String) -> ! {
	eprintln!("MACHINERY: {msg}");
	std::process::exit(2)
}

fn parse_mut(text: &str) -> Out<SchemaMut> {
	guarded(|| text.parse::<SchemaMut>().map_err(|e| e.to_string()))
}

/// Add `"scale": 0` to every decimal annotation that omits it. `None` if there is none.
fn repair_scale(text: &str) -> Option<String> {
	fn go(j: &J, changed: &mut bool) -> J {
		match j {
			J::Arr(v) => J::Arr(v.iter().map(|e| go(e, changed)).collect()),
			J::Obj(kv) => {
				let mut out: Vec<(String, J)> = kv.iter().map(|(k, v)| (k.clone(), go(v, changed))).collect();
				if j.get("logicalType").and_then(|l| l.as_str()) == Some("decimal") && j.get("scale").is_none() {
					out.push(("scale".into(), J::Num("0".into())));
					*changed = true;
				}
				J::Obj(out)
			}
			o => o.clone(),
		}
	}
	let j = vmodel::json::parse(text).ok()?;
	let mut changed = false;
	let r = go(&j, &mut changed);
	changed.then(|| r.to_min_string())
}

/// Judge one document. All violations carry the document text.
pub fn judge(doc: &Doc, cover: &mut Cover, out: &mut Vec<Violation>) {
	cover.evaluations += 1;
	cover.impl_runs += 1;
	let text = &doc.text;
	let mut viol = |class: &str, what: String| {
		out.push(Violation { class: class.to_owned(), what: format!("document {text} [{}; {}]: {what}", doc.case.family, sgen::expect_str(&doc.case.expect)), replay: doc.replay("C07") });
	};
	match &doc.case.expect {
		Expect::Invalid(class) => {
			if !sgen::model_rejects(text) {
				machinery(format!("generator produced a document of invalid class {class} that the reference resolver accepts: {text}"));
			}
			cover.count(&format!("invalid:{class}"), 1);
			match parse_mut(text) {
				Out::Err(_) => {
					cover.outcomes.insert(hash64(&("err", *class)));
				}
				Out::Ok(sm) => viol(&format!("invalid-accepted:{class}"), format!("must be rejected ({class}) but parsed to {} nodes: {}", sm.nodes().len(), truncate(&format!("{:?}", sm.nodes()), 400))),
				Out::Panic(e) => viol("parse-panic", format!("parser panicked: {e}")),
			}
			// the frozen schema must be rejected as well
			cover.impl_runs += 1;
			match guarded(|| text.parse::<serde_avro_fast::Schema>().map_err(|e| e.to_string())) {
				Out::Err(_) => {}
				Out::Ok(_) => viol(&format!("invalid-accepted:{class}"), format!("must be rejected ({class}) but `Schema::from_str` accepted it")),
				Out::Panic(e) => viol("parse-panic", format!("Schema::from_str panicked: {e}")),
			}
		}
		expect => {
			let forward = *expect == Expect::ValidForward;
			if let Err(e) = sgen::model_agrees(doc) {
				machinery(e);
			}
			cover.count(if forward { "valid_forward_docs" } else { "valid_docs" }, 1);
			if text.contains("\\u00") {
				cover.count("valid_docs_with_escaped_type_strings", 1);
			}
			if doc.nontrivial() {
				cover.nontrivial.insert(hash64(text));
			}
			let sm = match parse_mut(text) {
				Out::Ok(sm) => sm,
				Out::Err(e) => {
					// attribute the rejection to an omitted decimal scale when that is the only cause
					if let Some(repaired) = repair_scale(text) {
						if let Out::Ok(sm2) = parse_mut(&repaired) {
							if sgen::bisim(&doc.case.ast, sm2.nodes()).is_ok() {
								cover.count("rejected_decimal_scale_omitted", 1);
								cover.count("attributed_violations", 1);
								viol("valid-rejected:decimal-scale-omitted", format!("valid document rejected ({e}); the same document with \"scale\":0 written out is accepted — `scale` is optional, default 0"));
								return;
							}
						}
					}
					viol("valid-rejected", format!("valid document rejected: {e}"));
					return;
				}
				Out::Panic(e) => {
					viol("parse-panic", format!("parser panicked: {e}"));
					return;
				}
			};
			cover.count("refs_resolved", doc.case.feats.refs as u64);
			if let Err(e) = sgen::bisim(&doc.case.ast, sm.nodes()) {
				if e.contains("MACHINERY") {
					machinery(e);
				}
				viol("graph-differs", format!("parsed graph is not the schema the document denotes: {e}; nodes: {}", truncate(&format!("{:?}", sm.nodes()), 600)));
				return;
			}
			if !forward {
				// hook H1: canonical form text (forward references are outside the spec's PCF)
				cover.impl_runs += 1;
				match guarded(|| sm.verif_canonical_form().map_err(|e| e.to_string())) {
					Out::Ok(got) => {
						let want = pcf(&doc.case.ast);
						if got != want {
							viol("pcf-differs", format!("canonical form {got} expected {want}"));
						}
					}
					Out::Err(e) => viol("pcf-err", format!("canonical form failed: {e}")),
					Out::Panic(e) => viol("pcf-panic", format!("canonical form panicked: {e}")),
				}
			}
			cover.impl_runs += 1;
			match guarded(|| sm.freeze().map_err(|e| e.to_string())) {
				Out::Ok(_) => {}
				Out::Err(e) => viol("freeze-rejected", format!("parsed, but freeze failed: {e}")),
				Out::Panic(e) => viol("freeze-panic", format!("freeze panicked: {e}")),
			}
			cover.outcomes.insert(hash64(&(doc.case.feats.named, doc.case.feats.refs, doc.case.feats.ns_transitions, forward)));
			if cover.samples.len() < 2 && doc.case.feats.refs >= 2 && doc.case.feats.ns_transitions >= 2 && matches!(doc.tok, SpellTok::Product(_)) {
				cover.sample(json!({"document": text, "denotes": pcf(&doc.case.ast), "expect": sgen::expect_str(expect)}));
			}
		}
	}
}

/// Totality probe: the plain spelling of a valid case decorated with an IGNORED attribute (doc,
/// default, an unknown key; also nested inside it) whose value is a number literal outside the
/// f64 range or a string with an unpaired surrogate escape. The specification does not say
/// whether such a document is a valid schema (the reference JSON reader may reject it too), so
/// only "no panic" is demanded: Ok and Err are both accepted.
fn totality_probe_docs(case: &AstCase) -> Vec<String> {
	const SURR: [(&str, &str); 2] = [("@@SURR-HI@@", "\\ud800"), ("@@SURR-LO@@", "\\udc00")];
	let values: Vec<J> = vec![
		J::Num("1e999".into()),
		J::Num("-1E+400".into()),
		J::Str("@@SURR-HI@@".into()),
		J::Str("x@@SURR-LO@@y".into()),
		J::Obj(vec![("deep".into(), J::Arr(vec![J::Num("0".into()), J::Obj(vec![("n".into(), J::Num("1e999".into()))])]))]),
		J::Arr(vec![J::Obj(vec![("s".into(), J::Str("@@SURR-LO@@".into()))])]),
	];
	fn count(j: &J) -> usize {
		match j {
			J::Arr(v) => v.iter().map(count).sum(),
			J::Obj(kv) => 1 + kv.iter().map(|(_, v)| count(v)).sum::<usize>(),
			_ => 0,
		}
	}
	// decorate the objects selected by `which` (pre-order index), at the end or at the front
	fn decorate(j: &J, key: &str, val: &J, which: Option<usize>, front: bool, n: &mut usize) -> J {
		match j {
			J::Arr(v) => J::Arr(v.iter().map(|e| decorate(e, key, val, which, front, n)).collect()),
			J::Obj(kv) => {
				let me = *n;
				*n += 1;
				let mut out: Vec<(String, J)> = kv.iter().map(|(k, v)| (k.clone(), decorate(v, key, val, which, front, n))).collect();
				if which.map_or(true, |w| w == me) {
					if front {
						out.insert(0, (key.to_owned(), val.clone()));
					} else {
						out.push((key.to_owned(), val.clone()));
					}
				}
				J::Obj(out)
			}
			o => o.clone(),
		}
	}
	let plain = spell(&case.ast, &mut vmodel::Zero, &SpellCfg::plain());
	let j = vmodel::json::parse(&plain).unwrap_or_else(|e| machinery(format!("own speller produced non-JSON {plain}: {e}")));
	let objects = count(&j);
	let mut out = Vec::new();
	for (vi, val) in values.iter().enumerate() {
		for key in ["doc", "default", "x-ignored"] {
			let mut whiches: Vec<Option<usize>> = vec![None];
			whiches.extend((0..objects.min(6)).map(Some));
			for which in whiches {
				let mut text = decorate(&j, key, val, which, vi % 2 == 1, &mut 0).to_min_string();
				for (mark, esc) in SURR {
					text = text.replace(mark, esc);
				}
				out.push(text);
			}
		}
	}
	out
}

/// Invalid documents obtained by JSON-level single edits of two spellings of a valid case.
fn json_edit_docs(case: &AstCase, thorough: bool) -> Vec<(&'static str, String)> {
	let mut out = Vec::new();
	let plain = spell(&case.ast, &mut vmodel::Zero, &SpellCfg::plain());
	let fancy = spell(&case.ast, &mut sgen::DiagPick(1), &SpellCfg { vary_names: true, vary_refs: true, vary_prims: true, vary_scale: false, attr_order: 2, extras: 2, whitespace: 0 });
	for text in [plain, fancy] {
		let j = vmodel::json::parse(&text).unwrap_or_else(|e| machinery(format!("own speller produced non-JSON {text}: {e}")));
		for (class, bad) in sgen::invalid_json_edits(&j, thorough) {
			out.push((class, bad.to_min_string()));
		}
	}
	out
}

pub fn run(rep: &mut Report) {
	let thorough = rep.thorough();
	let set = sgen::bases(thorough);
	let plan = sgen::plan(thorough);
	rep.rule = format!(
		"SAE. ASTs by a grammar: a named type is a record / enum / fixed in a namespace from {{∅,a,a.b,b}} with simple names X,Y,Z,W by order of definition (or all X = shadowing); a record has either one int field or 1..n 'edge' fields, an edge = wrapper(new named type | reference to any type already defined or enclosing, where the specification can express it); wrappers Id, array, map, [null,T], [T,int], array<map<T>>, map<[null,T]>, [null,array<T>]. Families: {}. Plus hand-written families: every logical type at the root and as record fields, logical types over fixed/enum/record/array/map with second uses by reference, root unions of named records with recursion through union and map (4x4 namespace arrangements). Plus every forward-reference variant of each valid AST (a definition swapped with its first later reference). ASTs containing an unconditional record cycle form an invalid class. Spellings through vmodel::spell: {}. Oracle per valid document: SchemaMut::from_str Ok, node graph bisimilar to the AST (kinds, fullnames and their namespace/name split, field names and symbols in order, sizes, logical types with parameters, every reference on the node index of its definition), hook H1 canonical form = vmodel::pcf(AST) (not for forward references), freeze Ok. Invalid documents: single edits of valid ASTs with <= {} named types (unknown reference by fullname / by simple name / by removing the definition; simple-name reference to a type that exists only in another namespace, at every reference and int site, incl. null-namespace types from inside a namespace; duplicate definition by re-defining at a reference and by renaming a definition to another's fullname; unconditional record cycle directly / through one / through two records) in 5 spellings each; single JSON edits of two spellings (required attribute deleted: type, name, fields, symbols, size, items, values, field type, field name, decimal precision; the bare strings record/array (thorough: record/enum/fixed/array/map) at every schema position): SchemaMut::from_str and Schema::from_str must return Err. Totality probe (no verdict on Ok/Err, a panic is a violation): the plain spelling of every AST with <= 1 named type and of the hand-written families, decorated with an ignored attribute (doc / default / unknown key; at all objects at once and at each of the first 6 objects; first or last key) holding 1e999, -1E+400, a string with an unpaired surrogate escape, or those nested inside an object / array. Every generated document is first cross-checked against vmodel's own resolver (valid: resolves to the AST; invalid: rejected). Non-trivial: valid documents with >= 1 reference or >= 1 namespace transition, distinct by text.",
		sgen::describe_grammars(thorough),
		sgen::describe_plan(&plan),
		if thorough { 3 } else { 2 },
	);
	rep.assumptions.push("vmodel::schema::{spell, resolve_text, pcf} implement the Avro 1.11 specification of names, namespaces and the Parsing Canonical Form; every generated document is cross-checked against vmodel's own resolver before it is judged (disagreement = machinery error)".into());
	rep.assumptions.push("a reference to a null-namespace type from inside a namespace is not expressible per the specification (no Java-style fallback): such ASTs are not generated as valid, and the simple-name spelling of such a reference is judged invalid".into());
	let (cover, viols) = sgen::par_bases(&set, &|case, cover, out| {
		cover.count(
			match case.expect {
				Expect::Valid => "asts_valid",
				Expect::ValidForward => "asts_valid_forward_hand_written",
				_ => "asts_invalid_by_ast_edit",
			},
			1,
		);
		sgen::spell_and_judge(case, &plan, cover, out, &judge);
		if matches!(case.expect, Expect::Invalid(_)) {
			return;
		}
		if case.expect == Expect::ValidForward {
			cover.count("asts_two_pending_forward_references", 1);
		}
		if case.feats.shadow {
			cover.count("asts_shadowing", 1);
		}
		if case.feats.recursive {
			cover.count("asts_recursive", 1);
		}
		if case.feats.logical > 0 {
			cover.count("asts_with_logical_types", 1);
		}
		if case.family.starts_with("decimal-bounds") {
			cover.count("asts_decimal_scale_equals_precision", 1);
		}
		if case.family.starts_with("enum0") {
			cover.count("asts_with_empty_enum", 1);
		}
		for fw in sgen::derived_forward(case) {
			cover.count("asts_forward_variants", 1);
			if sgen::pending_at_once(&fw.ast) >= 2 {
				cover.count("asts_forward_variants_two_pending", 1);
			}
			sgen::spell_and_judge(&fw, &plan, cover, out, &judge);
		}
		// totality probe on the small ASTs and the hand-written families
		if case.expect == Expect::Valid && (case.feats.named <= 1 || !case.family.starts_with('k')) && case.ast.size() <= 30 {
			for text in totality_probe_docs(case) {
				if !sgen::room(cover, out) {
					break;
				}
				cover.states += 1;
				cover.transitions += 1;
				cover.evaluations += 1;
				cover.impl_runs += 2;
				let a = parse_mut(&text);
				let b = guarded(|| text.parse::<serde_avro_fast::Schema>().map(|_| ()).map_err(|e| e.to_string()));
				cover.count(if a.is_ok() { "totality_probe_ok" } else { "totality_probe_err_or_panic" }, 1);
				for (what, panic) in [("SchemaMut::from_str", if let Out::Panic(e) = &a { Some(e.clone()) } else { None }), ("Schema::from_str", if let Out::Panic(e) = &b { Some(e.clone()) } else { None })] {
					if let Some(e) = panic {
						out.push(Violation {
							class: "parse-panic".into(),
							what: format!("document {text} [{}; an ignored attribute holds an out-of-range number or an unpaired surrogate]: {what} panicked: {e}", case.family),
							replay: json!({"check": "C07", "kind": "totality", "text": text}),
						});
					}
				}
			}
		}
		if set.derive_invalid_from(case) {
			for bad in sgen::derived_invalid(case) {
				cover.count("asts_invalid_by_ast_edit", 1);
				sgen::spell_and_judge(&bad, &plan, cover, out, &judge);
			}
			// JSON-level single edits
			let mut seen = std::collections::HashSet::new();
			for (class, text) in json_edit_docs(case, thorough) {
				if !sgen::room(cover, out) || !seen.insert(hash64(&text)) {
					continue;
				}
				let pseudo = AstCase { family: format!("{}+json-edit", case.family), choices: case.choices.clone(), ast: RSchema::Null, expect: Expect::Invalid(class), feats: Default::default(), vary_scale: false };
				let doc = Doc { case: &pseudo, text, tok: SpellTok::Diag(0), cfg: SpellCfg::plain() };
				cover.states += 1;
				cover.transitions += 1;
				cover.count("docs_invalid_by_json_edit", 1);
				judge(&doc, cover, out);
			}
		}
	});
	rep.cover.merge(cover);
	rep.violations.extend(viols);
	rep.extra.insert("grammar".into(), json!({"distinct_asts": set.bases.len(), "hand_written_asts": set.specials.len(), "grammar_leaves": set.grammar_leaves, "grammar_rejected_name_collisions": set.rejected}));

	// vacuity guards (skipped when the enumeration was cut short by violations)
	if rep.violations.len() as u64 >= 50 + rep.cover.counters.get("attributed_violations").copied().unwrap_or(0) {
		return;
	}
	let c = |k: &str| rep.cover.counters.get(k).copied().unwrap_or(0);
	let mut missing: Vec<&str> = Vec::new();
	for k in [
		"valid_docs",
		"valid_forward_docs",
		"asts_two_pending_forward_references",
		"valid_docs_with_escaped_type_strings",
		"escaped_spellings:All",
		"escaped_spellings:Name",
		"escaped_spellings:Namespace",
		"escaped_spellings:FieldName",
		"escaped_spellings:Symbol",
		"escaped_spellings:TypeAttr",
		"escaped_spellings:LogicalType",
		"escaped_spellings:Doc",
		"escaped_spellings:Alias",
		"escaped_spellings:UnknownKey",
		"escaped_spellings:AttrKey",
		"asts_decimal_scale_equals_precision",
		"asts_with_empty_enum",
		"refs_resolved",
		"asts_shadowing",
		"asts_recursive",
		"asts_with_logical_types",
		"invalid:unknown-reference",
		"invalid:reference-in-wrong-namespace",
		"invalid:duplicate-definition",
		"invalid:unconditional-record-cycle",
		"invalid:missing-type",
		"invalid:missing-name",
		"invalid:missing-fields",
		"invalid:missing-symbols",
		"invalid:missing-size",
		"invalid:missing-items",
		"invalid:missing-values",
		"invalid:missing-field-type",
		"invalid:missing-field-name",
		"invalid:missing-precision",
		"invalid:complex-type-as-bare-string",
	] {
		if c(k) == 0 {
			missing.push(k);
		}
	}
	if !missing.is_empty() {
		machinery(format!("C07 never exercised: {missing:?}"));
	}
}

pub fn replay(v: &serde_json::Value) -> i32 {
	let r = &v["replay"];
	let text = r["text"].as_str().unwrap_or_else(|| machinery("replay file has no text".into())).to_owned();
	if r["kind"] == "totality" {
		let a = parse_mut(&text);
		let b = guarded(|| text.parse::<serde_avro_fast::Schema>().map(|_| ()).map_err(|e| e.to_string()));
		println!("document: {text}\nSchemaMut::from_str: {}\nSchema::from_str: {}\n(only a panic is a violation)", a.kind(), b.kind());
		return if a.is_panic() || b.is_panic() { 1 } else { 0 };
	}
	let expect = sgen::expect_from_str(r["expect"].as_str().unwrap_or("valid"));
	let ast = match &expect {
		Expect::Invalid(_) => RSchema::Null,
		_ => resolve_text(r["ast_plain"].as_str().unwrap_or(""), &ResolveCfg { allow_forward: true, allow_leading_dot: false }).unwrap_or_else(|e| machinery(format!("ast_plain does not resolve: {e}"))),
	};
	let feats = sgen::feats(&ast);
	let case = AstCase { family: r["family"].as_str().unwrap_or("replay").to_owned(), choices: vec![], ast, expect, feats, vary_scale: false };
	let doc = Doc { case: &case, text: text.clone(), tok: SpellTok::Diag(0), cfg: SpellCfg::plain() };
	let mut cover = Cover::default();
	let mut out = Vec::new();
	println!("document: {text}");
	println!("expected: {}", sgen::expect_str(&case.expect));
	if !matches!(case.expect, Expect::Invalid(_)) {
		println!("denotes (canonical form by the reference model): {}", pcf(&case.ast));
	}
	match parse_mut(&text) {
		Out::Ok(sm) => println!("SchemaMut::from_str: Ok, nodes = {:?}", sm.nodes()),
		Out::Err(e) => println!("SchemaMut::from_str: Err({e})"),
		Out::Panic(e) => println!("SchemaMut::from_str: PANIC {e}"),
	}
	judge(&doc, &mut cover, &mut out);
	for v in &out {
		println!("  [{}] {}", v.class, v.what);
	}
	if out.is_empty() {
		println!("no violation");
		0
	} else {
		1
	}
}
