//! C04, part 3: `max_alloc_size` bounds EVERY single field of a reader, whatever was read before.
//!
//! `ReaderRead` keeps one scratch buffer for as long as the reader lives: across the fields of a
//! datum, across datums decoded from the same reader, across the blocks of a container file. The
//! templates here put a field of exactly `max_alloc_size` bytes first (so that the scratch buffer is
//! filled to the cap) and a field of cap+1 … 2·cap+1 bytes behind it — as the next record field, the
//! next array item, the next map key or value, a union branch, the next datum on the same reader, the
//! next container block — and deliver the bytes through readers that force the gathering path.
//! (Submodule of `c04.rs`; everything here runs inside the C04 worker subprocess.)

use crate::envs::{measure_allocs, AllocStats, ChunkedBufRead};
use crate::gen;
use crate::hostile::{de_bufread, de_chunked, de_slice, Fold, Target};
use crate::obs::Hint;
use crate::report::{hex, truncate};
use crate::subj::{guarded, Limits, Out};
use serde::de::DeserializeSeed;
use serde_avro_fast::de::read::ReaderRead;
use serde_avro_fast::de::{DeserializerConfig, DeserializerState};
use std::io::BufReader;
use vmodel::schema::{Env, RSchema};
use vmodel::value::Verdict;

pub const CAPS: [usize; 4] = [1, 8, 64, 1000];
/// memory constant for these cases: an error value and nothing else besides the scratch buffer
const K_SCRATCH: i64 = 768;

#[derive(Clone, Copy, Debug, PartialEq, Eq)]
pub enum Rd {
	Slice,
	/// `ChunkedBufRead` with uniform refills of k bytes (0 = everything in one buffer)
	Chunk(usize),
	/// `std::io::BufReader` of this capacity over the bytes
	Buf(usize),
}
const READERS: [Rd; 13] = [Rd::Slice, Rd::Chunk(1), Rd::Chunk(2), Rd::Chunk(3), Rd::Chunk(4), Rd::Chunk(5), Rd::Chunk(6), Rd::Chunk(7), Rd::Chunk(16), Rd::Chunk(64), Rd::Chunk(0), Rd::Buf(8), Rd::Buf(32)];

impl Rd {
	fn name(&self) -> String {
		match self {
			Rd::Slice => "slice".into(),
			Rd::Chunk(0) => "reader(one refill)".into(),
			Rd::Chunk(k) => format!("reader({k}-byte refills)"),
			Rd::Buf(c) => format!("std BufReader(capacity {c})"),
		}
	}
	/// Is a field of `n` bytes whose payload starts at offset `p` wholly inside the buffer when the
	/// subject asks for it? `None`: not predictable (no demand then).
	fn buffered(&self, p: usize, n: usize) -> Option<bool> {
		match self {
			Rd::Slice | Rd::Chunk(0) => Some(true),
			Rd::Chunk(k) => Some(n <= k - p % k),
			// BufReader's read() may bypass its buffer, which shifts the refill grid: only certain
			// when the field cannot fit at all
			Rd::Buf(c) => {
				if n > *c {
					Some(false)
				} else if n == 0 {
					Some(true)
				} else {
					None
				}
			}
		}
	}
}

enum Seg {
	Raw(Vec<u8>),
	/// length prefix + n bytes of 'a'
	Field(usize),
}

struct Tpl {
	name: &'static str,
	schema: fn() -> RSchema,
	build: fn(usize, usize) -> Vec<Seg>,
}

fn vi(n: i64) -> Seg {
	Seg::Raw(vmodel::value::long_bytes(n))
}

fn templates() -> Vec<Tpl> {
	use RSchema as S;
	vec![
		Tpl { name: "record{a:string,b:string}", schema: || S::record("t.SS", vec![("a", S::String), ("b", S::String)]), build: |f, s| vec![Seg::Field(f), Seg::Field(s)] },
		Tpl { name: "record{a:bytes,b:string}", schema: || S::record("t.BS", vec![("a", S::Bytes), ("b", S::String)]), build: |f, s| vec![Seg::Field(f), Seg::Field(s)] },
		Tpl { name: "record{a:string,b:long,c:bytes}", schema: || S::record("t.SLB", vec![("a", S::String), ("b", S::Long), ("c", S::Bytes)]), build: |f, s| vec![Seg::Field(f), vi(-3), Seg::Field(s)] },
		Tpl { name: "array<string>, one block", schema: || S::array(S::String), build: |f, s| vec![vi(2), Seg::Field(f), Seg::Field(s), vi(0)] },
		Tpl { name: "array<string>, two blocks", schema: || S::array(S::String), build: |f, s| vec![vi(1), Seg::Field(f), vi(1), Seg::Field(s), vi(0)] },
		Tpl { name: "array<bytes>", schema: || S::array(S::Bytes), build: |f, s| vec![vi(2), Seg::Field(f), Seg::Field(s), vi(0)] },
		Tpl { name: "array<bytes>, three items (cap, cap, larger)", schema: || S::array(S::Bytes), build: |f, s| vec![vi(3), Seg::Field(f), Seg::Field(f), Seg::Field(s), vi(0)] },
		Tpl { name: "map<string>, keys", schema: || S::map(S::String), build: |f, s| vec![vi(2), Seg::Field(f), Seg::Field(1), Seg::Field(s), Seg::Field(1), vi(0)] },
		Tpl { name: "map<string>, values", schema: || S::map(S::String), build: |f, s| vec![vi(2), Seg::Field(1), Seg::Field(f), Seg::Field(2), Seg::Field(s), vi(0)] },
		Tpl { name: "map<bytes>, key then value", schema: || S::map(S::Bytes), build: |f, s| vec![vi(1), Seg::Field(f), Seg::Field(s), vi(0)] },
		Tpl {
			name: "record{a:string,u:[null,string]}, union branch after a string",
			schema: || S::record("t.SU", vec![("a", S::String), ("u", S::Union(vec![S::Null, S::String]))]),
			build: |f, s| vec![Seg::Field(f), vi(1), Seg::Field(s)],
		},
		Tpl { name: "array<[null,bytes]>", schema: || S::array(S::Union(vec![S::Null, S::Bytes])), build: |f, s| vec![vi(2), vi(1), Seg::Field(f), vi(1), Seg::Field(s), vi(0)] },
	]
}

/// (bytes, fields as (payload offset, length))
fn flatten(segs: &[Seg]) -> (Vec<u8>, Vec<(usize, usize)>) {
	let mut b = Vec::new();
	let mut fields = Vec::new();
	for s in segs {
		match s {
			Seg::Raw(r) => b.extend_from_slice(r),
			Seg::Field(n) => {
				b.extend(vmodel::value::long_bytes(*n as i64));
				fields.push((b.len(), *n));
				b.extend(std::iter::repeat(b'a').take(*n));
			}
		}
	}
	(b, fields)
}

pub fn second_sizes(cap: usize) -> Vec<usize> {
	match cap {
		1 => vec![1, 2, 3],
		8 => (8..=17).collect(),
		64 => (64..=129).collect(),
		_ => vec![cap, cap + 1, cap + 2, cap + cap / 2, 2 * cap - 1, 2 * cap, 2 * cap + 1],
	}
}

#[derive(Clone, Debug)]
pub enum Kind {
	/// one datum from a template
	Datum { tpl: usize, target: u8 },
	/// two `string` datums (cap bytes, then `second` bytes) decoded one after the other from one reader:
	/// through the same `DeserializerState`, or through a new state around the reader given back by the first
	TwoDatums { new_state: bool },
	/// container file, null codec, schema string, one datum per block (cap bytes, then `second` bytes)
	Container,
}

#[derive(Clone, Debug)]
pub struct Case {
	pub kind: Kind,
	pub cap: usize,
	pub first: usize,
	pub second: usize,
	pub rd: Rd,
}

pub fn cases() -> Vec<Case> {
	let mut out = Vec::new();
	let n_tpl = templates().len();
	for cap in CAPS {
		for second in second_sizes(cap) {
			for rd in READERS {
				for tpl in 0..n_tpl {
					for target in 0..3u8 {
						out.push(Case { kind: Kind::Datum { tpl, target }, cap, first: cap, second, rd });
					}
				}
				if rd != Rd::Slice {
					for new_state in [false, true] {
						out.push(Case { kind: Kind::TwoDatums { new_state }, cap, first: cap, second, rd });
					}
					// the file header itself holds strings of up to 11 bytes
					if cap >= 64 {
						out.push(Case { kind: Kind::Container, cap, first: cap, second, rd });
					}
				}
			}
		}
	}
	out
}

fn target_of(code: u8) -> Target {
	match code {
		0 => Target::Fold,
		1 => Target::Obs(Hint::Ignored),
		_ => Target::Obs(Hint::Any),
	}
}

#[derive(Default)]
pub struct CaseOut {
	pub violations: Vec<(String, String)>,
	pub decodes: u64,
	/// an earlier field filled the scratch buffer to the cap and a later field above the cap was refused
	pub refused_after_fill: bool,
	/// every field within the cap, at least one of them gathered: accepted
	pub accepted_within_cap: bool,
	pub demanded: bool,
}

const SYNC: [u8; 16] = [0x5a; 16];

fn string_datum(n: usize) -> (Vec<u8>, usize) {
	let mut b = vmodel::value::long_bytes(n as i64);
	let p = b.len();
	b.extend(std::iter::repeat(b'a').take(n));
	(b, p)
}

pub fn describe(c: &Case) -> String {
	let lim = format!("max_alloc_size {}", c.cap);
	match &c.kind {
		Kind::Datum { tpl, target } => {
			let t = &templates()[*tpl];
			let (bytes, _) = flatten(&(t.build)(c.first, c.second));
			format!(
				"template '{}': schema {} datum of {} bytes [{}] = a field of {} bytes, then a field of {} bytes; target {} path {} {lim}",
				t.name,
				gen::schema_text(&(t.schema)()),
				bytes.len(),
				truncate(&hex(&bytes), 100),
				c.first,
				c.second,
				target_of(*target).name(),
				c.rd.name()
			)
		}
		Kind::TwoDatums { new_state } => format!(
			"two datums of schema \"string\" decoded one after the other from one ReaderRead ({}): {} bytes of 'a', then {} bytes of 'a'; path {} {lim}",
			if *new_state { "second datum through a new DeserializerState around the reader handed back by into_reader()" } else { "both through the same DeserializerState" },
			c.first,
			c.second,
			c.rd.name()
		),
		Kind::Container => format!(
			"container file (null codec, schema \"string\", written by the reference writer) with two blocks of one datum each: {} bytes of 'a', then {} bytes of 'a'; Reader::new(ReaderRead) over {} {lim}",
			c.first,
			c.second,
			c.rd.name()
		),
	}
}

/// Judges one case. The demand is the limit oracle of C04: if some field is larger than the cap and is
/// not already wholly inside the reader's buffer when it is asked for, the decode must fail.
pub fn run_case(c: &Case) -> CaseOut {
	let mut o = CaseOut::default();
	let limits = Limits { allowed_depth: None, max_seq_size: Some(1000), max_alloc_size: Some(c.cap) };
	match &c.kind {
		Kind::Datum { tpl, target } => {
			let t = &templates()[*tpl];
			let schema = (t.schema)();
			let (bytes, fields) = flatten(&(t.build)(c.first, c.second));
			let env = Env::new(&schema);
			if !matches!(vmodel::value::decode(&bytes, &schema, &env), Verdict::Valid(_, n) if n == bytes.len()) {
				eprintln!("MACHINERY: C04 template '{}' is not a valid datum for the reference decoder", t.name);
				std::process::exit(3);
			}
			let cs = gen::to_crate_schema(&schema).expect("template schema");
			let tg = target_of(*target);
			let (out, allocs): (Out<()>, AllocStats) = match c.rd {
				Rd::Slice => {
					let r = de_slice(&cs, &bytes, &tg, &limits, false);
					(r.out.map(|_| ()), r.allocs)
				}
				Rd::Chunk(k) => {
					let r = de_chunked(&cs, ChunkedBufRead::uniform(&bytes, k), &tg, &limits, false);
					(r.out.map(|_| ()), r.allocs)
				}
				Rd::Buf(cap) => {
					let r = de_bufread(&cs, BufReader::with_capacity(cap, &bytes[..]), &tg, &limits, false);
					(r.out.map(|_| ()), r.allocs)
				}
			};
			o.decodes = 1;
			judge(c, &fields, &out, Some(&allocs).filter(|_| *target != 2), &mut o);
		}
		Kind::TwoDatums { new_state } => {
			let (d1, p1) = string_datum(c.first);
			let (d2, p2) = string_datum(c.second);
			let mut bytes = d1.clone();
			bytes.extend_from_slice(&d2);
			let fields = vec![(p1, c.first), (d1.len() + p2, c.second)];
			let cs = gen::to_crate_schema(&RSchema::String).unwrap();
			let mut allocs = AllocStats::default();
			let new_state = *new_state;
			let out: Out<()> = guarded(|| {
				// (the Box of the reader is allocated outside the measured region)
				let inner: Box<dyn std::io::BufRead + '_> = match c.rd {
					Rd::Chunk(k) => Box::new(ChunkedBufRead::uniform(&bytes, k)),
					Rd::Buf(cap) => Box::new(BufReader::with_capacity(cap, &bytes[..])),
					Rd::Slice => unreachable!(),
				};
				let mut rr = ReaderRead::new(inner);
				rr.max_alloc_size = c.cap;
				let mut config = DeserializerConfig::new(&cs);
				config.max_seq_size = 1000;
				let mut state = DeserializerState::with_config(rr, config.clone());
				let (res, a) = measure_allocs(move || {
					if let Err(e) = Fold.deserialize(state.deserializer()) {
						return Err(format!("first datum: {e}"));
					}
					let r2 = if new_state {
						let rr = state.into_reader();
						let mut st2 = DeserializerState::with_config(rr, config);
						Fold.deserialize(st2.deserializer()).map(|_| ())
					} else {
						Fold.deserialize(state.deserializer()).map(|_| ())
					};
					r2.map_err(|e| format!("second datum: {e}"))
				});
				allocs = a;
				res
			});
			o.decodes = 2;
			judge(c, &fields, &out, Some(&allocs), &mut o);
		}
		Kind::Container => {
			let (d1, _) = string_datum(c.first);
			let (d2, _) = string_datum(c.second);
			let meta = vec![("avro.schema".to_owned(), b"\"string\"".to_vec()), ("avro.codec".to_owned(), b"null".to_vec())];
			let layout = vmodel::container::MetaLayout { blocks: vec![2], sized: false };
			let file = vmodel::container::cf_write(&meta, &layout, SYNC, "null", &[(1, d1), (1, d2)]).expect("reference writer");
			let mut values = 0usize;
			let out: Out<()> = guarded(|| {
				let inner: Box<dyn std::io::BufRead + '_> = match c.rd {
					Rd::Chunk(k) => Box::new(ChunkedBufRead::uniform(&file, k)),
					Rd::Buf(cap) => Box::new(BufReader::with_capacity(cap, &file[..])),
					Rd::Slice => unreachable!(),
				};
				let mut rr = ReaderRead::new(inner);
				rr.max_alloc_size = c.cap;
				let mut rd = serde_avro_fast::object_container_file_encoding::Reader::new(rr).map_err(|e| format!("opening: {e}"))?;
				for _ in 0..4 {
					match rd.deserialize_seed_next(Fold) {
						Ok(Some(_)) => values += 1,
						Ok(None) => return Ok(()),
						Err(e) => return Err(format!("after {values} value(s): {e}")),
					}
				}
				Err("no end of file".to_owned())
			});
			o.decodes = 2;
			// positions inside a Take-limited block reader are not modelled: the demand is only made
			// where the field can never be buffered (refills smaller than the field)
			let never_buffered = match c.rd {
				Rd::Chunk(0) | Rd::Slice => false,
				Rd::Chunk(k) => k < c.first.min(c.second),
				Rd::Buf(cap) => cap < c.first.min(c.second),
			};
			if let Out::Panic(p) = &out {
				o.violations.push(("panic".into(), format!("panicked: {p}")));
			} else if never_buffered && c.second > c.cap {
				o.demanded = true;
				if out.is_ok() {
					o.violations.push(("limit-not-enforced:max_alloc_size".into(), format!("both blocks were read (Ok) although the datum of the second block is a single field of {} bytes > max_alloc_size {} that had to be gathered into the reader's buffer", c.second, c.cap)));
				} else if values == 1 && c.first == c.cap {
					o.refused_after_fill = true;
				}
			} else if never_buffered && out.is_ok() {
				o.accepted_within_cap = true;
			}
		}
	}
	o
}

fn judge(c: &Case, fields: &[(usize, usize)], out: &Out<()>, allocs: Option<&AllocStats>, o: &mut CaseOut) {
	if let Out::Panic(p) = out {
		o.violations.push(("panic".into(), format!("panicked: {p}")));
		return;
	}
	let status: Vec<(usize, Option<bool>)> = fields.iter().map(|&(p, n)| (n, c.rd.buffered(p, n))).collect();
	let over_cap_gathered = status.iter().find(|(n, b)| *n > c.cap && *b == Some(false));
	let unknown = status.iter().any(|(_, b)| b.is_none());
	if let Some((n, _)) = over_cap_gathered {
		o.demanded = true;
		if out.is_ok() {
			let earlier: Vec<String> = status.iter().take_while(|(m, _)| m != n).filter(|(_, b)| *b == Some(false)).map(|(m, _)| m.to_string()).collect();
			o.violations.push((
				"limit-not-enforced:max_alloc_size".into(),
				format!(
					"returned Ok although a single field of {n} bytes > max_alloc_size {} was not inside the reader's buffer and had to be gathered{}",
					c.cap,
					if earlier.is_empty() { String::new() } else { format!(" (earlier gathered field(s) of {} bytes had already grown the scratch buffer)", earlier.join(", ")) }
				),
			));
		} else {
			// was the scratch buffer filled to the cap before?
			let first_gathered_at_cap = status.iter().take_while(|(m, _)| m != n).any(|(m, b)| *m == c.cap && *b == Some(false));
			if first_gathered_at_cap {
				o.refused_after_fill = true;
			}
		}
	} else if !unknown && out.is_ok() && status.iter().any(|(_, b)| *b == Some(false)) {
		o.accepted_within_cap = true;
	}
	// library-owned memory: the scratch buffer never exceeds the cap
	if let Some(a) = allocs {
		if c.rd != Rd::Slice && a.peak_extra > K_SCRATCH + c.cap as i64 {
			o.violations.push(("memory".into(), format!("peak live heap during the decode {} bytes (largest single allocation {}), bound {} = {K_SCRATCH} + max_alloc_size", a.peak_extra, a.biggest, K_SCRATCH + c.cap as i64)));
		}
		if c.rd == Rd::Slice && out.is_ok() && a.allocs != 0 {
			o.violations.push(("slice-alloc".into(), format!("Ok with {} heap allocation(s) on the slice path", a.allocs)));
		}
	}
}
