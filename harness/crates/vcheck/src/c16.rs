//! C16 — container writer output independent of the sink's write schedule; sink errors surface.
//!
//! ENV: deviation-bounded exploration of the sink's answers. The harness owns the sink; every
//! `write` / `write_vectored` call the execution actually makes is a deviation point (default:
//! accept everything; deviations: accept k bytes for the k of `envs::sink_menu`, `Interrupted`,
//! hard error, `Ok(0)`). Plus the regular sinks "k bytes per call" (k = 1..=40), alone and with
//! an interrupt / hard error / `Ok(0)` injected at every call index they reach.
//!
//! Fault-then-continue: when a transient hard error / `Ok(0)` refuses a block flush *atomically*
//! (nothing of that flush had been accepted yet) the sink is healthy again afterwards and the
//! history goes on; every later call that returns Ok is judged by C15's invariant on the sink
//! contents (valid file, contents a prefix of the values handed over, all the values whose call
//! returned Ok after a successful finish_block / into_inner / drop). If part of the flush had
//! been accepted before the fault the stream state after the error is unspecified: the history
//! stops there, no verdict on what follows.

use crate::cfw::{self, CallRecord, Datum, Op};
use crate::envs::{sink_menu, ScheduledSink, SinkAnswer};
use crate::explore::{explore, hash64, Chooser, Cover};
use crate::report::{hex, truncate, Report, Violation};
use crate::subj::{guarded, Out};
use rayon::prelude::*;
use serde_json::json;
use std::cell::RefCell;
use std::rc::Rc;
use vmodel::value::RValue;

/// A writer that calls the sink more often than this in one execution is retrying forever: a
/// well-behaved execution needs at most one call per byte of the file plus one per interrupt.
fn horizon_for(reference_len: usize) -> usize {
	2 * reference_len + 256
}

#[derive(Clone, Debug)]
struct Hist {
	id: &'static str,
	/// index into the datum table (0 = record-with-array, 1 = null)
	datum: usize,
	block_size: u32,
	ops: Vec<Op>,
}

fn datums() -> Vec<Datum> {
	vec![Datum::new(), Datum::null()]
}

fn histories(ds: &[Datum]) -> Vec<Hist> {
	use Op::*;
	let d = &ds[0];
	vec![
		// three blocks, each cut by the size threshold or by into_inner
		Hist { id: "HA", datum: 0, block_size: d.big_len as u32, ops: vec![Big, Big, Small, IntoInner] },
		// three blocks by finish_block / finish_block / drop, multi-object blocks, a failing value in between
		Hist { id: "HB", datum: 0, block_size: 64 * 1024, ops: vec![Small, SmallRev, Finish, Push2, FailRev(6), Finish, SmallRev, Drop] },
		// block size 0: every value is its own block, into_inner has nothing left to write
		Hist { id: "HC", datum: 0, block_size: 0, ops: vec![Small, Big, Push1, IntoInner] },
		// five blocks, all entry points
		Hist { id: "HD", datum: 0, block_size: d.small_len as u32 + 1, ops: vec![Small, SmallRev, BigMix, Push1, Finish, Small, Small, SmallRev, IntoInner] },
		// schema null: zero-byte datums, the data slice of the vectored write is empty under the null codec
		Hist { id: "HN", datum: 1, block_size: 1, ops: vec![Small, Small, Finish, Push2, BadType, Finish, Small, IntoInner] },
		// retries: a finish_block directly after a finish_block, an into_inner directly after a finish_block
		Hist { id: "HR", datum: 0, block_size: 64 * 1024, ops: vec![Small, SmallRev, Finish, Finish, Push1, Finish, Small, Finish, IntoInner] },
		// blocks cut by the size threshold inside serialize, each followed by a finish_block (a no-op unless the cut's flush was refused)
		Hist { id: "HS", datum: 0, block_size: d.small_len as u32 + 1, ops: vec![Small, Small, Finish, Small, Small, Finish, Small, Drop] },
	]
}

#[derive(Clone, Debug)]
struct Unit {
	hist: Hist,
	codec: &'static str,
	/// a sink that has reported a hard error / Ok(0) keeps doing so (broken pipe, disk full);
	/// otherwise the fault is transient and later calls are decision points again
	sticky: bool,
}

impl Unit {
	fn label(&self) -> String {
		format!(
			"history {} [{}] approx_block_size {} codec {} ({} sink faults)",
			self.hist.id,
			cfw::hist_names(&self.hist.ops).join(", "),
			self.hist.block_size,
			self.codec,
			if self.sticky { "permanent" } else { "transient" }
		)
	}
}

#[derive(Clone, Debug, PartialEq)]
struct Fault {
	sink_call: usize,
	kind: SinkAnswer,
	/// bytes the sink had accepted when the fault was reported
	len_at_fault: usize,
	/// the fault refused a block flush of which nothing had been accepted yet
	atomic: bool,
}

#[derive(Default)]
struct Ctl {
	disposing: bool,
	accepted: usize,
	/// every hard error / Ok(0) reported, in order
	faults: Vec<Fault>,
	/// the history was stopped because of a fault that is not followed up (permanent fault mode,
	/// part of the flush already accepted, fault during build / into_inner / drop, fault not
	/// surfaced as Err)
	stopped_at_fault: bool,
	/// bytes of the block flush in progress: (total, still to be accepted); (0, 0) = no flush in progress
	flush: (usize, usize),
	horizon: bool,
	/// non-default answers given: (sink call index, slice lengths of the call, answer)
	schedule: Vec<(usize, Vec<usize>, SinkAnswer)>,
	/// short writes of a 3-slice vectored call that ended inside slice 0 / 1 / 2
	split3: [u64; 3],
	short_plain: u64,
	interrupts: u64,
	retries_with_fewer_slices: u64,
	empty_data_slice_calls: u64,
}

struct Exec {
	records: Vec<CallRecord>,
	/// sink length after each record
	sink_lens: Vec<usize>,
	/// faults[fault_ranges[i].0 .. fault_ranges[i].1] were reported during record i
	fault_ranges: Vec<(usize, usize)>,
	sink: Vec<u8>,
	sink_calls: usize,
	vectored_calls: usize,
	ctl: Ctl,
	horizon: usize,
}

/// Run the unit's history over a sink whose answers come from `decide(call, slice_lengths)`.
/// The history stops after the call during which a hard fault was reported, unless that fault
/// is followed up (see the module documentation).
fn execute(d: &Datum, u: &Unit, horizon: usize, decide: &mut dyn FnMut(usize, &[usize]) -> SinkAnswer) -> Exec {
	let ctl: Rc<RefCell<Ctl>> = Rc::new(RefCell::new(Ctl::default()));
	let sticky = u.sticky;
	let c2 = ctl.clone();
	let (sink, state) = ScheduledSink::with(move |call, lens: &[usize]| {
		let mut c = c2.borrow_mut();
		let total: usize = lens.iter().sum();
		if c.disposing {
			return SinkAnswer::All;
		}
		if call >= horizon {
			c.horizon = true;
			return SinkAnswer::HardError;
		}
		let a = match c.faults.first() {
			Some(f) if sticky => f.kind,
			_ => decide(call, lens),
		};
		// block flushes are the vectored calls; a flush starts when none is in progress
		let vectored = lens.len() != 1 || c.flush.1 != 0;
		if vectored && c.flush.1 != total {
			// no flush in progress, or the writer offers something else than the rest of the flush
			// in progress (it abandoned that one without a fault: judged by the oracle, not here)
			c.flush = (total, total);
		}
		if a != SinkAnswer::All && c.schedule.len() < 64 {
			c.schedule.push((call, lens.to_vec(), a));
		}
		match a {
			SinkAnswer::All => {
				c.accepted += total;
				if vectored {
					c.flush = (0, 0);
				}
			}
			SinkAnswer::Accept(k) => {
				let k = k.clamp(1, total);
				c.accepted += k;
				if vectored {
					c.flush.1 -= k;
					if c.flush.1 == 0 {
						c.flush = (0, 0);
					}
				}
				if k < total {
					if lens.len() == 3 {
						let i = if k < lens[0] {
							0
						} else if k < lens[0] + lens[1] {
							1
						} else {
							2
						};
						// a write that ends exactly on a slice boundary is not "inside" a slice
						if k != lens[0] && k != lens[0] + lens[1] {
							c.split3[i] += 1;
						}
					} else if lens.len() == 1 {
						c.short_plain += 1;
					}
				}
			}
			SinkAnswer::Interrupted => c.interrupts += 1,
			SinkAnswer::HardError | SinkAnswer::WouldBlock | SinkAnswer::Zero => {
				let len_at_fault = c.accepted;
				let atomic = vectored && c.flush.0 == c.flush.1;
				if c.faults.len() < 64 {
					c.faults.push(Fault { sink_call: call, kind: a, len_at_fault, atomic });
				}
				// the writer abandons the flush (it may start it again from the beginning)
				c.flush = (0, 0);
			}
		}
		if lens.len() == 2 {
			c.retries_with_fewer_slices += 1;
		}
		if lens.len() == 3 && lens[1] == 0 {
			c.empty_data_slice_calls += 1;
		}
		a
	});
	let mut records: Vec<CallRecord> = Vec::new();
	let mut sink_lens: Vec<usize> = Vec::new();
	let mut fault_ranges: Vec<(usize, usize)> = Vec::new();
	let mut faults_seen = 0usize;
	let c3 = ctl.clone();
	let c4 = ctl.clone();
	let state2 = state.clone();
	cfw::run_history(
		d,
		u.codec,
		u.hist.block_size,
		sink,
		&u.hist.ops,
		&mut |_i, rec| {
			if rec.drop_after_panic {
				// the executor's own clean-up after a call that panicked: not a call of the history
				c3.borrow_mut().disposing = true;
				return false;
			}
			records.push(rec.clone());
			sink_lens.push(state2.borrow().bytes.len());
			let mut c = c3.borrow_mut();
			let new_faults = (faults_seen, c.faults.len());
			fault_ranges.push(new_faults);
			faults_seen = c.faults.len();
			if c.horizon {
				return false;
			}
			if new_faults.0 == new_faults.1 {
				return true;
			}
			// fault-then-continue: a transient fault that atomically refused a block flush, surfaced
			// as Err by a call that leaves the writer alive
			let follow_up = !sticky && c.faults[new_faults.0..new_faults.1].iter().all(|f| f.atomic) && rec.result.is_err() && !rec.op.map_or(true, |o| o.terminal());
			if !follow_up {
				c.stopped_at_fault = true;
			}
			follow_up
		},
		&mut || c4.borrow_mut().disposing = true,
	);
	let st = state.borrow();
	let ctl = std::mem::take(&mut *ctl.borrow_mut());
	Exec { records, sink_lens, fault_ranges, sink: st.bytes.clone(), sink_calls: st.calls, vectored_calls: st.vectored_calls, ctl, horizon }
}

/// The same history through the real crate into a plain `Vec<u8>`.
struct Reference {
	kinds: Vec<&'static str>,
	bytes: Vec<u8>,
}

fn reference(d: &Datum, u: &Unit) -> Reference {
	let mut bytes: Vec<u8> = Vec::new();
	let mut kinds = Vec::new();
	cfw::run_history(
		d,
		u.codec,
		u.hist.block_size,
		&mut bytes,
		&u.hist.ops,
		&mut |_i, rec| {
			if !rec.drop_after_panic {
				kinds.push(rec.result.kind());
			}
			true
		},
		&mut || {},
	);
	Reference { kinds, bytes }
}

fn describe_schedule(ex: &Exec) -> String {
	if ex.ctl.schedule.is_empty() {
		return "every sink call accepts everything".to_owned();
	}
	let parts: Vec<String> = ex.ctl.schedule.iter().take(10).map(|(c, lens, a)| format!("sink call #{c} (slice lengths {lens:?}) answers {a:?}")).collect();
	let more = if ex.ctl.schedule.len() > 10 { "; … (further non-default answers omitted)" } else { "" };
	format!("{}{more}; every other sink call accepts everything", parts.join("; "))
}

fn describe_calls(ex: &Exec) -> String {
	ex.records.iter().map(|r| format!("{}->{}", r.op_name(), r.result.kind())).collect::<Vec<_>>().join(", ")
}

/// The oracle. Counters go to `cover`.
fn judge(d: &Datum, u: &Unit, ex: &Exec, rf: &Reference, cover: &mut Cover) -> Result<(), (String, String)> {
	let ctx = format!("{}; schedule: {}; calls: {}", u.label(), describe_schedule(ex), describe_calls(ex));
	if ex.ctl.horizon {
		return Err(("sink-call-horizon".into(), format!("{ctx}: the writer made more than {} sink calls in one execution for a file of {} bytes (it retries forever)", ex.horizon, rf.bytes.len())));
	}
	// the values handed over so far: (value, its call returned Ok). A value whose call returned
	// Err because of a sink fault may or may not reach the file (no verdict); a value that does not
	// match the schema never may.
	let mut handed: Vec<(RValue, bool)> = Vec::new();
	let mut first_fault_seen = false;
	let mut refused_flushes = 0u64;
	let mut values_in_file_at_last_refusal = 0usize;
	let mut delivered_after_refusal = false;
	for (i, rec) in ex.records.iter().enumerate() {
		let (f0, f1) = ex.fault_ranges[i];
		if !rec.op.map_or(false, |o| o.failing()) {
			handed.extend(rec.values.iter().cloned().map(|v| (v, rec.result.is_ok())));
		}
		if f0 == f1 && !first_fault_seen {
			// benign so far
			if rf.kinds.get(i) != Some(&rec.result.kind()) {
				return Err((
					"benign-schedule-call-failed".into(),
					format!("{ctx}: no hard error had been injected, but op {} returned {:?} where the Vec<u8> run returned {:?}", rec.op_name(), rec.result, rf.kinds.get(i)),
				));
			}
			continue;
		}
		let opn = rec.op_name();
		if f0 != f1 {
			// this call met a fault
			let f = &ex.ctl.faults[f0];
			cover.count(&format!("faults_during_{}", opn.split('(').next().unwrap()), 1);
			cover.count(if f.kind == SinkAnswer::Zero { "faults_ok0" } else { "faults_hard_error" }, 1);
			if !first_fault_seen {
				first_fault_seen = true;
				// nothing lost, duplicated or reordered up to the first failure
				if f.len_at_fault > rf.bytes.len() || ex.sink.len() < f.len_at_fault || ex.sink[..f.len_at_fault] != rf.bytes[..f.len_at_fault] {
					return Err((
						"not-a-prefix-at-fault".into(),
						format!("{ctx}: when the sink reported {:?} at sink call #{} it held {} bytes which are not a prefix of the Vec<u8> run's {} bytes: [{}]", f.kind, f.sink_call, f.len_at_fault, rf.bytes.len(), truncate(&hex(&ex.sink[..f.len_at_fault.min(ex.sink.len())]), 900)),
					));
				}
			}
			if rec.op == Some(Op::Drop) {
				// a destructor cannot return the error; the property speaks of calls that can
				cover.count("drop_under_fault_not_judged", 1);
				cover.count(&format!("drop_under_fault_{}", rec.result.kind()), 1);
				return Ok(());
			}
			match &rec.result {
				Out::Err(_) => cover.count("faults_surfaced_as_err", 1),
				Out::Ok(()) => return Err(("fault-not-surfaced".into(), format!("{ctx}: the sink reported {:?} at sink call #{} during op {opn}, which returned Ok", f.kind, f.sink_call))),
				Out::Panic(m) => return Err(("failing-call-panicked".into(), format!("{ctx}: the sink reported {:?} at sink call #{} during op {opn}, which panicked instead of returning Err: {m}", f.kind, f.sink_call))),
			}
			if i + 1 == ex.records.len() && ex.ctl.stopped_at_fault {
				cover.count(if ex.ctl.faults[f0..f1].iter().all(|f| f.atomic) { "stopped_at_atomic_fault_not_followed_up" } else { "stopped_at_fault_inside_a_flush_no_verdict_after" }, 1);
				return Ok(());
			}
			// an atomically refused block flush, the history goes on
			refused_flushes += 1;
			cover.count("refused_block_flushes_followed_up", 1);
			values_in_file_at_last_refusal = match cfw::inspect(d, u.codec, &ex.sink[..ex.sink_lens[i]]) {
				Ok(ins) => ins.values.len(),
				Err(e) => return Err(("invalid-file-after-refused-flush".into(), format!("{ctx}: after {opn} returned Err for a block flush of which the sink accepted nothing, the sink does not hold a valid container file: {e}"))),
			};
			continue;
		}
		// a call after a refused flush, on a sink that is healthy again
		match &rec.result {
			Out::Panic(m) => return Err(("call-panicked-after-refused-flush".into(), format!("{ctx}: op {opn} (call {i}), after an atomically refused block flush, panicked: {m}"))),
			Out::Err(_) => {
				// e.g. a poisoned writer: not judged, nothing is claimed flushed
				cover.count("later_calls_err_not_judged", 1);
				continue;
			}
			Out::Ok(()) => {}
		}
		cover.count("later_calls_ok_judged", 1);
		let sink = &ex.sink[..ex.sink_lens[i]];
		let ins = match cfw::inspect(d, u.codec, sink) {
			Ok(ins) => ins,
			Err(e) => {
				return Err((
					"invalid-file-after-refused-flush".into(),
					format!("{ctx}: op {opn} (call {i}) returned Ok after an atomically refused block flush, and the sink does not hold a valid container file: {e}; sink = [{}]", truncate(&hex(sink), 1200)),
				))
			}
		};
		if !d.is_record {
			// the values of the null datum are indistinguishable: judge by counts
			let mandatory = handed.iter().filter(|(_, ok)| *ok).count();
			if ins.values.len() > handed.len() {
				return Err(("not-a-prefix-after-refused-flush".into(), format!("{ctx}: op {opn} (call {i}) returned Ok after an atomically refused block flush; the file holds {} values (blocks {:?}) but only {} were handed over", ins.values.len(), ins.block_counts, handed.len())));
			}
			if matches!(rec.op, Some(Op::Finish | Op::IntoInner | Op::Drop)) && ins.values.len() < mandatory {
				return Err((
					"incomplete-after-refused-flush".into(),
					format!("{ctx}: op {opn} (call {i}) returned Ok after an atomically refused block flush, but the file (blocks {:?}) holds {} values while the calls of {mandatory} values returned Ok", ins.block_counts, ins.values.len()),
				));
			}
			if ins.values.len() > values_in_file_at_last_refusal {
				delivered_after_refusal = true;
			}
			continue;
		}
		// greedy match (all values are distinct): mandatory = its call returned Ok
		let mut hi = 0usize;
		let mut missing: Vec<&RValue> = Vec::new();
		let mut stray: Option<&RValue> = None;
		for v in &ins.values {
			loop {
				match handed.get(hi) {
					None => {
						stray = Some(v);
						break;
					}
					Some((h, mandatory)) => {
						hi += 1;
						if h == v {
							break;
						}
						if *mandatory {
							missing.push(h);
						}
					}
				}
			}
			if stray.is_some() {
				break;
			}
		}
		if stray.is_some() || !missing.is_empty() {
			return Err((
				"not-a-prefix-after-refused-flush".into(),
				format!(
					"{ctx}: op {opn} (call {i}) returned Ok after an atomically refused block flush; the file holds {} values (blocks {:?}) that are not a prefix of the values handed over [{}] (skipped although their call returned Ok: {}; not handed over / out of order: {})",
					ins.values.len(),
					ins.block_counts,
					handed.iter().map(|(v, ok)| format!("{}{}", value_id(v), if *ok { "" } else { "(call Err)" })).collect::<Vec<_>>().join(", "),
					missing.iter().map(|v| value_id(v)).collect::<Vec<_>>().join(", "),
					stray.map_or("-".to_owned(), value_id),
				),
			));
		}
		if matches!(rec.op, Some(Op::Finish | Op::IntoInner | Op::Drop)) {
			let lost: Vec<String> = handed[hi..].iter().filter(|(_, ok)| *ok).map(|(v, _)| value_id(v)).collect();
			if !lost.is_empty() {
				return Err((
					"incomplete-after-refused-flush".into(),
					format!(
						"{ctx}: op {opn} (call {i}) returned Ok after an atomically refused block flush, but the file (blocks {:?}, {} values) lacks {} whose calls returned Ok",
						ins.block_counts,
						ins.values.len(),
						lost.join(", ")
					),
				));
			}
		}
		if ins.values.len() > values_in_file_at_last_refusal {
			delivered_after_refusal = true;
		}
	}
	if ex.ctl.faults.is_empty() {
		if ex.records.len() != rf.kinds.len() {
			return Err(("benign-schedule-call-failed".into(), format!("{ctx}: the history stopped after {} of {} calls", ex.records.len(), rf.kinds.len())));
		}
		if ex.sink != rf.bytes {
			let common = ex.sink.iter().zip(&rf.bytes).take_while(|(a, b)| a == b).count();
			return Err((
				"bytes-differ".into(),
				format!(
					"{ctx}: the sink ends up with {} bytes, the Vec<u8> run with {}; first difference at offset {common}; sink = [{}], Vec<u8> = [{}]",
					ex.sink.len(),
					rf.bytes.len(),
					truncate(&hex(&ex.sink), 900),
					truncate(&hex(&rf.bytes), 900)
				),
			));
		}
		cover.count("benign_executions_identical", 1);
	} else if refused_flushes > 0 {
		cover.count("executions_continued_after_refused_flush", 1);
		if delivered_after_refusal {
			cover.count("refused_flush_then_successful_retry_delivered_block", 1);
		}
		if ex.records.len() == rf.kinds.len() && ex.sink[..*ex.sink_lens.last().unwrap()] == rf.bytes[..] {
			cover.count("continued_executions_ending_with_the_reference_stream", 1);
		}
	}
	Ok(())
}

fn value_id(v: &RValue) -> String {
	match v {
		RValue::Record(f) => match (&f[0], &f[1]) {
			(RValue::Long(a), RValue::Array(xs)) => {
				let kind = match xs.first() {
					Some(RValue::Str(s)) if s == "x" => "small",
					Some(RValue::Str(s)) if s == "p" => "pushed",
					Some(RValue::Str(s)) if s == "h" => "huge",
					_ => "big",
				};
				format!("{kind}#{a}")
			}
			_ => format!("{v:?}"),
		},
		RValue::Null => "null".to_owned(),
		_ => format!("{v:?}"),
	}
}

fn account(ex: &Exec, cover: &mut Cover) {
	cover.impl_runs += 1;
	cover.evaluations += 1;
	cover.count("sink_calls", ex.sink_calls as u64);
	cover.count("sink_vectored_calls", ex.vectored_calls as u64);
	cover.count("short_write_inside_block_header_slice", ex.ctl.split3[0]);
	cover.count("short_write_inside_block_data_slice", ex.ctl.split3[1]);
	cover.count("short_write_inside_sync_marker_slice", ex.ctl.split3[2]);
	cover.count("short_write_of_file_header", ex.ctl.short_plain);
	cover.count("interrupts_injected", ex.ctl.interrupts);
	cover.count("vectored_retries_with_two_slices_left", ex.ctl.retries_with_fewer_slices);
	cover.count("vectored_calls_with_empty_data_slice", ex.ctl.empty_data_slice_calls);
	cover.outcomes.insert(hash64(&(ex.ctl.faults.iter().map(|f| (format!("{:?}", f.kind), f.len_at_fault)).collect::<Vec<_>>(), ex.records.iter().map(|r| r.result.kind()).collect::<Vec<_>>(), ex.sink.len())));
}

/// number of sink calls the regular execution with k bytes per call makes (learned from a run)
fn count_calls(d: &Datum, u: &Unit, horizon: usize, k: usize) -> usize {
	execute(d, u, horizon, &mut regular_decider(k, Inject::None)).sink_calls
}

#[derive(Clone, Debug, PartialEq)]
enum Inject {
	None,
	At(usize, SinkAnswer),
}

fn regular_decider(k: usize, inject: Inject) -> impl FnMut(usize, &[usize]) -> SinkAnswer {
	move |call, _lens| match &inject {
		Inject::At(j, a) if *j == call => *a,
		_ => SinkAnswer::Accept(k),
	}
}

fn answer_name(a: SinkAnswer) -> &'static str {
	match a {
		SinkAnswer::Interrupted => "interrupted",
		SinkAnswer::HardError => "hard_error",
		SinkAnswer::WouldBlock => "would_block",
		SinkAnswer::Zero => "ok0",
		_ => "other",
	}
}

fn answer_parse(s: &str) -> Option<SinkAnswer> {
	Some(match s {
		"interrupted" => SinkAnswer::Interrupted,
		"hard_error" => SinkAnswer::HardError,
		"would_block" => SinkAnswer::WouldBlock,
		"ok0" => SinkAnswer::Zero,
		_ => return None,
	})
}

/// Violations that end the walk of a unit early once there are 100 of them. A call that panics
/// under an injected fault (the class of the listed finding D8) does not: the rest of the space
/// must still be explored.
fn stop_worthy(out: &[Violation]) -> usize {
	out.iter().filter(|v| v.class != "failing-call-panicked").count()
}

fn unit_token(u: &Unit) -> serde_json::Value {
	json!({"check": "C16", "hist": u.hist.id, "codec": u.codec, "sticky": u.sticky})
}

fn run_unit(d: &Datum, u: &Unit, budget: usize, max_leaves: u64, inject_ks: &[usize]) -> (Cover, Vec<Violation>) {
	let mut cover = Cover::default();
	let mut out: Vec<Violation> = Vec::new();
	let rf = reference(d, u);
	// machinery sanity: the reference stream is a valid file with at least three blocks
	match cfw::inspect(d, u.codec, &rf.bytes) {
		Ok(i) if i.block_counts.len() >= 3 => {}
		Ok(i) => {
			// What the writer puts into an all-accepting sink is C15's business; here it only means
			// that this unit cannot be evaluated. Reported as a cap (the run is then not called
			// exhaustive); `run` turns it into a machinery error when no unit at all is evaluable.
			cover.caps.push(format!("{}: not evaluated, the reference history writes {} blocks where at least 3 were intended (the Vec<u8> run is C15's subject)", u.label(), i.block_counts.len()));
			cover.count("units_not_evaluable", 1);
			return (cover, out);
		}
		Err(e) => {
			cover.caps.push(format!("{}: not evaluated, the Vec<u8> run does not produce a valid file: {e} (C15's subject)", u.label()));
			cover.count("units_not_evaluable", 1);
			return (cover, out);
		}
	}
	let horizon = horizon_for(rf.bytes.len());
	// (1) all executions with <= budget deviations (the walk of a unit stops after 100 violations)
	let st = explore(Some(budget), max_leaves, |ch| {
		let cell: RefCell<&mut Chooser> = RefCell::new(ch);
		let ex = execute(d, u, horizon, &mut |_call, lens| {
			let menu = sink_menu(lens, true);
			let i = cell.borrow_mut().dev(menu.len());
			menu[i]
		});
		let ch = cell.into_inner();
		account(&ex, &mut cover);
		cover.count(&format!("executions_with_{}_deviations", ch.devs_used), 1);
		if ch.devs_used > 0 {
			cover.nontrivial.insert(hash64(&(u.hist.id, u.codec, u.sticky, ch.choices())));
		}
		if let Err((class, what)) = judge(d, u, &ex, &rf, &mut cover) {
			if out.iter().filter(|v| v.class == class).count() < 100 {
				// determinism guard
				let mut ch2 = Chooser::replay(ch.choices());
				let cell2: RefCell<&mut Chooser> = RefCell::new(&mut ch2);
				let ex2 = execute(d, u, horizon, &mut |_call, lens| {
					let menu = sink_menu(lens, true);
					let i = cell2.borrow_mut().dev(menu.len());
					menu[i]
				});
				if judge(d, u, &ex2, &rf, &mut Cover::default()) != Err((class.clone(), what.clone())) {
					eprintln!("MACHINERY: C16 execution {:?} of {} is not reproducible", ch.choices(), u.label());
					std::process::exit(2);
				}
				let mut tok = unit_token(u);
				tok["choices"] = json!(ch.choices());
				out.push(Violation { class, what, replay: tok });
			}
		}
		if cover.samples.is_empty() && ch.devs_used == 2 && ex.ctl.faults.is_empty() && u.codec == "null" && u.hist.id == "HA" {
			cover.sample(json!({"unit": u.label(), "schedule": describe_schedule(&ex), "calls": describe_calls(&ex), "sink_calls": ex.sink_calls, "sink_bytes": ex.sink.len(), "identical_to_vec_run": ex.sink == rf.bytes}));
		}
		stop_worthy(&out) < 100
	});
	cover.add_tree(&st, &format!("{} deviation budget {budget}", u.label()));
	// (2) regular sinks: k bytes per call
	let mut learned_calls: Vec<usize> = Vec::new();
	let mut regular = |k: usize, inject: Inject, cover: &mut Cover, out: &mut Vec<Violation>| -> usize {
		let ex = execute(d, u, horizon, &mut regular_decider(k, inject.clone()));
		account(&ex, cover);
		cover.states += 1;
		cover.transitions += 1;
		cover.count("regular_sink_executions", 1);
		cover.nontrivial.insert(hash64(&(u.hist.id, u.codec, u.sticky, "regular", k, format!("{inject:?}"))));
		if let Err((class, what)) = judge(d, u, &ex, &rf, cover) {
			if out.iter().filter(|v| v.class == class).count() < 100 {
				let mut tok = unit_token(u);
				tok["regular"] = match &inject {
					Inject::None => json!({"k": k}),
					Inject::At(j, a) => json!({"k": k, "inject": answer_name(*a), "at": j}),
				};
				out.push(Violation { class, what: format!("regular sink accepting {k} byte(s) per call, {inject:?}: {what}"), replay: tok });
			}
		}
		ex.sink_calls
	};
	// (executions without a hard fault do not depend on the fault mode: they are run in the
	// transient unit only)
	'regular: for k in 1..=40usize {
		if !u.sticky {
			let n_calls = regular(k, Inject::None, &mut cover, &mut out);
			learned_calls.push(n_calls);
		} else {
			learned_calls.push(count_calls(d, u, horizon, k));
		}
		if inject_ks.contains(&k) && learned_calls[k - 1] < horizon {
			// every call index the regular execution reaches
			for j in 0..learned_calls[k - 1] {
				for a in [SinkAnswer::Interrupted, SinkAnswer::HardError, SinkAnswer::WouldBlock, SinkAnswer::Zero] {
					if u.sticky && a == SinkAnswer::Interrupted {
						continue;
					}
					regular(k, Inject::At(j, a), &mut cover, &mut out);
					if stop_worthy(&out) >= 100 {
						cover.caps.push(format!("{}: regular-sink family stopped after 100 violations", u.label()));
						break 'regular;
					}
				}
			}
		}
	}
	(cover, out)
}

fn units(ds: &[Datum], thorough: bool) -> Vec<Unit> {
	let codecs: &[&'static str] = if thorough { &cfw::CODECS_ALL } else { &cfw::CODECS_QUICK };
	let mut v = Vec::new();
	for h in histories(ds) {
		for &codec in codecs {
			for sticky in [false, true] {
				v.push(Unit { hist: h.clone(), codec, sticky });
			}
		}
	}
	v
}

pub fn run(rep: &mut Report) {
	let thorough = rep.thorough();
	cfw::tune_allocator();
	rep.level = "fault_enumeration".to_owned();
	let ds = datums();
	let us = units(&ds, thorough);
	let budget = if thorough { 3 } else { 2 };
	let max_leaves: u64 = if thorough { 3_000_000 } else { 300_000 };
	let inject_ks: Vec<usize> = if thorough { vec![1, 2, 3, 5, 16, 40] } else { vec![1, 3, 16] };
	rep.rule = format!(
		"ENV: units = writer histories {:?} (datum 'record' = schema {}, datum 'null' = schema \"null\" with zero-byte values; sync marker pinned) x codecs {:?} x (transient | permanent) sink faults. Per unit: (1) every execution with <= {budget} deviations (thorough: <= {budget}+1 for the codecs null and deflate), a deviation point being every write/write_vectored call the execution actually makes on the harness-owned sink (default: accept everything; deviations from envs::sink_menu: accept k in {{1, 2, |first slice|, |first slice|+1, |first two|, |first two|+1, total-1}}, Interrupted, hard error of kind Other, hard error of kind WouldBlock, Ok(0)); (2) the regular sinks accepting k bytes per call for k = 1..=40, and for k in {:?} additionally with Interrupted / hard error (Other, WouldBlock) / Ok(0) injected at every call index the regular execution reaches. Oracle: no hard error / Ok(0) injected => every writer call returns what it returns on Vec<u8> and the sink ends up with exactly the Vec<u8> run's bytes; hard error / Ok(0) during a call => that call returns Err (not Ok, not a panic; build with debug assertions) and the bytes the sink held when it reported the fault are a prefix of the Vec<u8> run's; a fault that hits the explicit `drop` is not judged (a destructor cannot return an error). Fault-then-continue (transient fault mode): when the fault refused a block flush atomically (the sink had accepted nothing of that flush) and the call returned Err with the writer still alive, the sink is healthy again and the history goes on (later calls are deviation points again); every later call that returns Ok is judged by C15's invariant on the sink contents at that point (vmodel cf_parse + decode per datum: valid file; its values are a prefix, in order, of the values handed over, where a value whose call returned Err because of the sink fault may or may not be present and a value that does not match the schema never; after an Ok finish_block / into_inner / drop every value whose call returned Ok is present); later calls that return Err are not judged, a panic is a violation. In every other case (part of the flush already accepted, permanent fault mode, fault during build / into_inner) the history stops after the failing call: the stream state after such an error is unspecified. Non-trivial: executions with at least one deviation, distinct on (unit, choice vector); every regular-sink execution.",
		histories(&ds).iter().map(|h| format!("{} = {:?} @ approx_block_size {}, datum {}", h.id, cfw::hist_names(&h.ops), h.block_size, ds[h.datum].id)).collect::<Vec<_>>(),
		ds[0].schema_text,
		if thorough { &cfw::CODECS_ALL[..] } else { &cfw::CODECS_QUICK[..] },
		inject_ks,
	);
	rep.assumptions.push("the Vec<u8> run of the same history through the same crate is the reference stream (its validity as a container file is C15's subject and is only sanity-checked here)".into());
	rep.assumptions.push("a sink is well-behaved: it reports Ok(n) only for bytes it has taken, n <= the bytes offered".into());
	rep.extra.insert("units".into(), json!(us.len()));
	rep.extra.insert("deviation_budget".into(), json!(budget));
	let results: Vec<(Cover, Vec<Violation>)> = us.par_iter().map(|u| run_unit(&ds[u.hist.datum], u, budget + (thorough && matches!(u.codec, "null" | "deflate")) as usize, max_leaves, &inject_ks)).collect();
	for (c, v) in results {
		rep.cover.merge(c);
		rep.violations.extend(v);
	}
	rep.extra.insert("highest_completed_deviation_level".into(), json!(if rep.cover.caps.is_empty() { budget } else { 0 }));
	let not_evaluable = rep.cover.counters.get("units_not_evaluable").copied().unwrap_or(0);
	if not_evaluable as usize * 2 > us.len() {
		eprintln!("MACHINERY: C16: {not_evaluable} of {} units cannot be evaluated (their reference run on a Vec<u8> does not give the intended file): nothing to compare with (see C15)", us.len());
		std::process::exit(2);
	}
	// vacuity guards
	let need = [
		"short_write_inside_block_header_slice",
		"short_write_inside_block_data_slice",
		"short_write_inside_sync_marker_slice",
		"short_write_of_file_header",
		"interrupts_injected",
		"vectored_retries_with_two_slices_left",
		"vectored_calls_with_empty_data_slice",
		"benign_executions_identical",
		"faults_during_build",
		"faults_during_ser_small",
		"faults_during_push_serialized",
		"faults_during_finish_block",
		"faults_during_into_inner",
		"faults_hard_error",
		"faults_ok0",
		"faults_surfaced_as_err",
		"executions_with_2_deviations",
		"refused_block_flushes_followed_up",
		"later_calls_ok_judged",
		"refused_flush_then_successful_retry_delivered_block",
		"stopped_at_fault_inside_a_flush_no_verdict_after",
	];
	rep.extra.insert("deviation_budget_null_deflate".into(), json!(budget + thorough as usize));
	let unexplained = rep.violations.iter().any(|v| v.class != "failing-call-panicked");
	// (units that could not be evaluated are already reported as caps: what they would have
	// exercised is missing for a stated reason)
	if !unexplained && not_evaluable == 0 {
		for k in need {
			if rep.cover.counters.get(k).copied().unwrap_or(0) == 0 {
				eprintln!("MACHINERY: C16 vacuity guard: counter {k} is 0 — a behaviour the check relies on was never exercised");
				std::process::exit(2);
			}
		}
	}
}

pub fn replay(v: &serde_json::Value) -> i32 {
	let r = &v["replay"];
	let ds = datums();
	let Some(hist) = histories(&ds).into_iter().find(|h| Some(h.id) == r["hist"].as_str()) else {
		eprintln!("replay: unknown history {:?}", r["hist"]);
		return 2;
	};
	let Some(codec) = cfw::CODECS_ALL.iter().copied().find(|c| Some(*c) == r["codec"].as_str()) else {
		eprintln!("replay: unknown codec {:?}", r["codec"]);
		return 2;
	};
	let u = Unit { hist, codec, sticky: r["sticky"].as_bool().unwrap_or(false) };
	let d = &ds[u.hist.datum];
	let rf = reference(d, &u);
	println!("C16 replay: {}", u.label());
	let ex = if let Some(reg) = r.get("regular") {
		let k = reg["k"].as_u64().unwrap_or(1) as usize;
		let inject = match (reg["inject"].as_str().and_then(answer_parse), reg["at"].as_u64()) {
			(Some(a), Some(j)) => Inject::At(j as usize, a),
			_ => Inject::None,
		};
		println!("  regular sink: {k} byte(s) per call, {inject:?}");
		execute(d, &u, horizon_for(rf.bytes.len()), &mut regular_decider(k, inject))
	} else {
		let choices: Vec<usize> = r["choices"].as_array().map(|a| a.iter().map(|c| c.as_u64().unwrap_or(0) as usize).collect()).unwrap_or_default();
		let mut ch = Chooser::replay(choices);
		let cell: RefCell<&mut Chooser> = RefCell::new(&mut ch);
		let out = guarded(|| {
			Ok(execute(d, &u, horizon_for(rf.bytes.len()), &mut |_call, lens| {
				let menu = sink_menu(lens, true);
				let i = cell.borrow_mut().dev(menu.len());
				menu[i]
			}))
		});
		match out {
			Out::Ok(ex) => ex,
			other => {
				eprintln!("replay: execution failed: {:?}", other.map(|_| ()));
				return 2;
			}
		}
	};
	println!("  schedule: {}", describe_schedule(&ex));
	for (i, rec) in ex.records.iter().enumerate() {
		let seen = match cfw::inspect(d, u.codec, &ex.sink[..ex.sink_lens[i]]) {
			Ok(ins) => format!("valid file, blocks {:?}, values [{}]", ins.block_counts, ins.values.iter().map(value_id).collect::<Vec<_>>().join(", ")),
			Err(e) => format!("not a complete valid file: {e}"),
		};
		println!("  call {i} {:<20} -> {:?}   (Vec<u8> run: {}); sink {} bytes: {seen}", rec.op_name(), rec.result, rf.kinds.get(i).copied().unwrap_or("-"), ex.sink_lens[i]);
	}
	println!("  sink calls {}, faults {:?}", ex.sink_calls, ex.ctl.faults);
	println!("  sink    ({} bytes) = [{}]", ex.sink.len(), hex(&ex.sink));
	println!("  Vec<u8> ({} bytes) = [{}]", rf.bytes.len(), hex(&rf.bytes));
	match judge(d, &u, &ex, &rf, &mut Cover::default()) {
		Ok(()) => {
			println!("  no violation: the property holds on this execution");
			0
		}
		Err((class, what)) => {
			println!("  [{class}] {what}");
			1
		}
	}
}
