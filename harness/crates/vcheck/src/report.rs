//! Evidence files, violation reports, known findings, replay files.

use crate::explore::Cover;
use serde_json::{json, Value};
use std::collections::BTreeMap;
use std::path::PathBuf;

/// Root of the verification tree (evidence/, replays/, KNOWN_FINDINGS.jsonl). `VERIF_ROOT`
/// overrides it for scratch copies of the harness.
pub fn verif_root() -> String {
	std::env::var("VERIF_ROOT").unwrap_or_else(|_| "/verif".to_owned())
}

#[derive(Clone, Debug)]
pub struct Violation {
	/// stable identifier of the *kind* of failure, matched against known findings
	pub class: String,
	/// the specific failing input / history / schedule, human readable
	pub what: String,
	/// replay token: everything `--replay` needs
	pub replay: Value,
}

#[derive(Clone, Debug)]
pub struct Known {
	pub id: String,
	pub property: String,
	pub status: String,
	pub class: String,
	/// all of these substrings must occur in `what`
	pub what_contains: Vec<String>,
	pub description: String,
}

pub fn load_known() -> Vec<Known> {
	let p = format!("{}/KNOWN_FINDINGS.jsonl", verif_root());
	let Ok(text) = std::fs::read_to_string(&p) else { return vec![] };
	let mut out = Vec::new();
	for line in text.lines() {
		let line = line.trim();
		if line.is_empty() || line.starts_with('#') {
			continue;
		}
		let v: Value = serde_json::from_str(line).unwrap_or_else(|e| {
			eprintln!("MACHINERY: KNOWN_FINDINGS.jsonl: {e}");
			std::process::exit(2)
		});
		out.push(Known {
			id: v["id"].as_str().unwrap_or("").to_owned(),
			property: v["property"].as_str().unwrap_or("").to_owned(),
			status: v["status"].as_str().unwrap_or("").to_owned(),
			class: v["match"]["class"].as_str().unwrap_or("").to_owned(),
			what_contains: v["match"]["what_contains"].as_array().map(|a| a.iter().filter_map(|s| s.as_str().map(|s| s.to_owned())).collect()).unwrap_or_default(),
			description: v["description"].as_str().unwrap_or("").to_owned(),
		});
	}
	out
}

pub struct Report {
	pub property: String,
	pub tier: String,
	pub seed: i64,
	pub level: String,
	pub cover: Cover,
	pub violations: Vec<Violation>,
	pub rule: String,
	pub assumptions: Vec<String>,
	pub extra: BTreeMap<String, Value>,
	pub exhaustive: bool,
	pub started: std::time::Instant,
}

impl Report {
	pub fn new(property: &str, tier: &str) -> Report {
		let seed = std::env::var("VERIF_SEED").ok().and_then(|s| s.parse().ok()).unwrap_or(0);
		Report {
			property: property.to_owned(),
			tier: tier.to_owned(),
			seed,
			level: "model_checking".to_owned(),
			cover: Cover::default(),
			violations: Vec::new(),
			rule: String::new(),
			assumptions: Vec::new(),
			extra: BTreeMap::new(),
			exhaustive: true,
			started: std::time::Instant::now(),
		}
	}
	pub fn violation(&mut self, class: &str, what: String, replay: Value) {
		if self.violations.len() < 2000 {
			self.violations.push(Violation { class: class.to_owned(), what, replay });
		}
	}
	pub fn thorough(&self) -> bool {
		self.tier == "thorough"
	}

	/// Write evidence, print verdict lines, return the process exit code.
	pub fn finish(mut self) -> i32 {
		let known = load_known();
		let mut unknown: Vec<&Violation> = Vec::new();
		let mut known_hits: BTreeMap<String, (String, u64)> = BTreeMap::new();
		for v in &self.violations {
			let hit = known.iter().find(|k| k.status == "known" && k.property == self.property && k.class == v.class && k.what_contains.iter().all(|c| v.what.contains(c.as_str())));
			match hit {
				Some(k) => {
					let e = known_hits.entry(k.id.clone()).or_insert((k.description.clone(), 0));
					e.1 += 1;
				}
				None => unknown.push(v),
			}
		}
		if !self.cover.caps.is_empty() {
			self.exhaustive = false;
		}
		let wall = self.started.elapsed().as_secs_f64();
		let mut coverage = json!({
			"states": self.cover.states.max(1),
			"transitions": self.cover.transitions.max(1),
			"traces_validated_against_impl": self.cover.impl_runs,
			"evaluations": self.cover.evaluations,
			"distinct_nontrivial": self.cover.nontrivial.len(),
			"distinct_outcomes": self.cover.outcomes.len(),
			"rule": self.rule,
			"samples": if self.cover.samples.is_empty() { vec![json!("(no sample recorded)")] } else { self.cover.samples.clone() },
			"exhaustive": self.exhaustive,
			"caps_hit": self.cover.caps,
			"counters": self.cover.counters,
			"known_findings_reobserved": known_hits.iter().map(|(k, (d, n))| json!({"id": k, "description": d, "cases": n})).collect::<Vec<_>>(),
		});
		for (k, v) in &self.extra {
			coverage[k] = v.clone();
		}
		let ev = json!({
			"property_id": self.property,
			"tier": self.tier,
			"seed": self.seed,
			"level": self.level,
			"coverage": coverage,
			"assumptions": self.assumptions,
			"wall_s": wall,
			"violations": unknown.len(),
		});
		let dir = PathBuf::from(format!("{}/evidence", verif_root()));
		let _ = std::fs::create_dir_all(&dir);
		let path = dir.join(format!("{}.json", self.property));
		let tmp = dir.join(format!("{}.json.tmp", self.property));
		std::fs::write(&tmp, serde_json::to_string_pretty(&ev).unwrap()).expect("write evidence");
		std::fs::rename(&tmp, &path).expect("rename evidence");

		for (id, (d, n)) in &known_hits {
			println!("KNOWN-FINDING: property={} {} [{}; {} case(s) this run]", self.property, d, id, n);
		}
		println!(
			"{} tier={} states={} transitions={} executions={} distinct_nontrivial={} exhaustive={} wall={:.1}s",
			self.property,
			self.tier,
			self.cover.states,
			self.cover.transitions,
			self.cover.impl_runs,
			self.cover.nontrivial.len(),
			self.exhaustive,
			wall
		);
		if unknown.is_empty() {
			return 0;
		}
		let rdir = PathBuf::from(format!("{}/replays", verif_root()));
		let _ = std::fs::create_dir_all(&rdir);
		// group by class: one replay file per class (first = smallest case found first)
		let mut by_class: BTreeMap<&str, Vec<&Violation>> = BTreeMap::new();
		for v in &unknown {
			by_class.entry(v.class.as_str()).or_default().push(v);
		}
		for (i, (class, vs)) in by_class.iter().enumerate() {
			let file = rdir.join(format!("{}-{}.json", self.property, i));
			let body = json!({
				"property": self.property,
				"tier": self.tier,
				"class": class,
				"cases_in_class": vs.len(),
				"what": vs[0].what,
				"replay": vs[0].replay,
				"more": vs.iter().skip(1).take(20).map(|v| json!({"what": v.what, "replay": v.replay})).collect::<Vec<_>>(),
			});
			std::fs::write(&file, serde_json::to_string_pretty(&body).unwrap()).expect("write replay");
			println!("VIOLATION property={} replay={}", self.property, file.display());
			println!("  class={} cases={} first: {}", class, vs.len(), truncate(&vs[0].what, 600));
		}
		1
	}
}

pub fn truncate(s: &str, n: usize) -> String {
	if s.len() <= n {
		s.to_owned()
	} else {
		let mut e = n;
		while !s.is_char_boundary(e) {
			e -= 1;
		}
		format!("{}…", &s[..e])
	}
}

pub fn hex(b: &[u8]) -> String {
	let mut s = String::with_capacity(b.len() * 2);
	for (i, x) in b.iter().enumerate() {
		if i > 0 && b.len() <= 64 {
			s.push(' ');
		}
		s.push_str(&format!("{x:02x}"));
	}
	s
}

pub fn unhex(s: &str) -> Vec<u8> {
	let t: String = s.chars().filter(|c| c.is_ascii_hexdigit()).collect();
	(0..t.len() / 2).map(|i| u8::from_str_radix(&t[2 * i..2 * i + 2], 16).unwrap()).collect()
}
