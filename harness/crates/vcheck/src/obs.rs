//! `Obs`: an *observation* of what a deserializer delivers. A `Hint` tree decides which
//! `deserialize_*` method is requested at each node; the visitor records exactly which
//! `visit_*` was called with what.

use serde::de::{DeserializeSeed, Deserializer, EnumAccess, Error as _, IgnoredAny, MapAccess, SeqAccess, VariantAccess, Visitor};
use std::cell::Cell;

#[derive(Clone, Debug, PartialEq, Eq, Hash)]
pub enum O {
	Unit,
	Ignored,
	Bool(bool),
	I8(i8),
	I16(i16),
	I32(i32),
	I64(i64),
	I128(i128),
	U8(u8),
	U16(u16),
	U32(u32),
	U64(u64),
	U128(u128),
	/// bits
	F32(u32),
	/// bits
	F64(u64),
	Char(char),
	/// value, delivered as borrowed from the input
	Str(String, bool),
	Bytes(Vec<u8>, bool),
	None,
	Some(Box<O>),
	Newtype(Box<O>),
	Seq(Vec<O>),
	Map(Vec<(O, O)>),
	/// variant identifier as observed, payload (`Unit` for unit variants)
	Enum(Box<O>, Box<O>),
}

impl O {
	pub fn str(s: &str) -> O {
		O::Str(s.to_owned(), false)
	}
	/// erase the borrowed flags (for comparisons across input paths)
	pub fn unborrowed(&self) -> O {
		match self {
			O::Str(s, _) => O::Str(s.clone(), false),
			O::Bytes(b, _) => O::Bytes(b.clone(), false),
			O::Some(o) => O::Some(Box::new(o.unborrowed())),
			O::Newtype(o) => O::Newtype(Box::new(o.unborrowed())),
			O::Seq(v) => O::Seq(v.iter().map(|o| o.unborrowed()).collect()),
			O::Map(v) => O::Map(v.iter().map(|(k, o)| (k.unborrowed(), o.unborrowed())).collect()),
			O::Enum(a, b) => O::Enum(Box::new(a.unborrowed()), Box::new(b.unborrowed())),
			o => o.clone(),
		}
	}
}

#[derive(Clone, Debug, PartialEq)]
pub enum VHint {
	Unit,
	Newtype(Hint),
	Tuple(usize, Hint),
	Struct(Vec<(&'static str, Hint)>),
}

#[derive(Clone, Debug, PartialEq)]
pub enum Hint {
	Any,
	Ignored,
	Bool,
	I8,
	I16,
	I32,
	I64,
	I128,
	U8,
	U16,
	U32,
	U64,
	U128,
	F32,
	F64,
	Char,
	Str,
	String,
	Bytes,
	ByteBuf,
	Unit,
	UnitStruct(&'static str),
	Identifier,
	Option(Box<Hint>),
	NewtypeStruct(&'static str, Box<Hint>),
	Seq(Box<Hint>),
	Tuple(usize, Box<Hint>),
	TupleStruct(&'static str, usize, Box<Hint>),
	Map(Box<Hint>, Box<Hint>),
	/// unknown fields are skipped with `IgnoredAny`
	Struct(&'static str, Vec<(&'static str, Hint)>),
	Enum(&'static str, Vec<(&'static str, VHint)>),
}

thread_local! {
	static INPUT: Cell<(usize, usize)> = const { Cell::new((0, 0)) };
	static BORROW_OUTSIDE: Cell<bool> = const { Cell::new(false) };
}

/// Declare the input buffer, so that borrowed deliveries can be checked to point inside it.
pub fn set_input_range(buf: &[u8]) {
	INPUT.with(|c| c.set((buf.as_ptr() as usize, buf.as_ptr() as usize + buf.len())));
	BORROW_OUTSIDE.with(|c| c.set(false));
}
pub fn clear_input_range() {
	INPUT.with(|c| c.set((0, 0)));
}
pub fn borrowed_outside_input() -> bool {
	BORROW_OUTSIDE.with(|c| c.get())
}
fn check_inside(p: *const u8, len: usize) {
	let (lo, hi) = INPUT.with(|c| c.get());
	if lo == 0 && hi == 0 {
		return;
	}
	let a = p as usize;
	if len > 0 && !(a >= lo && a + len <= hi) {
		BORROW_OUTSIDE.with(|c| c.set(true));
	}
}

fn leak_names(v: &[&'static str]) -> &'static [&'static str] {
	use std::collections::HashMap;
	use std::sync::Mutex;
	static TABLE: Mutex<Option<HashMap<Vec<&'static str>, &'static [&'static str]>>> = Mutex::new(None);
	let mut g = TABLE.lock().unwrap();
	let t = g.get_or_insert_with(HashMap::new);
	if let Some(x) = t.get(v) {
		return x;
	}
	let leaked: &'static [&'static str] = Box::leak(v.to_vec().into_boxed_slice());
	t.insert(v.to_vec(), leaked);
	leaked
}

pub struct ObsSeed<'h>(pub &'h Hint);

impl<'de, 'h> DeserializeSeed<'de> for ObsSeed<'h> {
	type Value = O;
	fn deserialize<D: Deserializer<'de>>(self, d: D) -> Result<O, D::Error> {
		let v = V(self.0);
		match self.0 {
			Hint::Any => d.deserialize_any(v),
			Hint::Ignored => {
				<IgnoredAny as serde::Deserialize>::deserialize(d)?;
				Ok(O::Ignored)
			}
			Hint::Bool => d.deserialize_bool(v),
			Hint::I8 => d.deserialize_i8(v),
			Hint::I16 => d.deserialize_i16(v),
			Hint::I32 => d.deserialize_i32(v),
			Hint::I64 => d.deserialize_i64(v),
			Hint::I128 => d.deserialize_i128(v),
			Hint::U8 => d.deserialize_u8(v),
			Hint::U16 => d.deserialize_u16(v),
			Hint::U32 => d.deserialize_u32(v),
			Hint::U64 => d.deserialize_u64(v),
			Hint::U128 => d.deserialize_u128(v),
			Hint::F32 => d.deserialize_f32(v),
			Hint::F64 => d.deserialize_f64(v),
			Hint::Char => d.deserialize_char(v),
			Hint::Str => d.deserialize_str(v),
			Hint::String => d.deserialize_string(v),
			Hint::Bytes => d.deserialize_bytes(v),
			Hint::ByteBuf => d.deserialize_byte_buf(v),
			Hint::Unit => d.deserialize_unit(v),
			Hint::UnitStruct(n) => d.deserialize_unit_struct(n, v),
			Hint::Identifier => d.deserialize_identifier(v),
			Hint::Option(_) => d.deserialize_option(v),
			Hint::NewtypeStruct(n, _) => d.deserialize_newtype_struct(n, v),
			Hint::Seq(_) => d.deserialize_seq(v),
			Hint::Tuple(n, _) => d.deserialize_tuple(*n, v),
			Hint::TupleStruct(name, n, _) => d.deserialize_tuple_struct(name, *n, v),
			Hint::Map(..) => d.deserialize_map(v),
			Hint::Struct(name, fields) => {
				let names: Vec<&'static str> = fields.iter().map(|f| f.0).collect();
				d.deserialize_struct(name, leak_names(&names), v)
			}
			Hint::Enum(name, variants) => {
				let names: Vec<&'static str> = variants.iter().map(|f| f.0).collect();
				d.deserialize_enum(name, leak_names(&names), v)
			}
		}
	}
}

struct V<'h>(&'h Hint);

static ANY: Hint = Hint::Any;

impl<'h> V<'h> {
	fn elem(&self) -> &'h Hint {
		match self.0 {
			Hint::Seq(h) | Hint::Tuple(_, h) | Hint::TupleStruct(_, _, h) | Hint::Option(h) | Hint::NewtypeStruct(_, h) => h,
			_ => &ANY,
		}
	}
}

impl<'de, 'h> Visitor<'de> for V<'h> {
	type Value = O;
	fn expecting(&self, f: &mut std::fmt::Formatter) -> std::fmt::Result {
		write!(f, "anything (observation visitor, hint {:?})", self.0)
	}
	fn visit_bool<E>(self, v: bool) -> Result<O, E> {
		Ok(O::Bool(v))
	}
	fn visit_i8<E>(self, v: i8) -> Result<O, E> {
		Ok(O::I8(v))
	}
	fn visit_i16<E>(self, v: i16) -> Result<O, E> {
		Ok(O::I16(v))
	}
	fn visit_i32<E>(self, v: i32) -> Result<O, E> {
		Ok(O::I32(v))
	}
	fn visit_i64<E>(self, v: i64) -> Result<O, E> {
		Ok(O::I64(v))
	}
	fn visit_i128<E>(self, v: i128) -> Result<O, E> {
		Ok(O::I128(v))
	}
	fn visit_u8<E>(self, v: u8) -> Result<O, E> {
		Ok(O::U8(v))
	}
	fn visit_u16<E>(self, v: u16) -> Result<O, E> {
		Ok(O::U16(v))
	}
	fn visit_u32<E>(self, v: u32) -> Result<O, E> {
		Ok(O::U32(v))
	}
	fn visit_u64<E>(self, v: u64) -> Result<O, E> {
		Ok(O::U64(v))
	}
	fn visit_u128<E>(self, v: u128) -> Result<O, E> {
		Ok(O::U128(v))
	}
	fn visit_f32<E>(self, v: f32) -> Result<O, E> {
		Ok(O::F32(v.to_bits()))
	}
	fn visit_f64<E>(self, v: f64) -> Result<O, E> {
		Ok(O::F64(v.to_bits()))
	}
	fn visit_char<E>(self, v: char) -> Result<O, E> {
		Ok(O::Char(v))
	}
	fn visit_str<E>(self, v: &str) -> Result<O, E> {
		Ok(O::Str(v.to_owned(), false))
	}
	fn visit_borrowed_str<E>(self, v: &'de str) -> Result<O, E> {
		check_inside(v.as_ptr(), v.len());
		Ok(O::Str(v.to_owned(), true))
	}
	fn visit_string<E>(self, v: String) -> Result<O, E> {
		Ok(O::Str(v, false))
	}
	fn visit_bytes<E>(self, v: &[u8]) -> Result<O, E> {
		Ok(O::Bytes(v.to_vec(), false))
	}
	fn visit_borrowed_bytes<E>(self, v: &'de [u8]) -> Result<O, E> {
		check_inside(v.as_ptr(), v.len());
		Ok(O::Bytes(v.to_vec(), true))
	}
	fn visit_byte_buf<E>(self, v: Vec<u8>) -> Result<O, E> {
		Ok(O::Bytes(v, false))
	}
	fn visit_none<E>(self) -> Result<O, E> {
		Ok(O::None)
	}
	fn visit_some<D: Deserializer<'de>>(self, d: D) -> Result<O, D::Error> {
		Ok(O::Some(Box::new(ObsSeed(self.elem()).deserialize(d)?)))
	}
	fn visit_unit<E>(self) -> Result<O, E> {
		Ok(O::Unit)
	}
	fn visit_newtype_struct<D: Deserializer<'de>>(self, d: D) -> Result<O, D::Error> {
		Ok(O::Newtype(Box::new(ObsSeed(self.elem()).deserialize(d)?)))
	}
	fn visit_seq<A: SeqAccess<'de>>(self, mut a: A) -> Result<O, A::Error> {
		let h = self.elem();
		let mut out = Vec::new();
		while let Some(e) = a.next_element_seed(ObsSeed(h))? {
			out.push(e);
			if out.len() > 1_000_000 {
				return Err(A::Error::custom("observation visitor: more than 1e6 elements"));
			}
		}
		Ok(O::Seq(out))
	}
	fn visit_map<A: MapAccess<'de>>(self, mut a: A) -> Result<O, A::Error> {
		let mut out = Vec::new();
		match self.0 {
			Hint::Struct(_, fields) => {
				while let Some(k) = a.next_key_seed(ObsSeed(&Hint::Identifier))? {
					// like the field visitor of a derived struct: an identifier may arrive as a string or as
					// bytes; whatever matches no field is an unknown field, whose value is skipped
					let found = match &k {
						O::Str(s, _) => fields.iter().find(|f| f.0 == s.as_str()),
						O::Bytes(b, _) => fields.iter().find(|f| f.0.as_bytes() == &b[..]),
						other => return Err(A::Error::custom(format!("struct key observed as {other:?}"))),
					};
					match found {
						Some((_, h)) => {
							let v = a.next_value_seed(ObsSeed(h))?;
							out.push((k, v));
						}
						None => {
							a.next_value::<IgnoredAny>()?;
						}
					}
				}
			}
			_ => {
				let (kh, vh) = match self.0 {
					Hint::Map(k, v) => (&**k, &**v),
					_ => (&ANY, &ANY),
				};
				while let Some(k) = a.next_key_seed(ObsSeed(kh))? {
					let v = a.next_value_seed(ObsSeed(vh))?;
					out.push((k, v));
					if out.len() > 1_000_000 {
						return Err(A::Error::custom("observation visitor: more than 1e6 entries"));
					}
				}
			}
		}
		Ok(O::Map(out))
	}
	fn visit_enum<A: EnumAccess<'de>>(self, a: A) -> Result<O, A::Error> {
		let variants = match self.0 {
			Hint::Enum(_, v) => v,
			_ => return Err(A::Error::custom("visit_enum without enum hint")),
		};
		let (id, va) = a.variant_seed(ObsSeed(&Hint::Identifier))?;
		let vh = match &id {
			O::Str(s, _) => variants.iter().find(|v| v.0 == s.as_str()).map(|v| &v.1),
			O::U64(i) => variants.get(*i as usize).map(|v| &v.1),
			O::Bytes(b, _) => variants.iter().find(|v| v.0.as_bytes() == &b[..]).map(|v| &v.1),
			_ => None,
		};
		let Some(vh) = vh else {
			return Err(A::Error::custom(format!("unknown variant {id:?}")));
		};
		let payload = match vh {
			VHint::Unit => {
				va.unit_variant()?;
				O::Unit
			}
			VHint::Newtype(h) => va.newtype_variant_seed(ObsSeed(h))?,
			VHint::Tuple(n, h) => {
				let hh = Hint::Tuple(*n, Box::new(h.clone()));
				va.tuple_variant(*n, V(&hh))?
			}
			VHint::Struct(fields) => {
				let names: Vec<&'static str> = fields.iter().map(|f| f.0).collect();
				let hh = Hint::Struct("variant", fields.clone());
				va.struct_variant(leak_names(&names), V(&hh))?
			}
		};
		Ok(O::Enum(Box::new(id), Box::new(payload)))
	}
}
