//! Two threads using ONE schema: all merges of two short programs executed on real `std::thread`s
//! handing a baton (so that the merge is the schedule), and the same pair of bodies free-running with
//! no synchronisation between them (for the data-race detector: with only spawn/join edges the
//! happens-before relation is the same in every schedule, so one run decides race-freedom of the pair).
//! Every result is compared with the result of the same operation executed alone on a fresh schema.

use crate::fixtures::{self, Fixtures, Rec, RecO};
use serde_avro_fast::ser::SerializerConfig;
use serde_avro_fast::Schema;
use std::sync::{Arc, Condvar, Mutex};

#[derive(Clone, Copy, Debug, PartialEq, Eq, Hash, PartialOrd, Ord)]
pub enum TOp {
	/// serialise value 0 with the thread's long-lived SerializerConfig
	Ser0,
	/// serialise value 2 (fails on the enum symbol after the first field was written)
	Ser2,
	/// from_datum_slice into the borrowing `Rec<'_>`
	DeCow,
	/// from_datum_reader into `RecO`
	DeOwned,
	/// Debug-format the schema
	Dbg,
	/// json() and rabin_fingerprint()
	Fp,
}
impl TOp {
	/// (`Ser2` can be named in a replay but is not enumerated.)
	pub const ALL: [TOp; 5] = [TOp::Ser0, TOp::DeCow, TOp::DeOwned, TOp::Dbg, TOp::Fp];
	pub const PARSEABLE: [TOp; 6] = [TOp::Ser0, TOp::Ser2, TOp::DeCow, TOp::DeOwned, TOp::Dbg, TOp::Fp];
	pub fn letter(self) -> char {
		match self {
			TOp::Ser0 => 's',
			TOp::Ser2 => 'e',
			TOp::DeCow => 'c',
			TOp::DeOwned => 'o',
			TOp::Dbg => 'g',
			TOp::Fp => 'f',
		}
	}
	pub fn from_letter(c: char) -> Option<TOp> {
		TOp::PARSEABLE.iter().copied().find(|t| t.letter() == c)
	}
}

pub fn program_token(p: &[TOp]) -> String {
	p.iter().map(|t| t.letter()).collect()
}
pub fn parse_program(s: &str) -> Option<Vec<TOp>> {
	s.chars().map(TOp::from_letter).collect()
}

/// All programs of length 1..=max_len, shortest first.
pub fn programs(max_len: usize) -> Vec<Vec<TOp>> {
	let mut out: Vec<Vec<TOp>> = Vec::new();
	let mut level: Vec<Vec<TOp>> = vec![Vec::new()];
	for _ in 0..max_len {
		let mut next = Vec::new();
		for p in &level {
			for t in TOp::ALL {
				let mut q = p.clone();
				q.push(t);
				out.push(q.clone());
				next.push(q);
			}
		}
		level = next;
	}
	out
}

/// All merges (interleavings) of a program of n operations (thread 0) and one of m (thread 1).
pub fn merges(n: usize, m: usize) -> Vec<Vec<u8>> {
	fn rec(n: usize, m: usize, cur: &mut Vec<u8>, out: &mut Vec<Vec<u8>>) {
		if n == 0 && m == 0 {
			out.push(cur.clone());
			return;
		}
		if n > 0 {
			cur.push(0);
			rec(n - 1, m, cur, out);
			cur.pop();
		}
		if m > 0 {
			cur.push(1);
			rec(n, m - 1, cur, out);
			cur.pop();
		}
	}
	let mut out = Vec::new();
	rec(n, m, &mut Vec::new(), &mut out);
	out
}
pub fn schedule_token(s: &[u8]) -> String {
	s.iter().map(|b| if *b == 0 { '0' } else { '1' }).collect()
}
pub fn parse_schedule(s: &str) -> Option<Vec<u8>> {
	s.chars()
		.map(|c| match c {
			'0' => Some(0),
			'1' => Some(1),
			_ => None,
		})
		.collect()
}

pub fn run_top(schema: &Schema, cfg: &mut SerializerConfig<'_>, datum: &[u8], op: TOp) -> String {
	let r = std::panic::catch_unwind(std::panic::AssertUnwindSafe(|| match op {
		TOp::Ser0 | TOp::Ser2 => {
			let v = fixtures::value(if op == TOp::Ser0 { 0 } else { 2 });
			match serde_avro_fast::to_datum_vec(&v, cfg) {
				Ok(b) => format!("ok:{}", fixtures::hex(&b)),
				Err(_) => "err".to_owned(),
			}
		}
		TOp::DeCow => {
			let local: Vec<u8> = datum.to_vec();
			let r = match serde_avro_fast::from_datum_slice::<Rec<'_>>(&local, schema) {
				Ok(v) => format!("ok:{v:?}"),
				Err(_) => "err".to_owned(),
			};
			r
		}
		TOp::DeOwned => match serde_avro_fast::from_datum_reader::<_, RecO>(datum, schema) {
			Ok(v) => format!("ok:{v:?}"),
			Err(_) => "err".to_owned(),
		},
		TOp::Dbg => format!("{schema:?}"),
		TOp::Fp => format!("{}:{}", fixtures::hex(schema.rabin_fingerprint()), schema.json()),
	}));
	r.unwrap_or_else(|_| "panic".to_owned())
}

/// Result of every operation executed alone, sequentially, on a fresh schema.
pub fn sequential_reference(schema: &Schema, datum: &[u8]) -> Vec<(TOp, String)> {
	TOp::PARSEABLE
		.iter()
		.map(|t| {
			let mut cfg = SerializerConfig::new(schema);
			(*t, run_top(schema, &mut cfg, datum, *t))
		})
		.collect()
}

struct Baton {
	turn: Mutex<usize>,
	cv: Condvar,
}

fn body(tid: u8, prog: &[TOp], sched: Option<(&[u8], &Baton)>, schema: &Schema, datum: &[u8]) -> Vec<String> {
	let mut cfg = SerializerConfig::new(schema);
	let mut out = Vec::with_capacity(prog.len());
	for op in prog {
		if let Some((s, b)) = sched {
			let mut g = b.turn.lock().unwrap();
			while *g < s.len() && s[*g] != tid {
				g = b.cv.wait(g).unwrap();
			}
			drop(g);
		}
		out.push(run_top(schema, &mut cfg, datum, *op));
		if let Some((_, b)) = sched {
			let mut g = b.turn.lock().unwrap();
			*g += 1;
			b.cv.notify_all();
		}
	}
	out
}

#[derive(Clone, Copy, Debug, PartialEq, Eq)]
pub enum Share {
	/// scoped threads borrowing `&Schema` from the spawning thread
	Ref,
	/// each thread owns an `Arc<Schema>` clone; the spawning thread drops its handle before joining, so
	/// the schema is freed by whichever thread finishes last
	Arc,
}
impl Share {
	pub fn letter(self) -> char {
		match self {
			Share::Ref => 'r',
			Share::Arc => 'a',
		}
	}
	pub fn from_letter(c: char) -> Option<Share> {
		match c {
			'r' => Some(Share::Ref),
			'a' => Some(Share::Arc),
			_ => None,
		}
	}
}

/// Run two programs on two threads over `schema`. `schedule = None` is the free-running mode.
pub fn run_pair_ref(schema: &Schema, fx: &Fixtures, p: &[TOp], q: &[TOp], schedule: Option<&[u8]>) -> (Vec<String>, Vec<String>) {
	let baton = Baton { turn: Mutex::new(0), cv: Condvar::new() };
	let datum: &[u8] = &fx.datum;
	std::thread::scope(|sc| {
		let b = &baton;
		let h0 = sc.spawn(move || body(0, p, schedule.map(|s| (s, b)), schema, datum));
		let h1 = sc.spawn(move || body(1, q, schedule.map(|s| (s, b)), schema, datum));
		(h0.join().unwrap(), h1.join().unwrap())
	})
}

pub fn run_pair_arc(schema: Schema, fx: &Fixtures, p: &[TOp], q: &[TOp], schedule: Option<&[u8]>) -> (Vec<String>, Vec<String>) {
	let baton = Arc::new(Baton { turn: Mutex::new(0), cv: Condvar::new() });
	let datum: Arc<Vec<u8>> = Arc::new(fx.datum.clone());
	let schedule: Option<Arc<Vec<u8>>> = schedule.map(|s| Arc::new(s.to_vec()));
	let owner = Arc::new(schema);
	let spawn = |tid: u8, prog: Vec<TOp>| {
		let (a, b, d, s) = (owner.clone(), baton.clone(), datum.clone(), schedule.clone());
		std::thread::spawn(move || {
			let r = body(tid, &prog, s.as_ref().map(|s| (s.as_slice(), &*b)), &a, &d);
			drop(a);
			r
		})
	};
	let h0 = spawn(0, p.to_vec());
	let h1 = spawn(1, q.to_vec());
	drop(owner);
	(h0.join().unwrap(), h1.join().unwrap())
}

/// Compare the results of a pair run with the sequential reference. Returns the first difference.
pub fn compare(reference: &[(TOp, String)], p: &[TOp], q: &[TOp], got: &(Vec<String>, Vec<String>)) -> Option<String> {
	for (tid, (prog, res)) in [(p, &got.0), (q, &got.1)].iter().enumerate() {
		for (i, (op, r)) in prog.iter().zip(res.iter()).enumerate() {
			let want = &reference.iter().find(|(t, _)| t == op).unwrap().1;
			if r != want {
				return Some(format!("thread {tid} operation #{i} {op:?}: got {r}, sequential run gives {want}"));
			}
		}
		if prog.len() != res.len() {
			return Some(format!("thread {tid}: {} results for {} operations", res.len(), prog.len()));
		}
	}
	None
}
