fn main() {
	let args: Vec<String> = std::env::args().skip(1).collect();
	std::process::exit(vmiri::cli::cli_main(&args));
}
