//! Schemas, graphs, values, target types and container files used by the C10 history interpreter.
//!
//! Everything here is deterministic. Container files and datum bytes are produced by the real crate
//! in a NATIVE process (`Fixtures::generate`) and handed to the Miri / ASan / valgrind processes as
//! hex lines, so that every detector executes exactly the same inputs (and Miri does not spend its
//! budget compressing).

use serde::de::{self, DeserializeSeed, MapAccess, SeqAccess, Visitor};
use serde::{Deserialize, Serialize};
use serde_avro_fast::schema::{
	Array, Enum, Map, Name, Record, RecordField, RegularType, SchemaKey, SchemaMut, SchemaNode, Union,
};
use std::borrow::Cow;
use std::fmt::Write as _;

/// The one schema of the pool: recursive record (cyclic node graph) with a string, an enum, an array
/// and a union - every `NodeRef`-bearing node kind except map (which the bad graphs add).
pub const SCHEMA_TEXT: &str = r#"{"type":"record","name":"R","fields":[{"name":"b","type":"string"},{"name":"e","type":{"type":"enum","name":"E","symbols":["X","Y"]}},{"name":"l","type":{"type":"array","items":"int"}},{"name":"u","type":["null","R"]}]}"#;

pub const SYNC: [u8; 16] = [0x51, 0x52, 0x53, 0x54, 0x55, 0x56, 0x57, 0x58, 0x59, 0x5a, 0x5b, 0x5c, 0x5d, 0x5e, 0x5f, 0x60];

/// Number of nodes of the good graph.
pub const N_GOOD: usize = 7;

/// Kinds of node carrying the dangling key in a bad graph (one per `key_to_ref(..)?` site of freeze).
pub const BAD_KINDS: [char; 4] = ['A', 'M', 'U', 'R'];

fn key(i: usize) -> SchemaKey {
	SchemaKey::from_idx(i)
}

/// The good graph, same schema as `SCHEMA_TEXT`, with every key passed through `f`.
fn good_nodes(f: &dyn Fn(usize) -> usize) -> Vec<SchemaNode> {
	let k = |i: usize| key(f(i));
	vec![
		SchemaNode::new(RegularType::Record(Record::new(
			Name::from_fully_qualified_name("R"),
			vec![RecordField::new("b", k(1)), RecordField::new("e", k(2)), RecordField::new("l", k(3)), RecordField::new("u", k(5))],
		))),
		SchemaNode::new(RegularType::String),
		SchemaNode::new(RegularType::Enum(Enum::new(Name::from_fully_qualified_name("E"), vec!["X".to_owned(), "Y".to_owned()]))),
		SchemaNode::new(RegularType::Array(Array::new(k(4)))),
		SchemaNode::new(RegularType::Int),
		SchemaNode::new(RegularType::Union(Union::new(vec![k(6), k(0)]))),
		SchemaNode::new(RegularType::Null),
	]
}

pub const DANGLING: usize = 1000;

/// A node that is not reachable from the root and holds a key pointing outside the graph.
/// `valid` is a key of the graph that is in range (so that partially built vectors exist when the
/// error return is taken).
fn dangling_node(kind: char, valid: usize) -> SchemaNode {
	match kind {
		'A' => SchemaNode::new(RegularType::Array(Array::new(key(DANGLING)))),
		'M' => SchemaNode::new(RegularType::Map(Map::new(key(DANGLING)))),
		'U' => SchemaNode::new(RegularType::Union(Union::new(vec![key(valid), key(DANGLING)]))),
		'R' => SchemaNode::new(RegularType::Record(Record::new(
			Name::from_fully_qualified_name("Unreach"),
			vec![RecordField::new("ok", key(valid)), RecordField::new("dangling", key(DANGLING))],
		))),
		_ => unreachable!(),
	}
}

/// Number of bad graphs: kinds x positions 1..=N_GOOD, plus the empty graph (last).
pub const N_BAD: usize = BAD_KINDS.len() * N_GOOD + 1;

pub fn describe_bad(g: usize) -> String {
	if g == N_BAD - 1 {
		return "empty graph".to_owned();
	}
	let kind = BAD_KINDS[g / N_GOOD];
	let pos = 1 + g % N_GOOD;
	format!("good graph of {N_GOOD} nodes + unreachable node of kind {kind} with key {DANGLING} inserted at position {pos}")
}

/// Bad graph number `g` (0-based).
pub fn bad_graph(g: usize) -> SchemaMut {
	assert!(g < N_BAD);
	if g == N_BAD - 1 {
		return SchemaMut::from_nodes(Vec::new());
	}
	let kind = BAD_KINDS[g / N_GOOD];
	let pos = 1 + g % N_GOOD;
	let shift = move |i: usize| if i >= pos { i + 1 } else { i };
	let mut nodes = good_nodes(&shift);
	// the valid key of the dangling node: the `int` node (wherever it ended up)
	nodes.insert(pos, dangling_node(kind, shift(4)));
	SchemaMut::from_nodes(nodes)
}

pub fn good_graph() -> SchemaMut {
	SchemaMut::from_nodes(good_nodes(&|i| i))
}

/// Edits of a live `SchemaMut` (through `nodes_mut()`). Returns false when the edit does not apply to
/// the graph (no root record). No edit can create a cycle of unnamed nodes (defect D5 belongs to C19).
pub fn edit(m: &mut SchemaMut, e: u8) -> bool {
	let nodes = m.nodes_mut();
	match e {
		// two nodes that are unreachable from the root, the first holding a valid key to the second
		// (on an emptied graph they become the schema map<int>)
		0 => {
			let n = nodes.len();
			nodes.push(SchemaNode::new(RegularType::Map(Map::new(key(n + 1)))));
			nodes.push(SchemaNode::new(RegularType::Int));
			true
		}
		// a node with a dangling key, appended: unreachable, so freeze fails with the node vector half
		// written (on an emptied graph it becomes the root: rejected before the vector is allocated)
		1 => {
			nodes.push(dangling_node('A', 0));
			true
		}
		// retarget: field 0 of the root record now points at a new string node (same meaning, other graph)
		2 => {
			let n = nodes.len();
			match nodes.first_mut().map(|r| &mut r.type_) {
				Some(RegularType::Record(r)) if !r.fields.is_empty() => {
					r.fields[0].type_ = key(n);
					nodes.push(SchemaNode::new(RegularType::String));
					true
				}
				_ => false,
			}
		}
		// retarget to a dangling key in a REACHABLE node: rejected before the node vector is allocated
		3 => match nodes.first_mut().map(|r| &mut r.type_) {
			Some(RegularType::Record(r)) if !r.fields.is_empty() => {
				r.fields[0].type_ = key(DANGLING);
				true
			}
			_ => false,
		},
		// remove every node
		4 => {
			nodes.clear();
			true
		}
		_ => unreachable!(),
	}
}
pub const N_EDITS: u8 = 5;

/// What the generator knows about a live `SchemaMut` (by construction of the graphs and edits, not by
/// modelling the crate): enough to tell whether `freeze` is on its Ok or on its Err path.
#[derive(Clone, Copy, Debug, PartialEq, Eq, Hash)]
pub struct MState {
	pub empty: bool,
	pub root_record: bool,
	pub dangling_pushed: bool,
	pub field0_dangling: bool,
}
impl MState {
	pub fn fresh() -> MState {
		MState { empty: false, root_record: true, dangling_pushed: false, field0_dangling: false }
	}
	pub fn freezable(&self) -> bool {
		!self.empty && !self.dangling_pushed && !self.field0_dangling
	}
	pub fn edit(&mut self, e: u8) {
		match e {
			0 => self.empty = false,
			1 => {
				self.empty = false;
				self.dangling_pushed = true;
			}
			2 => {
				if self.root_record {
					self.field0_dangling = false;
				}
			}
			3 => {
				if self.root_record {
					self.field0_dangling = true;
				}
			}
			4 => *self = MState { empty: true, root_record: false, dangling_pushed: false, field0_dangling: false },
			_ => unreachable!(),
		}
	}
}

// ---------------------------------------------------------------------------------------------
// values

#[derive(Serialize, Deserialize, Debug, PartialEq, Clone)]
pub struct Rec<'a> {
	#[serde(borrow)]
	pub b: Cow<'a, str>,
	#[serde(borrow)]
	pub e: Cow<'a, str>,
	pub l: Vec<i32>,
	#[serde(borrow)]
	pub u: Option<Box<Rec<'a>>>,
}

#[derive(Serialize, Deserialize, Debug, PartialEq, Clone, Copy)]
pub enum Sym {
	X,
	Y,
}

/// Strictly borrowing target: only deserialisable when the input can be borrowed.
#[derive(Deserialize, Debug, PartialEq, Clone)]
pub struct RecRef<'a> {
	pub b: &'a str,
	pub e: Sym,
	pub l: Vec<i32>,
	#[serde(borrow)]
	pub u: Option<Box<RecRef<'a>>>,
}

#[derive(Deserialize, Debug, PartialEq, Clone)]
pub struct RecO {
	pub b: String,
	pub e: Sym,
	pub l: Vec<i32>,
	pub u: Option<Box<RecO>>,
}

/// Target that fails in the middle of the record (after `b` and the enum discriminant were consumed).
#[derive(Deserialize, Debug, PartialEq, Clone)]
pub struct Bad {
	pub b: String,
	pub e: i64,
}

pub fn value(v: u8) -> Rec<'static> {
	match v {
		0 => Rec {
			b: Cow::Borrowed("hello"),
			e: Cow::Borrowed("Y"),
			l: vec![1, -2],
			u: Some(Box::new(Rec { b: Cow::Borrowed("in"), e: Cow::Borrowed("X"), l: vec![], u: None })),
		},
		1 => Rec { b: Cow::Borrowed(""), e: Cow::Borrowed("X"), l: vec![7], u: None },
		// unknown enum symbol: serialisation fails after `b` was written
		2 => Rec { b: Cow::Borrowed("bad"), e: Cow::Borrowed("Z"), l: vec![], u: None },
		_ => unreachable!(),
	}
}

/// Observation through `deserialize_any`: records field names, enum symbols, strings and bytes with
/// their borrowed-ness.
#[derive(Debug, PartialEq, Clone)]
pub enum Obs<'a> {
	Unit,
	Bool(bool),
	I(i64),
	U(u64),
	F(u64),
	Str(Cow<'a, str>),
	Bytes(Cow<'a, [u8]>),
	Seq(Vec<Obs<'a>>),
	Map(Vec<(Obs<'a>, Obs<'a>)>),
	Some(Box<Obs<'a>>),
}

struct ObsVisitor;
struct ObsSeed;
impl<'de> DeserializeSeed<'de> for ObsSeed {
	type Value = Obs<'de>;
	fn deserialize<D: de::Deserializer<'de>>(self, d: D) -> Result<Obs<'de>, D::Error> {
		d.deserialize_any(ObsVisitor)
	}
}
impl<'de> Deserialize<'de> for Obs<'de> {
	fn deserialize<D: de::Deserializer<'de>>(d: D) -> Result<Self, D::Error> {
		d.deserialize_any(ObsVisitor)
	}
}
impl<'de> Visitor<'de> for ObsVisitor {
	type Value = Obs<'de>;
	fn expecting(&self, f: &mut std::fmt::Formatter) -> std::fmt::Result {
		f.write_str("anything")
	}
	fn visit_bool<E>(self, v: bool) -> Result<Obs<'de>, E> {
		Ok(Obs::Bool(v))
	}
	fn visit_i64<E>(self, v: i64) -> Result<Obs<'de>, E> {
		Ok(Obs::I(v))
	}
	fn visit_u64<E>(self, v: u64) -> Result<Obs<'de>, E> {
		Ok(Obs::U(v))
	}
	fn visit_f64<E>(self, v: f64) -> Result<Obs<'de>, E> {
		Ok(Obs::F(v.to_bits()))
	}
	fn visit_str<E>(self, v: &str) -> Result<Obs<'de>, E> {
		Ok(Obs::Str(Cow::Owned(v.to_owned())))
	}
	fn visit_borrowed_str<E>(self, v: &'de str) -> Result<Obs<'de>, E> {
		Ok(Obs::Str(Cow::Borrowed(v)))
	}
	fn visit_bytes<E>(self, v: &[u8]) -> Result<Obs<'de>, E> {
		Ok(Obs::Bytes(Cow::Owned(v.to_owned())))
	}
	fn visit_borrowed_bytes<E>(self, v: &'de [u8]) -> Result<Obs<'de>, E> {
		Ok(Obs::Bytes(Cow::Borrowed(v)))
	}
	fn visit_unit<E>(self) -> Result<Obs<'de>, E> {
		Ok(Obs::Unit)
	}
	fn visit_none<E>(self) -> Result<Obs<'de>, E> {
		Ok(Obs::Unit)
	}
	fn visit_some<D: de::Deserializer<'de>>(self, d: D) -> Result<Obs<'de>, D::Error> {
		Ok(Obs::Some(Box::new(d.deserialize_any(ObsVisitor)?)))
	}
	fn visit_seq<A: SeqAccess<'de>>(self, mut a: A) -> Result<Obs<'de>, A::Error> {
		let mut v = Vec::new();
		while let Some(x) = a.next_element_seed(ObsSeed)? {
			v.push(x);
		}
		Ok(Obs::Seq(v))
	}
	fn visit_map<A: MapAccess<'de>>(self, mut a: A) -> Result<Obs<'de>, A::Error> {
		let mut v = Vec::new();
		while let Some(k) = a.next_key_seed(ObsSeed)? {
			let x = a.next_value_seed(ObsSeed)?;
			v.push((k, x));
		}
		Ok(Obs::Map(v))
	}
}

/// Address ranges of every borrowed str / bytes inside a value.
pub trait Borrows {
	fn borrows(&self, out: &mut Vec<(usize, usize)>);
}
fn cow_str(c: &Cow<'_, str>, out: &mut Vec<(usize, usize)>) {
	if let Cow::Borrowed(s) = c {
		out.push((s.as_ptr() as usize, s.len()));
	}
}
impl Borrows for Rec<'_> {
	fn borrows(&self, out: &mut Vec<(usize, usize)>) {
		cow_str(&self.b, out);
		cow_str(&self.e, out);
		if let Some(u) = &self.u {
			u.borrows(out);
		}
	}
}
impl Borrows for RecRef<'_> {
	fn borrows(&self, out: &mut Vec<(usize, usize)>) {
		out.push((self.b.as_ptr() as usize, self.b.len()));
		if let Some(u) = &self.u {
			u.borrows(out);
		}
	}
}
impl Borrows for Obs<'_> {
	fn borrows(&self, out: &mut Vec<(usize, usize)>) {
		match self {
			Obs::Str(c) => cow_str(c, out),
			Obs::Bytes(Cow::Borrowed(b)) => out.push((b.as_ptr() as usize, b.len())),
			Obs::Seq(v) => v.iter().for_each(|x| x.borrows(out)),
			Obs::Map(v) => v.iter().for_each(|(k, x)| {
				k.borrows(out);
				x.borrows(out)
			}),
			Obs::Some(x) => x.borrows(out),
			_ => {}
		}
	}
}

// ---------------------------------------------------------------------------------------------
// codecs and container files

#[derive(Clone, Copy, Debug, PartialEq, Eq, Hash, PartialOrd, Ord)]
pub enum Codec {
	Null,
	Deflate,
	Snappy,
	Bzip2,
	Xz,
	Zstd,
}
impl Codec {
	pub const ALL: [Codec; 6] = [Codec::Null, Codec::Deflate, Codec::Snappy, Codec::Bzip2, Codec::Xz, Codec::Zstd];
	pub const PURE: [Codec; 3] = [Codec::Null, Codec::Deflate, Codec::Snappy];
	pub fn letter(self) -> char {
		match self {
			Codec::Null => 'n',
			Codec::Deflate => 'd',
			Codec::Snappy => 's',
			Codec::Bzip2 => 'b',
			Codec::Xz => 'x',
			Codec::Zstd => 'z',
		}
	}
	pub fn from_letter(c: char) -> Option<Codec> {
		Codec::ALL.iter().copied().find(|k| k.letter() == c)
	}
	pub fn is_c(self) -> bool {
		matches!(self, Codec::Bzip2 | Codec::Xz | Codec::Zstd)
	}
	pub fn index(self) -> usize {
		Codec::ALL.iter().position(|c| *c == self).unwrap()
	}
	/// Is this codec compiled into this build?
	pub fn available(self) -> bool {
		!self.is_c() || cfg!(feature = "ccodecs")
	}
}

pub struct Fixtures {
	/// encoding of `value(0)`
	pub datum: Vec<u8>,
	/// container file per codec (index = `Codec::index`): block 1 = [value(0)], block 2 = [value(1)]
	pub files: Vec<Option<Vec<u8>>>,
}

pub fn hex(b: &[u8]) -> String {
	let mut s = String::with_capacity(b.len() * 2);
	for x in b {
		let _ = write!(s, "{x:02x}");
	}
	s
}
pub fn unhex(s: &str) -> Option<Vec<u8>> {
	if s.len() % 2 != 0 {
		return None;
	}
	(0..s.len() / 2).map(|i| u8::from_str_radix(s.get(2 * i..2 * i + 2)?, 16).ok()).collect()
}

impl Fixtures {
	/// Produce the fixtures with the real crate (meant for native builds; works under Miri for the
	/// pure-Rust codecs, slowly).
	pub fn generate() -> Result<Fixtures, String> {
		use serde_avro_fast::object_container_file_encoding::{Compression, CompressionLevel, WriterBuilder};
		use serde_avro_fast::ser::SerializerConfig;
		let schema: serde_avro_fast::Schema = SCHEMA_TEXT.parse().map_err(|e| format!("fixture schema: {e}"))?;
		let datum = serde_avro_fast::to_datum_vec(&value(0), &mut SerializerConfig::new(&schema)).map_err(|e| format!("fixture datum: {e}"))?;
		let mut files = Vec::new();
		for c in Codec::ALL {
			if !c.available() {
				files.push(None);
				continue;
			}
			let level = CompressionLevel::default();
			let _ = level;
			let compression = match c {
				Codec::Null => Compression::Null,
				Codec::Deflate => Compression::Deflate { level },
				Codec::Snappy => Compression::Snappy,
				#[cfg(feature = "ccodecs")]
				Codec::Bzip2 => Compression::Bzip2 { level },
				#[cfg(feature = "ccodecs")]
				Codec::Xz => Compression::Xz { level },
				#[cfg(feature = "ccodecs")]
				Codec::Zstd => Compression::Zstandard { level },
				#[cfg(not(feature = "ccodecs"))]
				_ => unreachable!(),
			};
			let mut cfg = SerializerConfig::new(&schema);
			let mut w = WriterBuilder::new(&mut cfg).compression(compression).sync_marker(SYNC).build(Vec::new()).map_err(|e| format!("fixture file {c:?}: {e}"))?;
			w.serialize(&value(0)).map_err(|e| format!("fixture file {c:?}: {e}"))?;
			w.finish_block().map_err(|e| format!("fixture file {c:?}: {e}"))?;
			w.serialize(&value(1)).map_err(|e| format!("fixture file {c:?}: {e}"))?;
			let f = w.into_inner().map_err(|e| format!("fixture file {c:?}: {e}"))?;
			files.push(Some(f));
		}
		Ok(Fixtures { datum, files })
	}
	pub fn to_lines(&self) -> String {
		let mut s = String::new();
		let _ = writeln!(s, "F datum {}", hex(&self.datum));
		for c in Codec::ALL {
			if let Some(f) = &self.files[c.index()] {
				let _ = writeln!(s, "F file-{} {}", c.letter(), hex(f));
			}
		}
		s
	}
	pub fn empty() -> Fixtures {
		Fixtures { datum: Vec::new(), files: vec![None; 6] }
	}
	/// Parse one `F <name> <hex>` line.
	pub fn absorb(&mut self, line: &str) -> Result<(), String> {
		let mut it = line.split_whitespace();
		let (Some("F"), Some(name), Some(h)) = (it.next(), it.next(), it.next()) else { return Err(format!("bad fixture line {line:?}")) };
		let bytes = unhex(h).ok_or_else(|| format!("bad hex in fixture {name}"))?;
		if name == "datum" {
			self.datum = bytes;
		} else if let Some(c) = name.strip_prefix("file-").and_then(|l| l.chars().next()).and_then(Codec::from_letter) {
			self.files[c.index()] = Some(bytes);
		} else {
			return Err(format!("unknown fixture {name}"));
		}
		Ok(())
	}
}

/// FNV-1a, 64 bit: result hashes must be identical in every build.
pub fn fnv(s: &str) -> u64 {
	let mut h: u64 = 0xcbf29ce484222325;
	for b in s.as_bytes() {
		h ^= *b as u64;
		h = h.wrapping_mul(0x100000001b3);
	}
	h
}
