//! Schemas, graphs, values, target types and container files used by the C10 history interpreter.
//!
//! Everything here is deterministic. Container files and datum bytes are produced by the real crate
//! in a NATIVE process (`Fixtures::generate`) and handed to the Miri / ASan / valgrind processes as
//! hex lines, so that every detector executes exactly the same inputs (and Miri does not spend its
//! budget compressing).

use serde::de::{self, DeserializeSeed, MapAccess, SeqAccess, Visitor};
use serde::{Deserialize, Serialize};
use serde_avro_fast::schema::{
	Array, Enum, Map, Name, Record, RecordField, RegularType, SchemaKey, SchemaMut, SchemaNode, Union,
};
use std::borrow::Cow;
use std::fmt::Write as _;

/// The one schema of the pool: recursive record (cyclic node graph) with a string, an enum, an array
/// and a union - every `NodeRef`-bearing node kind except map (which the bad graphs add).
pub const SCHEMA_TEXT: &str = r#"{"type":"record","name":"R","fields":[{"name":"b","type":"string"},{"name":"e","type":{"type":"enum","name":"E","symbols":["X","Y"]}},{"name":"l","type":{"type":"array","items":"int"}},{"name":"u","type":["null","R"]}]}"#;

pub const SYNC: [u8; 16] = [0x51, 0x52, 0x53, 0x54, 0x55, 0x56, 0x57, 0x58, 0x59, 0x5a, 0x5b, 0x5c, 0x5d, 0x5e, 0x5f, 0x60];

/// Number of nodes of the good graph.
pub const N_GOOD: usize = 7;

/// Kinds of node carrying the dangling key in a bad graph (one per `key_to_ref(..)?` site of freeze).
pub const BAD_KINDS: [char; 4] = ['A', 'M', 'U', 'R'];

fn key(i: usize) -> SchemaKey {
	SchemaKey::from_idx(i)
}

/// Node description from which both the real graph and the generator's abstract graph are derived.
#[derive(Clone, Debug, PartialEq)]
pub enum Spec {
	/// record `R` with fields b, e, l, u
	RecR([usize; 4]),
	/// record with the given name and fields f0, f1, ...
	Rec(&'static str, Vec<usize>),
	Str,
	EnumE,
	Arr(usize),
	Map(usize),
	Int,
	Null,
	Uni(Vec<usize>),
}

impl Spec {
	pub fn node(&self) -> SchemaNode {
		match self {
			Spec::RecR(k) => SchemaNode::new(RegularType::Record(Record::new(
				Name::from_fully_qualified_name("R"),
				vec![RecordField::new("b", key(k[0])), RecordField::new("e", key(k[1])), RecordField::new("l", key(k[2])), RecordField::new("u", key(k[3]))],
			))),
			Spec::Rec(name, ks) => SchemaNode::new(RegularType::Record(Record::new(
				Name::from_fully_qualified_name(*name),
				ks.iter().enumerate().map(|(i, k)| RecordField::new(format!("f{i}"), key(*k))).collect(),
			))),
			Spec::Str => SchemaNode::new(RegularType::String),
			Spec::EnumE => SchemaNode::new(RegularType::Enum(Enum::new(Name::from_fully_qualified_name("E"), vec!["X".to_owned(), "Y".to_owned()]))),
			Spec::Arr(k) => SchemaNode::new(RegularType::Array(Array::new(key(*k)))),
			Spec::Map(k) => SchemaNode::new(RegularType::Map(Map::new(key(*k)))),
			Spec::Int => SchemaNode::new(RegularType::Int),
			Spec::Null => SchemaNode::new(RegularType::Null),
			Spec::Uni(ks) => SchemaNode::new(RegularType::Union(Union::new(ks.iter().map(|k| key(*k)).collect()))),
		}
	}
	/// (is it a record?, keys held)
	pub fn abs(&self) -> (bool, Vec<usize>) {
		match self {
			Spec::RecR(k) => (true, k.to_vec()),
			Spec::Rec(_, ks) => (true, ks.clone()),
			Spec::Arr(k) | Spec::Map(k) => (false, vec![*k]),
			Spec::Uni(ks) => (false, ks.clone()),
			_ => (false, vec![]),
		}
	}
}

/// The good graph, same schema as `SCHEMA_TEXT` (and the same node order as the parser produces), with
/// every key passed through `f`.
fn good_spec(f: &dyn Fn(usize) -> usize) -> Vec<Spec> {
	vec![Spec::RecR([f(1), f(2), f(3), f(5)]), Spec::Str, Spec::EnumE, Spec::Arr(f(4)), Spec::Int, Spec::Uni(vec![f(6), f(0)]), Spec::Null]
}

/// Graphs offered to `Build(j)`, all freezable. 0: the good graph. 1: + an EMPTY union that is not
/// reachable from the root, stored right before the `["null","R"]` union. 2: + an unreachable empty
/// union as last node. 3: + two unreachable empty unions in a row before the union. (0-3 describe the
/// same schema on the wire.) 4: an empty union alone as root. 5: record Q{f0: [], f1: ["null","string"]}:
/// a reachable empty union followed in node order by another union.
pub const N_BUILDS: u8 = 6;
pub fn build_spec(j: u8) -> Vec<Spec> {
	let ins = |pos: usize, extra: Vec<Spec>| -> Vec<Spec> {
		let n = extra.len();
		let mut v = good_spec(&move |i| if i >= pos { i + n } else { i });
		for (k, e) in extra.into_iter().enumerate() {
			v.insert(pos + k, e);
		}
		v
	};
	match j {
		0 => good_spec(&|i| i),
		1 => ins(5, vec![Spec::Uni(vec![])]),
		2 => ins(N_GOOD, vec![Spec::Uni(vec![])]),
		3 => ins(5, vec![Spec::Uni(vec![]), Spec::Uni(vec![])]),
		4 => vec![Spec::Uni(vec![])],
		5 => vec![Spec::Rec("Q", vec![1, 2]), Spec::Uni(vec![]), Spec::Uni(vec![3, 4]), Spec::Null, Spec::Str],
		_ => unreachable!(),
	}
}
/// Does graph j describe the schema of `SCHEMA_TEXT` (so that the known answers apply)?
pub fn build_wire_ok(j: u8) -> bool {
	j <= 3
}
pub fn build_graph(j: u8) -> SchemaMut {
	SchemaMut::from_nodes(build_spec(j).iter().map(|s| s.node()).collect())
}
pub fn describe_build(j: u8) -> &'static str {
	[
		"good graph",
		"good graph + unreachable EMPTY union stored right before the [null,R] union",
		"good graph + unreachable empty union as last node",
		"good graph + two unreachable empty unions in a row before the [null,R] union",
		"an empty union alone as root",
		"record Q{f0: [], f1: [null,string]} (empty union followed in node order by another union)",
	][j as usize]
}

/// Schema texts offered to `Parse(i)` / `ParseS(i)`, with the node structure the parser gives them
/// (checked against the real parse result at run time).
pub const N_TEXTS: u8 = 5;
pub fn text(i: u8) -> &'static str {
	match i {
		0 => SCHEMA_TEXT,
		// (not offered to Parse / ParseS: the schema of the datum-level gathering fixture)
		N_TEXTS => GATHER_TEXT,
		1 => "[]",
		2 => r#"{"type":"record","name":"Q","fields":[{"name":"z","type":[]},{"name":"u","type":["null","string"]}]}"#,
		3 => r#"{"type":"record","name":"Q","fields":[{"name":"u","type":["null","string"]},{"name":"z","type":[]}]}"#,
		4 => r#"{"type":"record","name":"Q","fields":[{"name":"y","type":[]},{"name":"z","type":[]},{"name":"u","type":["null","string"]}]}"#,
		_ => unreachable!(),
	}
}
pub fn text_abs(i: u8) -> Vec<(bool, Vec<usize>)> {
	match i {
		0 => good_spec(&|i| i).iter().map(|s| s.abs()).collect(),
		1 => vec![(false, vec![])],
		2 => vec![(true, vec![1, 2]), (false, vec![]), (false, vec![3, 4]), (false, vec![]), (false, vec![])],
		3 => vec![(true, vec![1, 4]), (false, vec![2, 3]), (false, vec![]), (false, vec![]), (false, vec![])],
		4 => vec![(true, vec![1, 2, 3]), (false, vec![]), (false, vec![]), (false, vec![4, 5]), (false, vec![]), (false, vec![])],
		_ => unreachable!(),
	}
}

/// SchemaMut prototypes parsed once per process and cloned (Miri runs: parsing is safe code and costs
/// about 0.5 s per call there).
pub struct Protos {
	cache: std::cell::RefCell<Vec<Option<SchemaMut>>>,
}
impl Protos {
	pub fn new() -> Protos {
		Protos { cache: std::cell::RefCell::new((0..=N_TEXTS).map(|_| None).collect()) }
	}
	pub fn get(&self, i: u8) -> Result<SchemaMut, ()> {
		let mut c = self.cache.borrow_mut();
		if c[i as usize].is_none() {
			c[i as usize] = Some(text(i).parse::<SchemaMut>().map_err(|_| ())?);
		}
		Ok(c[i as usize].clone().unwrap())
	}
}
impl Default for Protos {
	fn default() -> Self {
		Self::new()
	}
}

/// A node that is not reachable from the root and holds the key `bad` pointing outside the graph.
/// `valid` is a key of the graph that is in range (so that partially built vectors exist when the
/// error return is taken).
fn dangling_spec(kind: char, valid: usize, bad: usize) -> Spec {
	match kind {
		'A' => Spec::Arr(bad),
		'M' => Spec::Map(bad),
		'U' => Spec::Uni(vec![valid, bad]),
		'R' => Spec::Rec("Unreach", vec![valid, bad]),
		_ => unreachable!(),
	}
}

/// Out-of-range keys tried: exactly the number of nodes (one past the end of the node storage), one
/// more, and usize::MAX.
pub const N_BAD_KEYS: usize = 3;
pub fn bad_key(class: usize, len: usize) -> usize {
	[len, len + 1, usize::MAX][class]
}
/// Number of dangling-key graphs: kinds x positions 1..=N_GOOD x key classes.
pub const N_DANGLING: usize = BAD_KINDS.len() * N_GOOD * N_BAD_KEYS;
/// Graphs whose only cycles go through unnamed nodes (freeze must return Err since D5 was fixed).
pub const N_CYCLES: usize = 4;
/// Bad graphs: dangling-key graphs, then the empty graph, then the unnamed cycles.
pub const N_BAD: usize = N_DANGLING + 1 + N_CYCLES;
pub const BAD_EMPTY: usize = N_DANGLING;

/// (kind, position, key class) of dangling-key graph g
pub fn bad_params(g: usize) -> (char, usize, usize) {
	(BAD_KINDS[g / (N_GOOD * N_BAD_KEYS)], 1 + (g % (N_GOOD * N_BAD_KEYS)) / N_BAD_KEYS, g % N_BAD_KEYS)
}
/// index of the dangling-key graph with these parameters
pub fn bad_index(kind: char, pos: usize, class: usize) -> u8 {
	let k = BAD_KINDS.iter().position(|c| *c == kind).unwrap();
	(k * N_GOOD * N_BAD_KEYS + (pos - 1) * N_BAD_KEYS + class) as u8
}

pub fn describe_bad(g: usize) -> String {
	if g == BAD_EMPTY {
		return "empty graph".to_owned();
	}
	if g > BAD_EMPTY {
		return ["[array(items=#0)]", "[map(values=#0)]", "[array(items=#1), map(values=#0)]", "[record P{f0: #1}, array(items=#2), map(values=#1)]"][g - BAD_EMPTY - 1].to_owned() + " (cycle through unnamed nodes only)";
	}
	let (kind, pos, class) = bad_params(g);
	let len = N_GOOD + 1;
	format!("good graph + unreachable node of kind {kind} inserted at position {pos} ({len} nodes) holding key {}", ["len", "len+1", "usize::MAX"][class])
}

/// Bad graph number `g` (0-based): freeze must return Err.
pub fn bad_graph(g: usize) -> SchemaMut {
	assert!(g < N_BAD);
	let spec: Vec<Spec> = if g == BAD_EMPTY {
		Vec::new()
	} else if g > BAD_EMPTY {
		match g - BAD_EMPTY - 1 {
			0 => vec![Spec::Arr(0)],
			1 => vec![Spec::Map(0)],
			2 => vec![Spec::Arr(1), Spec::Map(0)],
			_ => vec![Spec::Rec("P", vec![1]), Spec::Arr(2), Spec::Map(1)],
		}
	} else {
		let (kind, pos, class) = bad_params(g);
		let shift = move |i: usize| if i >= pos { i + 1 } else { i };
		let mut v = good_spec(&shift);
		// the valid key of the dangling node: the `int` node (wherever it ended up)
		v.insert(pos, dangling_spec(kind, shift(4), bad_key(class, N_GOOD + 1)));
		v
	};
	SchemaMut::from_nodes(spec.iter().map(|s| s.node()).collect())
}

/// Key structure of a real graph: per node (is it a record?, the keys it holds, in order).
pub fn keys_of(m: &SchemaMut) -> Vec<(bool, Vec<usize>)> {
	m.nodes()
		.iter()
		.map(|n| match &n.type_ {
			RegularType::Array(a) => (false, vec![a.items.idx()]),
			RegularType::Map(a) => (false, vec![a.values.idx()]),
			RegularType::Union(u) => (false, u.variants.iter().map(|k| k.idx()).collect()),
			RegularType::Record(r) => (true, r.fields.iter().map(|f| f.type_.idx()).collect()),
			_ => (false, vec![]),
		})
		.collect()
}

pub const DANGLING: usize = 1000;

/// Edits of a live `SchemaMut` (through `nodes_mut()`). Returns false when the edit does not apply to
/// the graph. No edit can create a cycle of unnamed nodes. `MState::edit` mirrors every edit.
pub fn edit(m: &mut SchemaMut, e: u8) -> bool {
	let nodes = m.nodes_mut();
	let root_fields = |nodes: &mut Vec<SchemaNode>| -> Option<usize> {
		match nodes.first().map(|r| &r.type_) {
			Some(RegularType::Record(r)) if !r.fields.is_empty() => Some(r.fields.len()),
			_ => None,
		}
	};
	let set_field = |nodes: &mut Vec<SchemaNode>, f: usize, k: usize| {
		if let Some(RegularType::Record(r)) = nodes.first_mut().map(|r| &mut r.type_) {
			r.fields[f].type_ = key(k);
		}
	};
	match e {
		// two nodes that are unreachable from the root, the first holding a valid key to the second
		// (on an emptied graph they become the schema map<int>)
		0 => {
			let n = nodes.len();
			nodes.push(Spec::Map(n + 1).node());
			nodes.push(Spec::Int.node());
			true
		}
		// an array node whose key is exactly the new number of nodes (one past the end of the node
		// storage), appended: unreachable, so freeze fails with the node vector half written
		1 => {
			let n = nodes.len();
			nodes.push(Spec::Arr(n + 1).node());
			true
		}
		// retarget: field 0 of the root record now points at a new string node
		2 => match root_fields(nodes) {
			Some(_) => {
				let n = nodes.len();
				set_field(nodes, 0, n);
				nodes.push(Spec::Str.node());
				true
			}
			None => false,
		},
		// retarget to a far dangling key in a REACHABLE node: rejected before the node vector is allocated
		3 => match root_fields(nodes) {
			Some(_) => {
				set_field(nodes, 0, DANGLING);
				true
			}
			None => false,
		},
		// remove every node
		4 => {
			nodes.clear();
			true
		}
		// detach: the last field of the root record now points where field 0 points; what it pointed at
		// (the [null,R] union of the good graph) is no longer reachable from the root
		5 => match root_fields(nodes) {
			Some(n) => {
				let k0 = match &nodes[0].type_ {
					RegularType::Record(r) => r.fields[0].type_.idx(),
					_ => unreachable!(),
				};
				set_field(nodes, n - 1, k0);
				true
			}
			None => false,
		},
		// pop the last node (after `detach` on the good graph: the null node, so that the unreachable
		// union holds a key exactly equal to the new number of nodes)
		6 => nodes.pop().is_some(),
		_ => unreachable!(),
	}
}
pub const N_EDITS: u8 = 7;

/// What the generator knows about a live `SchemaMut`, by construction of the graphs and edits (not by
/// modelling the crate): its key structure. `freeze` is on its Ok path iff the graph is not empty and
/// every key of every node (reachable or not) is in range.
#[derive(Clone, Debug, PartialEq, Eq, Hash)]
pub struct MState {
	pub nodes: Vec<(bool, Vec<usize>)>,
	/// still the schema of SCHEMA_TEXT on the wire (known answers apply)
	pub wire_ok: bool,
}
impl MState {
	pub fn parsed(i: u8) -> MState {
		MState { nodes: text_abs(i), wire_ok: i == 0 }
	}
	pub fn built(j: u8) -> MState {
		MState { nodes: build_spec(j).iter().map(|s| s.abs()).collect(), wire_ok: build_wire_ok(j) }
	}
	pub fn has_dangling_key(&self) -> bool {
		let n = self.nodes.len();
		self.nodes.iter().any(|(_, ks)| ks.iter().any(|k| *k >= n))
	}
	pub fn freezable(&self) -> bool {
		!self.nodes.is_empty() && !self.has_dangling_key()
	}
	fn root_fields(&self) -> Option<usize> {
		match self.nodes.first() {
			Some((true, ks)) if !ks.is_empty() => Some(ks.len()),
			_ => None,
		}
	}
	pub fn edit(&mut self, e: u8) {
		let n = self.nodes.len();
		match e {
			0 => {
				self.nodes.push((false, vec![n + 1]));
				self.nodes.push((false, vec![]));
			}
			1 => self.nodes.push((false, vec![n + 1])),
			2 => {
				if self.root_fields().is_some() {
					self.nodes[0].1[0] = n;
					self.nodes.push((false, vec![]));
				}
			}
			3 => {
				if self.root_fields().is_some() {
					self.nodes[0].1[0] = DANGLING;
					self.wire_ok = false;
				}
			}
			4 => {
				self.nodes.clear();
				self.wire_ok = false;
			}
			5 => {
				if let Some(f) = self.root_fields() {
					let k0 = self.nodes[0].1[0];
					self.nodes[0].1[f - 1] = k0;
					self.wire_ok = false;
				}
			}
			6 => {
				self.nodes.pop();
				// (a pop may remove a node the schema needs; freeze then fails, or the schema changes)
				self.wire_ok = false;
			}
			_ => unreachable!(),
		}
	}
}

// ---------------------------------------------------------------------------------------------
// values

#[derive(Serialize, Deserialize, Debug, PartialEq, Clone)]
pub struct Rec<'a> {
	#[serde(borrow)]
	pub b: Cow<'a, str>,
	#[serde(borrow)]
	pub e: Cow<'a, str>,
	pub l: Vec<i32>,
	#[serde(borrow)]
	pub u: Option<Box<Rec<'a>>>,
}

#[derive(Serialize, Deserialize, Debug, PartialEq, Clone, Copy)]
pub enum Sym {
	X,
	Y,
}

/// Strictly borrowing target: only deserialisable when the input can be borrowed.
#[derive(Deserialize, Debug, PartialEq, Clone)]
pub struct RecRef<'a> {
	pub b: &'a str,
	pub e: Sym,
	pub l: Vec<i32>,
	#[serde(borrow)]
	pub u: Option<Box<RecRef<'a>>>,
}

#[derive(Deserialize, Debug, PartialEq, Clone)]
pub struct RecO {
	pub b: String,
	pub e: Sym,
	pub l: Vec<i32>,
	pub u: Option<Box<RecO>>,
}

/// Target that fails in the middle of the record (after `b` and the enum discriminant were consumed).
#[derive(Deserialize, Debug, PartialEq, Clone)]
pub struct Bad {
	pub b: String,
	pub e: i64,
}

pub fn value(v: u8) -> Rec<'static> {
	match v {
		0 => Rec {
			b: Cow::Borrowed("hello"),
			e: Cow::Borrowed("Y"),
			l: vec![1, -2],
			u: Some(Box::new(Rec { b: Cow::Borrowed("in"), e: Cow::Borrowed("X"), l: vec![], u: None })),
		},
		1 => Rec { b: Cow::Borrowed(""), e: Cow::Borrowed("X"), l: vec![7], u: None },
		// unknown enum symbol: serialisation fails after `b` was written
		2 => Rec { b: Cow::Borrowed("bad"), e: Cow::Borrowed("Z"), l: vec![], u: None },
		_ => unreachable!(),
	}
}

/// Observation through `deserialize_any`: records field names, enum symbols, strings and bytes with
/// their borrowed-ness.
#[derive(Debug, PartialEq, Clone)]
pub enum Obs<'a> {
	Unit,
	Bool(bool),
	I(i64),
	U(u64),
	F(u64),
	Str(Cow<'a, str>),
	Bytes(Cow<'a, [u8]>),
	Seq(Vec<Obs<'a>>),
	Map(Vec<(Obs<'a>, Obs<'a>)>),
	Some(Box<Obs<'a>>),
}

struct ObsVisitor;
struct ObsSeed;
impl<'de> DeserializeSeed<'de> for ObsSeed {
	type Value = Obs<'de>;
	fn deserialize<D: de::Deserializer<'de>>(self, d: D) -> Result<Obs<'de>, D::Error> {
		d.deserialize_any(ObsVisitor)
	}
}
impl<'de> Deserialize<'de> for Obs<'de> {
	fn deserialize<D: de::Deserializer<'de>>(d: D) -> Result<Self, D::Error> {
		d.deserialize_any(ObsVisitor)
	}
}
impl<'de> Visitor<'de> for ObsVisitor {
	type Value = Obs<'de>;
	fn expecting(&self, f: &mut std::fmt::Formatter) -> std::fmt::Result {
		f.write_str("anything")
	}
	fn visit_bool<E>(self, v: bool) -> Result<Obs<'de>, E> {
		Ok(Obs::Bool(v))
	}
	fn visit_i64<E>(self, v: i64) -> Result<Obs<'de>, E> {
		Ok(Obs::I(v))
	}
	fn visit_u64<E>(self, v: u64) -> Result<Obs<'de>, E> {
		Ok(Obs::U(v))
	}
	fn visit_f64<E>(self, v: f64) -> Result<Obs<'de>, E> {
		Ok(Obs::F(v.to_bits()))
	}
	fn visit_str<E>(self, v: &str) -> Result<Obs<'de>, E> {
		Ok(Obs::Str(Cow::Owned(v.to_owned())))
	}
	fn visit_borrowed_str<E>(self, v: &'de str) -> Result<Obs<'de>, E> {
		Ok(Obs::Str(Cow::Borrowed(v)))
	}
	fn visit_bytes<E>(self, v: &[u8]) -> Result<Obs<'de>, E> {
		Ok(Obs::Bytes(Cow::Owned(v.to_owned())))
	}
	fn visit_borrowed_bytes<E>(self, v: &'de [u8]) -> Result<Obs<'de>, E> {
		Ok(Obs::Bytes(Cow::Borrowed(v)))
	}
	fn visit_unit<E>(self) -> Result<Obs<'de>, E> {
		Ok(Obs::Unit)
	}
	fn visit_none<E>(self) -> Result<Obs<'de>, E> {
		Ok(Obs::Unit)
	}
	fn visit_some<D: de::Deserializer<'de>>(self, d: D) -> Result<Obs<'de>, D::Error> {
		Ok(Obs::Some(Box::new(d.deserialize_any(ObsVisitor)?)))
	}
	fn visit_seq<A: SeqAccess<'de>>(self, mut a: A) -> Result<Obs<'de>, A::Error> {
		let mut v = Vec::new();
		while let Some(x) = a.next_element_seed(ObsSeed)? {
			v.push(x);
		}
		Ok(Obs::Seq(v))
	}
	fn visit_map<A: MapAccess<'de>>(self, mut a: A) -> Result<Obs<'de>, A::Error> {
		let mut v = Vec::new();
		while let Some(k) = a.next_key_seed(ObsSeed)? {
			let x = a.next_value_seed(ObsSeed)?;
			v.push((k, x));
		}
		Ok(Obs::Map(v))
	}
}

/// Address ranges of every borrowed str / bytes inside a value.
pub trait Borrows {
	fn borrows(&self, out: &mut Vec<(usize, usize)>);
}
fn cow_str(c: &Cow<'_, str>, out: &mut Vec<(usize, usize)>) {
	if let Cow::Borrowed(s) = c {
		out.push((s.as_ptr() as usize, s.len()));
	}
}
impl Borrows for Rec<'_> {
	fn borrows(&self, out: &mut Vec<(usize, usize)>) {
		cow_str(&self.b, out);
		cow_str(&self.e, out);
		if let Some(u) = &self.u {
			u.borrows(out);
		}
	}
}
impl Borrows for RecRef<'_> {
	fn borrows(&self, out: &mut Vec<(usize, usize)>) {
		out.push((self.b.as_ptr() as usize, self.b.len()));
		if let Some(u) = &self.u {
			u.borrows(out);
		}
	}
}
impl Borrows for Obs<'_> {
	fn borrows(&self, out: &mut Vec<(usize, usize)>) {
		match self {
			Obs::Str(c) => cow_str(c, out),
			Obs::Bytes(Cow::Borrowed(b)) => out.push((b.as_ptr() as usize, b.len())),
			Obs::Seq(v) => v.iter().for_each(|x| x.borrows(out)),
			Obs::Map(v) => v.iter().for_each(|(k, x)| {
				k.borrows(out);
				x.borrows(out)
			}),
			Obs::Some(x) => x.borrows(out),
			_ => {}
		}
	}
}

// ---------------------------------------------------------------------------------------------
// codecs and container files

#[derive(Clone, Copy, Debug, PartialEq, Eq, Hash, PartialOrd, Ord)]
pub enum Codec {
	Null,
	Deflate,
	Snappy,
	Bzip2,
	Xz,
	Zstd,
}
impl Codec {
	pub const ALL: [Codec; 6] = [Codec::Null, Codec::Deflate, Codec::Snappy, Codec::Bzip2, Codec::Xz, Codec::Zstd];
	pub const PURE: [Codec; 3] = [Codec::Null, Codec::Deflate, Codec::Snappy];
	pub fn letter(self) -> char {
		match self {
			Codec::Null => 'n',
			Codec::Deflate => 'd',
			Codec::Snappy => 's',
			Codec::Bzip2 => 'b',
			Codec::Xz => 'x',
			Codec::Zstd => 'z',
		}
	}
	pub fn from_letter(c: char) -> Option<Codec> {
		Codec::ALL.iter().copied().find(|k| k.letter() == c)
	}
	pub fn is_c(self) -> bool {
		matches!(self, Codec::Bzip2 | Codec::Xz | Codec::Zstd)
	}
	pub fn index(self) -> usize {
		Codec::ALL.iter().position(|c| *c == self).unwrap()
	}
	/// Is this codec compiled into this build?
	pub fn available(self) -> bool {
		!self.is_c() || cfg!(feature = "ccodecs")
	}
}

pub struct Fixtures {
	/// encoding of `value(0)`
	pub datum: Vec<u8>,
	/// container files, index = variant * 6 + `Codec::index`.
	/// variant 0: block 1 = [value(0)], block 2 = [value(1)];
	/// variant 1 ("sized"): one record per block, decompressed block sizes going up / down / up beyond the
	/// first / up again (`SIZED_LENS`), so that a decompression buffer is reused with len < capacity and
	/// then has to grow.
	pub files: Vec<Option<Vec<u8>>>,
}

/// Lengths of the string field of the records of the "sized" file (one record per block).
pub const SIZED_LENS: [usize; 4] = [100, 8, 150, 250];
pub const N_FILE_VARIANTS: u8 = 3;
/// Lengths of the string field of the records of file variant 2 (one record per block), relative to the
/// length H of the schema text: a `ReaderRead` whose BufRead hands out less than a value at a time
/// gathers every string in its scratch buffer; the header leaves the scratch at len = capacity = H;
/// 1.5 H makes it grow by doubling (len 1.5 H < capacity 2 H); 2.25 H is then larger than the capacity
/// but by less than the slack (capacity - len); 8 is a small read; 5 H does the same once more.
pub fn sized2_lens() -> [usize; 4] {
	let h = SCHEMA_TEXT.len();
	[h * 3 / 2, 2 * h + h / 4, 8, 5 * h]
}
pub fn file_lens(variant: u8) -> Vec<usize> {
	match variant {
		1 => SIZED_LENS.to_vec(),
		2 => sized2_lens().to_vec(),
		_ => vec![],
	}
}
/// Record k of file variant 1 or 2.
pub fn file_value(variant: u8, k: usize) -> Rec<'static> {
	let s: String = std::iter::repeat((b'a' + k as u8) as char).take(file_lens(variant)[k]).collect();
	Rec { b: Cow::Owned(s), e: Cow::Borrowed(if k % 2 == 0 { "X" } else { "Y" }), l: vec![k as i32], u: None }
}
pub fn sized_value(k: usize) -> Rec<'static> {
	file_value(1, k)
}

/// Model of a `Vec<u8>` scratch buffer that is only ever grown with `resize(n, 0)` when n > len (what
/// `ReaderRead::read_slice` does on its gathering path). `read(n)` returns true when this read makes the
/// buffer grow although an earlier, amortised growth had left len < capacity, and by so little that
/// `n - capacity <= capacity - len`: the situation in which "reserve what is missing from the capacity"
/// reserves nothing.
#[derive(Clone, Copy, Debug, Default, PartialEq, Eq)]
pub struct ScratchSim {
	pub len: usize,
	pub cap: usize,
}
impl ScratchSim {
	pub fn read(&mut self, n: usize) -> bool {
		if n <= self.len {
			return false;
		}
		let flagged = self.cap > self.len && n > self.cap && n - self.cap <= self.cap - self.len;
		if self.cap < n {
			self.cap = (self.cap * 2).max(n).max(8);
		}
		self.len = n;
		flagged
	}
	/// the gathered reads of a container header written by the fixtures (metadata map: avro.schema, avro.codec)
	pub fn after_header(codec_name_len: usize) -> ScratchSim {
		let mut s = ScratchSim::default();
		for n in ["avro.schema".len(), SCHEMA_TEXT.len(), "avro.codec".len(), codec_name_len] {
			s.read(n);
		}
		s
	}
}

/// Datum-level gathering fixture (no container): record G{a,b,c: string} with strings of 100 / 150 / 250
/// bytes, read with `from_datum_reader` over a reader that hands out a few bytes at a time: three
/// gathered reads on ONE `ReaderRead`, starting from an empty scratch buffer.
pub const GATHER_TEXT: &str = r#"{"type":"record","name":"G","fields":[{"name":"a","type":"string"},{"name":"b","type":"string"},{"name":"c","type":"string"}]}"#;
pub const GATHER_LENS: [usize; 3] = [100, 150, 250];
#[derive(Deserialize, Debug, PartialEq, Clone)]
pub struct Gathered {
	pub a: String,
	pub b: String,
	pub c: String,
}
pub fn gather_expected() -> Gathered {
	let s = |k: usize| -> String { std::iter::repeat((b'p' + k as u8) as char).take(GATHER_LENS[k]).collect() };
	Gathered { a: s(0), b: s(1), c: s(2) }
}
/// Hand-encoded from the Avro specification (zig-zag varint length + bytes, three times).
pub fn gather_datum() -> Vec<u8> {
	let g = gather_expected();
	let mut out = Vec::new();
	for s in [&g.a, &g.b, &g.c] {
		let mut z = (s.len() as u64) << 1;
		loop {
			let b = (z & 0x7f) as u8;
			z >>= 7;
			if z == 0 {
				out.push(b);
				break;
			}
			out.push(b | 0x80);
		}
		out.extend_from_slice(s.as_bytes());
	}
	out
}

pub fn hex(b: &[u8]) -> String {
	let mut s = String::with_capacity(b.len() * 2);
	for x in b {
		let _ = write!(s, "{x:02x}");
	}
	s
}
pub fn unhex(s: &str) -> Option<Vec<u8>> {
	if s.len() % 2 != 0 {
		return None;
	}
	(0..s.len() / 2).map(|i| u8::from_str_radix(s.get(2 * i..2 * i + 2)?, 16).ok()).collect()
}

impl Fixtures {
	/// Produce the fixtures with the real crate (meant for native builds; works under Miri for the
	/// pure-Rust codecs, slowly).
	pub fn generate() -> Result<Fixtures, String> {
		use serde_avro_fast::object_container_file_encoding::{Compression, CompressionLevel, WriterBuilder};
		use serde_avro_fast::ser::SerializerConfig;
		let schema: serde_avro_fast::Schema = SCHEMA_TEXT.parse().map_err(|e| format!("fixture schema: {e}"))?;
		let datum = serde_avro_fast::to_datum_vec(&value(0), &mut SerializerConfig::new(&schema)).map_err(|e| format!("fixture datum: {e}"))?;
		let mut files = Vec::new();
		for (variant, c) in (0..N_FILE_VARIANTS).flat_map(|v| Codec::ALL.into_iter().map(move |c| (v, c))) {
			if !c.available() {
				files.push(None);
				continue;
			}
			let level = CompressionLevel::default();
			let _ = level;
			let compression = match c {
				Codec::Null => Compression::Null,
				Codec::Deflate => Compression::Deflate { level },
				Codec::Snappy => Compression::Snappy,
				#[cfg(feature = "ccodecs")]
				Codec::Bzip2 => Compression::Bzip2 { level },
				#[cfg(feature = "ccodecs")]
				Codec::Xz => Compression::Xz { level },
				#[cfg(feature = "ccodecs")]
				Codec::Zstd => Compression::Zstandard { level },
				#[cfg(not(feature = "ccodecs"))]
				_ => unreachable!(),
			};
			let mut cfg = SerializerConfig::new(&schema);
			let mut w = WriterBuilder::new(&mut cfg).compression(compression).sync_marker(SYNC).build(Vec::new()).map_err(|e| format!("fixture file {c:?}: {e}"))?;
			if variant == 0 {
				w.serialize(&value(0)).map_err(|e| format!("fixture file {c:?}: {e}"))?;
				w.finish_block().map_err(|e| format!("fixture file {c:?}: {e}"))?;
				w.serialize(&value(1)).map_err(|e| format!("fixture file {c:?}: {e}"))?;
			} else {
				for k in 0..file_lens(variant).len() {
					w.serialize(&file_value(variant, k)).map_err(|e| format!("fixture file {c:?}: {e}"))?;
					w.finish_block().map_err(|e| format!("fixture file {c:?}: {e}"))?;
				}
			}
			let f = w.into_inner().map_err(|e| format!("fixture file {c:?}: {e}"))?;
			files.push(Some(f));
		}
		Ok(Fixtures { datum, files })
	}
	pub fn to_lines(&self) -> String {
		let mut s = String::new();
		let _ = writeln!(s, "F datum {}", hex(&self.datum));
		for v in 0..N_FILE_VARIANTS {
			for c in Codec::ALL {
				if let Some(f) = self.file(c, v) {
					let _ = writeln!(s, "F file{}-{} {}", if v == 0 { String::new() } else { v.to_string() }, c.letter(), hex(f));
				}
			}
		}
		s
	}
	pub fn empty() -> Fixtures {
		Fixtures { datum: Vec::new(), files: vec![None; 6 * N_FILE_VARIANTS as usize] }
	}
	pub fn file(&self, c: Codec, variant: u8) -> Option<&Vec<u8>> {
		self.files[variant as usize * 6 + c.index()].as_ref()
	}
	pub fn set_file(&mut self, c: Codec, variant: u8, bytes: Vec<u8>) {
		self.files[variant as usize * 6 + c.index()] = Some(bytes);
	}
	/// Parse one `F <name> <hex>` line.
	pub fn absorb(&mut self, line: &str) -> Result<(), String> {
		let mut it = line.split_whitespace();
		let (Some("F"), Some(name), Some(h)) = (it.next(), it.next(), it.next()) else { return Err(format!("bad fixture line {line:?}")) };
		let bytes = unhex(h).ok_or_else(|| format!("bad hex in fixture {name}"))?;
		if name == "datum" {
			self.datum = bytes;
		} else if let Some(c) = name.strip_prefix("file-").and_then(|l| l.chars().next()).and_then(Codec::from_letter) {
			self.set_file(c, 0, bytes);
		} else if let Some(c) = name.strip_prefix("file1-").and_then(|l| l.chars().next()).and_then(Codec::from_letter) {
			self.set_file(c, 1, bytes);
		} else if let Some(c) = name.strip_prefix("file2-").and_then(|l| l.chars().next()).and_then(Codec::from_letter) {
			self.set_file(c, 2, bytes);
		} else {
			return Err(format!("unknown fixture {name}"));
		}
		Ok(())
	}
}

/// FNV-1a, 64 bit: result hashes must be identical in every build.
pub fn fnv(s: &str) -> u64 {
	let mut h: u64 = 0xcbf29ce484222325;
	for b in s.as_bytes() {
		h ^= *b as u64;
		h = h.wrapping_mul(0x100000001b3);
	}
	h
}
