//! C10 history interpreter: executes histories of safe public API calls of `serde_avro_fast` on real
//! objects. Built natively (inside `vcheck`, differential oracle over all histories), under Miri
//! (`cargo +nightly miri run -p vmiri --bin vhist`) and with AddressSanitizer (feature `ccodecs`).

pub mod cli;
pub mod fixtures;
pub mod ops;
pub mod threads;
pub mod world;
