//! The history interpreter: executes operations on real objects of the crate.
//!
//! Lifetimes are erased with raw pointers (never with transmutes): lenders (`Schema`, input buffers)
//! live in heap allocations owned through raw pointers, borrowers get `&'static` references derived
//! from those pointers; `ops::Abs` guarantees that a lender is only freed / moved when no borrower is
//! left, i.e. exactly the programs rustc accepts.

use crate::fixtures::{self, Bad, Borrows, Fixtures, Obs, Rec, RecO, RecRef};
use crate::ops::{Op, RKind, Src, Tgt};
use serde_avro_fast::de::read::{ReaderRead, SliceRead};
use serde_avro_fast::object_container_file_encoding::Reader;
use serde_avro_fast::schema::SchemaMut;
use serde_avro_fast::ser::SerializerConfig;
use serde_avro_fast::Schema;
use std::io::{BufRead, Cursor, Read};
use std::panic::{catch_unwind, AssertUnwindSafe};
use std::rc::Rc;
use std::sync::Arc;

/// Heap buffer with a stable address, handed out as `&'static [u8]`; freed when the last `Rc` goes.
pub struct Buf {
	ptr: *mut [u8],
}
impl Buf {
	fn new(bytes: &[u8]) -> Rc<Buf> {
		Rc::new(Buf { ptr: Box::into_raw(bytes.to_vec().into_boxed_slice()) })
	}
	fn slice(&self) -> &'static [u8] {
		// SAFETY: the allocation lives until the last Rc<Buf> is dropped; every borrower holds one.
		unsafe { &*self.ptr }
	}
	fn range(&self) -> (usize, usize) {
		let s = self.slice();
		(s.as_ptr() as usize, s.len())
	}
}
impl Drop for Buf {
	fn drop(&mut self) {
		// SAFETY: created by Box::into_raw, dropped once
		unsafe { drop(Box::from_raw(self.ptr)) }
	}
}

/// A `BufRead` that owns its bytes and hands out at most `chunk` bytes per `fill_buf`.
pub struct Chunked {
	data: Vec<u8>,
	pos: usize,
	chunk: usize,
}
impl Read for Chunked {
	fn read(&mut self, buf: &mut [u8]) -> std::io::Result<usize> {
		let n = {
			let avail = self.fill_buf()?;
			let n = avail.len().min(buf.len());
			buf[..n].copy_from_slice(&avail[..n]);
			n
		};
		self.consume(n);
		Ok(n)
	}
}
impl BufRead for Chunked {
	fn fill_buf(&mut self) -> std::io::Result<&[u8]> {
		let end = (self.pos + self.chunk).min(self.data.len());
		Ok(&self.data[self.pos..end])
	}
	fn consume(&mut self, n: usize) {
		self.pos = (self.pos + n).min(self.data.len());
	}
}

enum AnyVal {
	Owned(RecO),
	Cow(Rec<'static>),
	Any(Obs<'static>),
	Strict(RecRef<'static>),
}
impl AnyVal {
	fn debug(&self) -> String {
		match self {
			AnyVal::Owned(v) => format!("{v:?}"),
			AnyVal::Cow(v) => format!("{v:?}"),
			AnyVal::Any(v) => format!("{v:?}"),
			AnyVal::Strict(v) => format!("{v:?}"),
		}
	}
	fn borrows(&self) -> Vec<(usize, usize)> {
		let mut out = Vec::new();
		match self {
			AnyVal::Owned(_) => {}
			AnyVal::Cow(v) => v.borrows(&mut out),
			AnyVal::Any(v) => v.borrows(&mut out),
			AnyVal::Strict(v) => v.borrows(&mut out),
		}
		out
	}
}

/// A deserialised value, the input buffer it may borrow from (declared after the value: dropped
/// after it) and what it looked like when it was created.
struct Val {
	v: AnyVal,
	buf: Option<Rc<Buf>>,
	expected: String,
	made_by: usize,
}

enum AnyReader {
	Slice(Reader<SliceRead<'static>>, Rc<Buf>),
	Buf(Reader<ReaderRead<Cursor<Vec<u8>>>>),
	Chunked(Reader<ReaderRead<Chunked>>),
	Small(Reader<ReaderRead<std::io::BufReader<Cursor<Vec<u8>>>>>),
}

#[derive(Default, Clone, Debug)]
pub struct Counters {
	pub freeze_ok: u64,
	pub freeze_err_unreachable_dangling: u64,
	pub freeze_err_other: u64,
	pub mispredict: u64,
	pub absent_operand: u64,
	pub values_made: u64,
	pub values_with_borrows: u64,
	pub borrowed_parts: u64,
	pub inspections: u64,
	pub inspections_after_owner_gone: u64,
	pub reads_compressed_ok: u64,
	pub reads_ok: u64,
	pub reads_err: u64,
	pub reads_eof: u64,
	pub remote_ops: u64,
	pub panics: u64,
	pub ser_ok: u64,
	pub ser_err: u64,
	pub reader_schema_used_after_reader_drop: u64,
	pub freeze_err_unnamed_cycle: u64,
	pub known_answers: u64,
	/// successful reads of the 3rd / 4th block of a compressed "sized" file (the decompression buffer had
	/// len < capacity and had to grow beyond its first size)
	pub reads_regrown_block: u64,
	/// gathered reads (ReaderRead scratch buffer) that grew the scratch after an earlier amortised growth
	/// had left len < capacity, by less than that slack (per the model `fixtures::ScratchSim`)
	pub scratch_regrow_reads: u64,
	pub dbg_panics: u64,
}
impl Counters {
	pub fn fields(&self) -> Vec<(&'static str, u64)> {
		vec![
			("freeze_ok", self.freeze_ok),
			("freeze_err_unreachable_dangling", self.freeze_err_unreachable_dangling),
			("freeze_err_other", self.freeze_err_other),
			("mispredict", self.mispredict),
			("absent_operand", self.absent_operand),
			("values_made", self.values_made),
			("values_with_borrows", self.values_with_borrows),
			("borrowed_parts", self.borrowed_parts),
			("inspections", self.inspections),
			("inspections_after_owner_gone", self.inspections_after_owner_gone),
			("reads_compressed_ok", self.reads_compressed_ok),
			("reads_ok", self.reads_ok),
			("reads_err", self.reads_err),
			("reads_eof", self.reads_eof),
			("remote_ops", self.remote_ops),
			("panics", self.panics),
			("ser_ok", self.ser_ok),
			("ser_err", self.ser_err),
			("reader_schema_used_after_reader_drop", self.reader_schema_used_after_reader_drop),
			("freeze_err_unnamed_cycle", self.freeze_err_unnamed_cycle),
			("known_answers", self.known_answers),
			("reads_regrown_block", self.reads_regrown_block),
			("scratch_regrow_reads", self.scratch_regrow_reads),
			("dbg_panics", self.dbg_panics),
		]
	}
	pub fn add(&mut self, o: &Counters) {
		let mine = self.fields();
		let theirs = o.fields();
		let sum: Vec<u64> = mine.iter().zip(theirs.iter()).map(|(a, b)| a.1 + b.1).collect();
		self.set(&sum);
	}
	fn set(&mut self, v: &[u64]) {
		self.freeze_ok = v[0];
		self.freeze_err_unreachable_dangling = v[1];
		self.freeze_err_other = v[2];
		self.mispredict = v[3];
		self.absent_operand = v[4];
		self.values_made = v[5];
		self.values_with_borrows = v[6];
		self.borrowed_parts = v[7];
		self.inspections = v[8];
		self.inspections_after_owner_gone = v[9];
		self.reads_compressed_ok = v[10];
		self.reads_ok = v[11];
		self.reads_err = v[12];
		self.reads_eof = v[13];
		self.remote_ops = v[14];
		self.panics = v[15];
		self.ser_ok = v[16];
		self.ser_err = v[17];
		self.reader_schema_used_after_reader_drop = v[18];
		self.freeze_err_unnamed_cycle = v[19];
		self.known_answers = v[20];
		self.reads_regrown_block = v[21];
		self.scratch_regrow_reads = v[22];
		self.dbg_panics = v[23];
	}
	pub fn to_line(&self) -> String {
		self.fields().iter().map(|(k, v)| format!("{k}={v}")).collect::<Vec<_>>().join(" ")
	}
	pub fn absorb_line(&mut self, line: &str) {
		let mut vals: Vec<u64> = self.fields().iter().map(|f| f.1).collect();
		let names: Vec<&'static str> = self.fields().iter().map(|f| f.0).collect();
		for kv in line.split_whitespace() {
			if let Some((k, v)) = kv.split_once('=') {
				if let (Some(i), Ok(n)) = (names.iter().position(|x| *x == k), v.parse::<u64>()) {
					vals[i] += n;
				}
			}
		}
		self.set(&vals);
	}
}

/// What the memory oracles inside the interpreter found (the detector finds the rest).
#[derive(Clone, Debug, PartialEq)]
pub struct Finding {
	pub class: &'static str,
	pub at_op: usize,
	pub detail: String,
}

pub struct World<'f> {
	fx: &'f Fixtures,
	/// parsed once per process and cloned by `Parse` / `ParseS` when set (Miri runs: parsing is safe
	/// code and costs 0.5 s per call there)
	proto: Option<&'f fixtures::Protos>,
	m: Option<SchemaMut>,
	m_state: fixtures::MState,
	/// does the schema in the slot describe SCHEMA_TEXT on the wire (known answers apply)?
	s_wire: bool,
	arc_wire: [bool; 2],
	c_wire: bool,
	s: Option<*mut Schema>,
	arcs: [Option<Arc<Schema>>; 2],
	/// was the handle obtained from a reader (directly or by cloning such a handle)?
	arc_from_reader: [bool; 2],
	c: Option<SerializerConfig<'static>>,
	r: Option<AnyReader>,
	r_codec: Option<fixtures::Codec>,
	r_sized: bool,
	r_reads: u32,
	r_scratch: Option<fixtures::ScratchSim>,
	r_variant: u8,
	r_nexts: u32,
	v: [Option<Val>; 2],
	step: usize,
	pub results: Vec<String>,
	pub findings: Vec<Finding>,
	pub counters: Counters,
}

/// Drop the borrower first, then (possibly) free the buffer it borrowed from - outside any call that
/// received the borrower by value.
/// (Taken through `&mut`: the borrows nested behind a reference are not protected.)
fn discard(val: &mut Option<Val>) {
	if let Some(Val { v, buf, .. }) = val.take() {
		drop(v);
		drop(buf);
	}
}
fn discard_reader(rd: &mut Option<AnyReader>) {
	match rd.take() {
		Some(AnyReader::Slice(r, b)) => {
			drop(r);
			drop(b);
		}
		Some(AnyReader::Buf(r)) => drop(r),
		Some(AnyReader::Chunked(r)) => drop(r),
		Some(AnyReader::Small(r)) => drop(r),
		None => {}
	}
}

fn outcome<T>(r: std::thread::Result<Result<T, ()>>) -> Result<Option<T>, ()> {
	match r {
		Ok(Ok(t)) => Ok(Some(t)),
		Ok(Err(())) => Ok(None),
		Err(_) => Err(()),
	}
}

impl<'f> World<'f> {
	pub fn new(fx: &'f Fixtures, proto: Option<&'f fixtures::Protos>) -> World<'f> {
		World {
			fx,
			proto,
			m: None,
			m_state: fixtures::MState::parsed(0),
			s_wire: false,
			arc_wire: [false, false],
			c_wire: false,
			s: None,
			arcs: [None, None],
			arc_from_reader: [false, false],
			c: None,
			r: None,
			r_codec: None,
			r_sized: false,
			r_reads: 0,
			r_scratch: None,
			r_variant: 0,
			r_nexts: 0,
			v: [None, None],
			step: 0,
			results: Vec::new(),
			findings: Vec::new(),
			counters: Counters::default(),
		}
	}

	fn schema_ref(&self, src: Src) -> Option<&'static Schema> {
		match src {
			// SAFETY: the pointer is live while it is in the slot; borrowers (C) are tracked by `Abs`
			Src::S => self.s.map(|p| unsafe { &*p }),
			// SAFETY: the Arc allocation lives at least as long as this handle
			Src::A | Src::B => self.arcs[src.arc_index().unwrap()].as_ref().map(|a| unsafe { &*Arc::as_ptr(a) }),
		}
	}

	fn parse_mut(&self, i: u8) -> Result<SchemaMut, ()> {
		match self.proto {
			Some(p) => p.get(i),
			None => fixtures::text(i).parse::<SchemaMut>().map_err(|_| ()),
		}
	}

	fn src_wire(&self, src: Src) -> bool {
		match src {
			Src::S => self.s_wire,
			Src::A => self.arc_wire[0],
			Src::B => self.arc_wire[1],
		}
	}

	/// The generator's picture of the graph must be the graph (machinery self-check).
	fn check_m_state(&mut self) {
		if let Some(m) = self.m.as_ref() {
			if fixtures::keys_of(m) != self.m_state.nodes {
				self.counters.mispredict += 1;
			}
		}
	}

	/// Known answers for a schema that is SCHEMA_TEXT on the wire: value 0 serialises to the fixture
	/// datum, value 2 is rejected, the fixture datum deserialises to value 0. A union node whose lookup
	/// table was never built fails these (the node is not "fully initialised").
	fn known_answer(&mut self, wire: bool, what: &str, got: &str, want: Option<String>) {
		if !wire {
			return;
		}
		self.counters.known_answers += 1;
		let ok = match &want {
			Some(w) => got == w,
			None => got.starts_with("ok:"),
		};
		if !ok {
			self.findings.push(Finding {
				class: "known-answer-differs",
				at_op: self.step,
				detail: format!("{what} on a schema that is {} on the wire gave {} instead of {}", "R{b:string,e:E,l:array<int>,u:[null,R]}", got, want.unwrap_or_else(|| "ok".to_owned())),
			});
		}
	}

	fn put_schema(&mut self, s: Schema) {
		debug_assert!(self.s.is_none());
		self.s = Some(Box::into_raw(Box::new(s)));
	}
	fn take_schema(&mut self) -> Option<Schema> {
		// SAFETY: created by Box::into_raw in put_schema; no borrower left (tracked by `Abs`)
		self.s.take().map(|p| unsafe { *Box::from_raw(p) })
	}

	/// NOTE (Stacked Borrows): a function that receives a value holding erased `&'static` borrows BY
	/// VALUE must not free the lender before it returns (the borrows are protected for the duration of
	/// the call, as they would be in a safe program, where the lender provably outlives the call). So a
	/// value that finds no free slot is handed back and taken apart by `discard`.
	fn store_value(&mut self, v: AnyVal, buf: Option<Rc<Buf>>) -> (String, Option<Val>) {
		let expected = v.debug();
		let b = v.borrows();
		self.counters.values_made += 1;
		if !b.is_empty() {
			self.counters.values_with_borrows += 1;
			self.counters.borrowed_parts += b.len() as u64;
		}
		let val = Val { v, buf, expected: expected.clone(), made_by: self.step };
		// check provenance right away (also for values that are dropped at once)
		self.check_value(&val);
		match self.v.iter().position(|x| x.is_none()) {
			Some(i) => {
				self.v[i] = Some(val);
				(expected, None)
			}
			None => (expected, Some(val)),
		}
	}

	fn check_value(&mut self, val: &Val) {
		self.counters.inspections += 1;
		// reading a corrupted value (dangling str) may panic inside fmt: that is a finding, not a crash
		let now = match catch_unwind(AssertUnwindSafe(|| val.v.debug())) {
			Ok(s) => s,
			Err(_) => "<panicked while reading the value>".to_owned(),
		};
		if now != val.expected {
			self.findings.push(Finding {
				class: "value-changed",
				at_op: self.step,
				detail: format!("value made by operation #{} was {} and now reads {}", val.made_by, val.expected, now),
			});
		}
		let range = val.buf.as_ref().map(|b| b.range());
		for (p, n) in val.v.borrows() {
			let inside = match range {
				Some((start, len)) => p >= start && p + n <= start + len,
				None => false,
			};
			// an empty str may legitimately point anywhere (e.g. a dangling static)
			if !inside && n > 0 {
				self.findings.push(Finding {
					class: "borrow-outside-input",
					at_op: self.step,
					detail: format!("value made by operation #{} ({}) holds a borrowed str/bytes of {n} bytes that does not point into its input buffer", val.made_by, val.expected),
				});
			}
		}
	}

	/// Oracle 3: every live value still reads the same and only borrows from its own input.
	pub fn inspect(&mut self) {
		for i in 0..2 {
			if let Some(val) = self.v[i].take() {
				self.check_value(&val);
				self.v[i] = Some(val);
			}
		}
	}

	fn ser_with(&mut self, cfg: &mut SerializerConfig<'static>, v: u8) -> String {
		let value = fixtures::value(v);
		match catch_unwind(AssertUnwindSafe(|| serde_avro_fast::to_datum_vec(&value, cfg))) {
			Ok(Ok(b)) => {
				self.counters.ser_ok += 1;
				format!("ok:{}", fixtures::hex(&b))
			}
			Ok(Err(_)) => {
				self.counters.ser_err += 1;
				"err".to_owned()
			}
			Err(_) => {
				self.counters.panics += 1;
				"panic".to_owned()
			}
		}
	}

	fn note_reader_schema_use(&mut self, src: Src) {
		if let Some(k) = src.arc_index() {
			if self.arc_from_reader[k] && self.r.is_none() {
				self.counters.reader_schema_used_after_reader_drop += 1;
			}
		}
	}

	/// Execute one operation; returns its result string (compared by the differential oracle).
	pub fn apply(&mut self, op: Op) -> String {
		let res = self.apply_inner(op);
		self.inspect();
		self.step += 1;
		self.results.push(res.clone());
		res
	}

	fn absent(&mut self) -> String {
		self.counters.absent_operand += 1;
		"absent".to_owned()
	}

	fn apply_inner(&mut self, op: Op) -> String {
		match op {
			Op::Parse(i) => match catch_unwind(AssertUnwindSafe(|| self.parse_mut(i))) {
				Ok(Ok(m)) => {
					self.m = Some(m);
					self.m_state = fixtures::MState::parsed(i);
					self.check_m_state();
					"ok".to_owned()
				}
				Ok(Err(())) => {
					self.counters.mispredict += 1;
					"err".to_owned()
				}
				Err(_) => {
					self.counters.panics += 1;
					"panic".to_owned()
				}
			},
			Op::Build(j) => {
				self.m = Some(fixtures::build_graph(j));
				self.m_state = fixtures::MState::built(j);
				self.check_m_state();
				"ok".to_owned()
			}
			Op::Edit(e) => match self.m.as_mut() {
				None => self.absent(),
				Some(m) => {
					let ok = fixtures::edit(m, e);
					let n = m.nodes().len();
					self.m_state.edit(e);
					self.check_m_state();
					if ok {
						format!("ok:{n}")
					} else {
						"noop".to_owned()
					}
				}
			},
			Op::Freeze => match self.m.take() {
				None => self.absent(),
				Some(m) => {
					let predicted = self.m_state.freezable();
					match catch_unwind(AssertUnwindSafe(|| m.freeze())) {
						Ok(Ok(s)) => {
							self.counters.freeze_ok += 1;
							if !predicted {
								if self.m_state.has_dangling_key() {
									self.findings.push(Finding {
										class: "freeze-accepted-dangling-key",
										at_op: self.step,
										detail: format!("freeze returned Ok for a graph of {} nodes in which a node holds a key >= {} (key structure {:?}): the frozen schema holds a node pointer outside its node storage", self.m_state.nodes.len(), self.m_state.nodes.len(), self.m_state.nodes),
									});
								} else {
									self.counters.mispredict += 1;
								}
							}
							let r = format!("ok:{}:{}", fixtures::hex(s.rabin_fingerprint()), s.json());
							if predicted {
								self.s_wire = self.m_state.wire_ok;
								self.put_schema(s);
							}
							r
						}
						Ok(Err(_)) => {
							self.counters.freeze_err_other += 1;
							if predicted {
								self.counters.mispredict += 1;
							}
							"err".to_owned()
						}
						Err(_) => {
							self.counters.panics += 1;
							"panic".to_owned()
						}
					}
				}
			},
			Op::ParseS(i) => {
				let r = catch_unwind(AssertUnwindSafe(|| match self.proto {
					Some(p) => p.get(i).and_then(|m| m.freeze().map_err(|_| ())),
					None => fixtures::text(i).parse::<Schema>().map_err(|_| ()),
				}));
				match r {
					Ok(Ok(s)) => {
						self.counters.freeze_ok += 1;
						let r = format!("ok:{}:{}", fixtures::hex(s.rabin_fingerprint()), s.json());
						self.s_wire = i == 0;
						self.put_schema(s);
						r
					}
					Ok(Err(())) => {
						self.counters.mispredict += 1;
						"err".to_owned()
					}
					Err(_) => {
						self.counters.panics += 1;
						"panic".to_owned()
					}
				}
			}
			Op::FreezeBad(g) => {
				let m = fixtures::bad_graph(g as usize);
				match catch_unwind(AssertUnwindSafe(|| m.freeze())) {
					Ok(Ok(_s)) => {
						if (g as usize) < fixtures::N_DANGLING {
							self.findings.push(Finding {
								class: "freeze-accepted-dangling-key",
								at_op: self.step,
								detail: format!("freeze returned Ok for [{}]: the frozen schema holds a node pointer outside its node storage", fixtures::describe_bad(g as usize)),
							});
						} else {
							self.counters.mispredict += 1;
						}
						"ok".to_owned()
					}
					Ok(Err(_)) => {
						if (g as usize) < fixtures::N_DANGLING {
							self.counters.freeze_err_unreachable_dangling += 1;
						} else if (g as usize) == fixtures::BAD_EMPTY {
							self.counters.freeze_err_other += 1;
						} else {
							self.counters.freeze_err_unnamed_cycle += 1;
						}
						"err".to_owned()
					}
					Err(_) => {
						self.counters.panics += 1;
						"panic".to_owned()
					}
				}
			}
			Op::Gather(kind) => {
				let schema = catch_unwind(AssertUnwindSafe(|| match self.proto {
					Some(p) => p.get(fixtures::N_TEXTS).and_then(|m| m.freeze().map_err(|_| ())),
					None => fixtures::GATHER_TEXT.parse::<Schema>().map_err(|_| ()),
				}));
				let Ok(Ok(schema)) = schema else {
					self.counters.mispredict += 1;
					return "schema-err".to_owned();
				};
				let datum = fixtures::gather_datum();
				let r = catch_unwind(AssertUnwindSafe(|| match kind {
					0 => serde_avro_fast::from_datum_reader::<_, fixtures::Gathered>(Chunked { data: datum, pos: 0, chunk: 5 }, &schema).map_err(|_| ()),
					_ => serde_avro_fast::from_datum_reader::<_, fixtures::Gathered>(std::io::BufReader::with_capacity(16, Cursor::new(datum)), &schema).map_err(|_| ()),
				}));
				// model: three gathered reads starting from an empty scratch buffer
				let mut sim = fixtures::ScratchSim::default();
				let regrow = fixtures::GATHER_LENS.iter().filter(|n| sim.read(**n)).count() as u64;
				let res = match r {
					Ok(Ok(g)) => {
						self.counters.scratch_regrow_reads += regrow;
						format!("ok:{g:?}")
					}
					Ok(Err(())) => "err".to_owned(),
					Err(_) => {
						self.counters.panics += 1;
						"panic".to_owned()
					}
				};
				let want = format!("ok:{:?}", fixtures::gather_expected());
				self.known_answer(true, "from_datum_reader over a reader that hands out a few bytes at a time", &res, Some(want));
				res
			}
			Op::DropM => {
				self.m = None;
				"-".to_owned()
			}
			Op::MoveS(kind) => match self.take_schema() {
				None => self.absent(),
				Some(s) => {
					let s = match kind {
						0 => {
							// by value into a Vec, which then reallocates, and out again
							let mut v: Vec<Schema> = Vec::with_capacity(1);
							v.push(s);
							v.reserve(16);
							let s = v.pop().unwrap();
							drop(v);
							s
						}
						_ => {
							self.counters.remote_ops += 1;
							let (tx, rx) = std::sync::mpsc::channel::<Schema>();
							let (tx2, rx2) = std::sync::mpsc::channel::<(Schema, usize)>();
							let t = std::thread::spawn(move || {
								let s = rx.recv().unwrap();
								let n = format!("{s:?}").len();
								tx2.send((s, n)).unwrap();
							});
							tx.send(s).unwrap();
							let (s, _n) = rx2.recv().unwrap();
							t.join().unwrap();
							s
						}
					};
					let r = format!("ok:{}:{}", fixtures::hex(s.rabin_fingerprint()), s.json().len());
					self.put_schema(s);
					r
				}
			},
			Op::DropS(w) => {
				if let Some(s) = self.take_schema() {
					if w == 0 {
						drop(s);
					} else {
						self.counters.remote_ops += 1;
						std::thread::spawn(move || drop(s)).join().unwrap();
					}
				} else {
					self.absent();
				}
				"-".to_owned()
			}
			Op::ArcNew => match self.take_schema() {
				None => self.absent(),
				Some(s) => {
					self.arcs[0] = Some(Arc::new(s));
					self.arc_from_reader[0] = false;
					self.arc_wire[0] = self.s_wire;
					"ok".to_owned()
				}
			},
			Op::ArcClone(from) => {
				let k = from.arc_index().unwrap();
				match self.arcs[k].as_ref().map(Arc::clone) {
					None => self.absent(),
					Some(a) => {
						let free = if self.arcs[0].is_none() { 0 } else { 1 };
						debug_assert!(self.arcs[free].is_none());
						self.arcs[free] = Some(a);
						self.arc_from_reader[free] = self.arc_from_reader[k];
						self.arc_wire[free] = self.arc_wire[k];
						"ok".to_owned()
					}
				}
			}
			Op::DropArc(s, w) => {
				let k = s.arc_index().unwrap();
				match self.arcs[k].take() {
					None => {
						self.absent();
					}
					Some(a) => {
						if w == 0 {
							drop(a);
						} else {
							self.counters.remote_ops += 1;
							std::thread::spawn(move || drop(a)).join().unwrap();
						}
					}
				}
				"-".to_owned()
			}
			Op::Cfg(src) => match self.schema_ref(src) {
				None => self.absent(),
				Some(s) => {
					self.c = Some(SerializerConfig::new(s));
					self.c_wire = self.src_wire(src);
					"ok".to_owned()
				}
			},
			Op::SerC(v) => match self.c.take() {
				None => self.absent(),
				Some(mut cfg) => {
					let r = self.ser_with(&mut cfg, v);
					self.c = Some(cfg);
					let want = match v {
						0 => Some(format!("ok:{}", fixtures::hex(&self.fx.datum))),
						2 => Some("err".to_owned()),
						_ => None,
					};
					self.known_answer(self.c_wire, "to_datum_vec with the long-lived SerializerConfig", &r, want);
					r
				}
			},
			Op::Ser(src) => match self.schema_ref(src) {
				None => self.absent(),
				Some(s) => {
					self.note_reader_schema_use(src);
					let mut cfg = SerializerConfig::new(s);
					let r = self.ser_with(&mut cfg, 0);
					let want = Some(format!("ok:{}", fixtures::hex(&self.fx.datum)));
					self.known_answer(self.src_wire(src), "to_datum_vec(&value0)", &r, want);
					r
				}
			},
			Op::DropC => {
				self.c = None;
				"-".to_owned()
			}
			Op::De(src, tgt) => match self.schema_ref(src) {
				None => self.absent(),
				Some(s) => {
					self.note_reader_schema_use(src);
					let buf = Buf::new(&self.fx.datum);
					let slice = buf.slice();
					let r: Result<Option<(AnyVal, bool)>, ()> = match tgt {
						Tgt::Owned => outcome(catch_unwind(AssertUnwindSafe(|| serde_avro_fast::from_datum_reader::<_, RecO>(slice, s).map(|v| (AnyVal::Owned(v), false)).map_err(|_| ())))),
						Tgt::Cow => outcome(catch_unwind(AssertUnwindSafe(|| serde_avro_fast::from_datum_slice::<Rec<'static>>(slice, s).map(|v| (AnyVal::Cow(v), true)).map_err(|_| ())))),
						Tgt::Any => outcome(catch_unwind(AssertUnwindSafe(|| serde_avro_fast::from_datum_slice::<Obs<'static>>(slice, s).map(|v| (AnyVal::Any(v), true)).map_err(|_| ())))),
						Tgt::Strict => outcome(catch_unwind(AssertUnwindSafe(|| serde_avro_fast::from_datum_slice::<RecRef<'static>>(slice, s).map(|v| (AnyVal::Strict(v), true)).map_err(|_| ())))),
						Tgt::Bad => outcome(catch_unwind(AssertUnwindSafe(|| serde_avro_fast::from_datum_slice::<Bad>(slice, s).map(|_| (AnyVal::Owned(RecO { b: String::new(), e: fixtures::Sym::X, l: vec![], u: None }), false)).map_err(|_| ())))),
					};
					let res = match r {
						Ok(Some((v, keeps_buf))) => {
							let (e, mut leftover) = self.store_value(v, keeps_buf.then_some(buf));
							discard(&mut leftover);
							format!("ok:{e}")
						}
						Ok(None) => "err".to_owned(),
						Err(()) => {
							self.counters.panics += 1;
							"panic".to_owned()
						}
					};
					let wire = self.src_wire(src);
					match tgt {
						Tgt::Cow => self.known_answer(wire, "from_datum_slice::<Rec>(fixture datum)", &res, Some(format!("ok:{:?}", fixtures::value(0)))),
						Tgt::Bad => self.known_answer(wire, "from_datum_slice::<Bad>(fixture datum)", &res, Some("err".to_owned())),
						_ => self.known_answer(wire, "deserialising the fixture datum", &res, None),
					}
					res
				}
			},
			Op::Dbg(src) => match self.schema_ref(src) {
				None => self.absent(),
				Some(s) => {
					self.note_reader_schema_use(src);
					match catch_unwind(AssertUnwindSafe(|| format!("{s:?}"))) {
						Ok(d) => d,
						Err(_) => {
							self.counters.panics += 1;
							"panic".to_owned()
						}
					}
				}
			},
			Op::DbgPanic(src, mode) => match self.schema_ref(src) {
				None => self.absent(),
				Some(s) => {
					self.note_reader_schema_use(src);
					self.counters.dbg_panics += 1;
					struct Sink {
						out: String,
						left: usize,
					}
					impl std::fmt::Write for Sink {
						fn write_str(&mut self, x: &str) -> std::fmt::Result {
							if self.left == 0 {
								panic!("sink refuses to write");
							}
							self.left -= 1;
							self.out.push_str(x);
							Ok(())
						}
					}
					struct RenderOnDrop<'a>(&'a Schema, &'a mut String);
					impl Drop for RenderOnDrop<'_> {
						fn drop(&mut self) {
							*self.1 = format!("{:?}", self.0);
						}
					}
					match mode {
						0 | 1 => {
							let mut sink = Sink { out: String::new(), left: if mode == 0 { 0 } else { 2 } };
							let r = catch_unwind(AssertUnwindSafe(|| {
								use std::fmt::Write;
								write!(sink, "{s:?}")
							}));
							format!("{}:{}", if r.is_err() { "panicked" } else { "completed" }, sink.out)
						}
						_ => {
							let mut text = String::new();
							let r = catch_unwind(AssertUnwindSafe(|| {
								let _g = RenderOnDrop(s, &mut text);
								panic!("unwinding through the guard");
							}));
							format!("{}:{text}", if r.is_err() { "rendered-while-unwinding" } else { "no-panic" })
						}
					}
				}
			},
			Op::DropV(i) => {
				if self.v[i as usize].take().is_none() {
					self.absent();
				}
				"-".to_owned()
			}
			Op::Open(kind, codec, variant) => {
				let Some(file) = self.fx.file(codec, variant) else { return "nofixture".to_owned() };
				let r: Result<Option<AnyReader>, ()> = match kind {
					RKind::Slice => {
						let buf = Buf::new(file);
						let slice = buf.slice();
						outcome(catch_unwind(AssertUnwindSafe(|| Reader::from_slice(slice).map(|r| AnyReader::Slice(r, buf)).map_err(|_| ()))))
					}
					RKind::Buf => outcome(catch_unwind(AssertUnwindSafe(|| Reader::from_reader(Cursor::new(file.clone())).map(AnyReader::Buf).map_err(|_| ())))),
					RKind::Chunked => {
						outcome(catch_unwind(AssertUnwindSafe(|| Reader::from_reader(Chunked { data: file.clone(), pos: 0, chunk: 5 }).map(AnyReader::Chunked).map_err(|_| ()))))
					}
					RKind::Small => outcome(catch_unwind(AssertUnwindSafe(|| Reader::from_reader(std::io::BufReader::with_capacity(16, Cursor::new(file.clone()))).map(AnyReader::Small).map_err(|_| ())))),
				};
				// model of the ReaderRead's scratch buffer: only readers whose BufRead hands out less than a
				// value at a time gather, and only outside compressed blocks
				self.r_scratch = match (kind, codec) {
					(RKind::Chunked | RKind::Small, fixtures::Codec::Null) => Some(fixtures::ScratchSim::after_header("null".len())),
					_ => None,
				};
				self.r_variant = variant;
				self.r_nexts = 0;
				match r {
					Ok(Some(r)) => {
						self.r = Some(r);
						self.r_codec = Some(codec);
						self.r_sized = variant == 1;
						self.r_reads = 0;
						"ok".to_owned()
					}
					Ok(None) => "err".to_owned(),
					Err(()) => {
						self.counters.panics += 1;
						"panic".to_owned()
					}
				}
			}
			Op::Next(tgt) => match self.r.take() {
				None => self.absent(),
				Some(mut rd) => {
					// (value, buffer it may borrow from)
					let r: Result<Option<Option<(AnyVal, Option<Rc<Buf>>)>>, ()> = match &mut rd {
						AnyReader::Slice(r, buf) => {
							let keep = Some(buf.clone());
							match tgt {
								Tgt::Owned => outcome(catch_unwind(AssertUnwindSafe(|| r.deserialize_next::<RecO>().map(|o| o.map(|v| (AnyVal::Owned(v), None))).map_err(|_| ())))),
								Tgt::Cow => outcome(catch_unwind(AssertUnwindSafe(|| r.deserialize_next_borrowed::<Rec<'static>>().map(|o| o.map(|v| (AnyVal::Cow(v), keep))).map_err(|_| ())))),
								Tgt::Any => outcome(catch_unwind(AssertUnwindSafe(|| r.deserialize_next_borrowed::<Obs<'static>>().map(|o| o.map(|v| (AnyVal::Any(v), keep))).map_err(|_| ())))),
								Tgt::Strict => outcome(catch_unwind(AssertUnwindSafe(|| r.deserialize_next_borrowed::<RecRef<'static>>().map(|o| o.map(|v| (AnyVal::Strict(v), keep))).map_err(|_| ())))),
								Tgt::Bad => outcome(catch_unwind(AssertUnwindSafe(|| r.deserialize_next::<Bad>().map(|o| o.map(|_| (AnyVal::Owned(RecO { b: "bad-target-succeeded".into(), e: fixtures::Sym::X, l: vec![], u: None }), None))).map_err(|_| ())))),
							}
						}
						AnyReader::Buf(r) => match tgt {
							Tgt::Bad => outcome(catch_unwind(AssertUnwindSafe(|| r.deserialize_next::<Bad>().map(|o| o.map(|_| (AnyVal::Owned(RecO { b: "bad-target-succeeded".into(), e: fixtures::Sym::X, l: vec![], u: None }), None))).map_err(|_| ())))),
							_ => outcome(catch_unwind(AssertUnwindSafe(|| r.deserialize_next::<RecO>().map(|o| o.map(|v| (AnyVal::Owned(v), None))).map_err(|_| ())))),
						},
						AnyReader::Chunked(r) => match tgt {
							Tgt::Bad => outcome(catch_unwind(AssertUnwindSafe(|| r.deserialize_next::<Bad>().map(|o| o.map(|_| (AnyVal::Owned(RecO { b: "bad-target-succeeded".into(), e: fixtures::Sym::X, l: vec![], u: None }), None))).map_err(|_| ())))),
							_ => outcome(catch_unwind(AssertUnwindSafe(|| r.deserialize_next::<RecO>().map(|o| o.map(|v| (AnyVal::Owned(v), None))).map_err(|_| ())))),
						},
						AnyReader::Small(r) => match tgt {
							Tgt::Bad => outcome(catch_unwind(AssertUnwindSafe(|| r.deserialize_next::<Bad>().map(|o| o.map(|_| (AnyVal::Owned(RecO { b: "bad-target-succeeded".into(), e: fixtures::Sym::X, l: vec![], u: None }), None))).map_err(|_| ())))),
							_ => outcome(catch_unwind(AssertUnwindSafe(|| r.deserialize_next::<RecO>().map(|o| o.map(|v| (AnyVal::Owned(v), None))).map_err(|_| ())))),
						},
					};
					// the string field of the next record is gathered first, whatever the target
					let k = self.r_nexts as usize;
					self.r_nexts += 1;
					let lens: Vec<usize> = match self.r_variant {
						0 => vec![fixtures::value(0).b.len(), fixtures::value(1).b.len()],
						v => fixtures::file_lens(v),
					};
					let regrow = match (self.r_scratch.as_mut(), lens.get(k)) {
						(Some(s), Some(n)) => s.read(*n),
						_ => false,
					};
					self.r = Some(rd);
					match r {
						Ok(Some(Some((v, buf)))) => {
							self.counters.reads_ok += 1;
							self.r_reads += 1;
							if regrow {
								self.counters.scratch_regrow_reads += 1;
							}
							if self.r_codec != Some(fixtures::Codec::Null) {
								self.counters.reads_compressed_ok += 1;
								if self.r_sized && self.r_reads >= 3 {
									self.counters.reads_regrown_block += 1;
								}
							}
							let (e, mut leftover) = self.store_value(v, buf);
							discard(&mut leftover);
							format!("some:{e}")
						}
						Ok(Some(None)) => {
							self.counters.reads_eof += 1;
							"none".to_owned()
						}
						Ok(None) => {
							self.counters.reads_err += 1;
							"err".to_owned()
						}
						Err(()) => {
							self.counters.panics += 1;
							"panic".to_owned()
						}
					}
				}
			},
			Op::RSchema => match self.r.as_ref() {
				None => self.absent(),
				Some(rd) => {
					let a: Arc<Schema> = match rd {
						AnyReader::Slice(r, _) => r.schema().clone(),
						AnyReader::Buf(r) => r.schema().clone(),
						AnyReader::Chunked(r) => r.schema().clone(),
						AnyReader::Small(r) => r.schema().clone(),
					};
					let res = format!("ok:{}:{}", fixtures::hex(a.rabin_fingerprint()), a.json());
					let free = if self.arcs[0].is_none() { 0 } else { 1 };
					debug_assert!(self.arcs[free].is_none());
					self.arcs[free] = Some(a);
					self.arc_from_reader[free] = true;
					self.arc_wire[free] = true;
					res
				}
			},
			Op::MoveR => match self.r.take() {
				None => self.absent(),
				Some(rd) => {
					self.counters.remote_ops += 1;
					fn via_thread<T: Send + 'static>(t: T) -> T {
						let (tx, rx) = std::sync::mpsc::channel::<T>();
						let (tx2, rx2) = std::sync::mpsc::channel::<T>();
						let h = std::thread::spawn(move || {
							let t = rx.recv().unwrap();
							// move it once more on the other side
							let b = Box::new(t);
							tx2.send(*b).unwrap();
						});
						tx.send(t).unwrap();
						let t = rx2.recv().unwrap();
						h.join().unwrap();
						t
					}
					self.r = Some(match rd {
						AnyReader::Slice(r, b) => AnyReader::Slice(via_thread(r), b),
						AnyReader::Buf(r) => AnyReader::Buf(via_thread(r)),
						AnyReader::Chunked(r) => AnyReader::Chunked(via_thread(r)),
						AnyReader::Small(r) => AnyReader::Small(via_thread(r)),
					});
					"ok".to_owned()
				}
			},
			Op::DropR(w) => {
				match self.r.take() {
					None => {
						self.absent();
					}
					Some(rd) => {
						if w == 0 {
							discard_reader(&mut Some(rd));
						} else {
							self.counters.remote_ops += 1;
							fn remote_drop<T: Send + 'static>(t: T) {
								std::thread::spawn(move || drop(t)).join().unwrap();
							}
							match rd {
								AnyReader::Slice(r, b) => {
									remote_drop(r);
									drop(b);
								}
								AnyReader::Buf(r) => remote_drop(r),
								AnyReader::Chunked(r) => remote_drop(r),
								AnyReader::Small(r) => remote_drop(r),
							}
						}
					}
				}
				self.r_codec = None;
				"-".to_owned()
			}
		}
	}

	/// Canonical clean-up at the end of a history: every schema owner / user goes first, then the
	/// surviving values are inspected once more (oracle 3) and dropped, their input buffers last.
	pub fn finish(&mut self) -> (Vec<String>, Vec<Finding>, Counters) {
		self.c = None;
		self.r = None;
		if let Some(s) = self.take_schema() {
			drop(s);
		}
		self.arcs = [None, None];
		self.m = None;
		let live = self.v.iter().filter(|v| v.is_some()).count() as u64;
		self.inspect();
		self.counters.inspections_after_owner_gone += live;
		self.v = [None, None];
		(std::mem::take(&mut self.results), std::mem::take(&mut self.findings), self.counters.clone())
	}
}

impl Drop for World<'_> {
	fn drop(&mut self) {
		// borrowers before lenders
		self.c = None;
		self.r = None;
		if let Some(s) = self.take_schema() {
			drop(s);
		}
	}
}
