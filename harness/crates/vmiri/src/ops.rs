//! Operation alphabet of C10 histories, the abstract resource tracker that decides which operation
//! sequences the borrow checker would admit, and the deterministic enumeration of all histories up
//! to a depth.
//!
//! Slots (the pool): M (one `SchemaMut`), S (one owned `Schema`), A and B (two `Arc<Schema>` handles),
//! C (one `SerializerConfig<'s>` borrowing S, A or B), R (one container `Reader`), V0/V1 (two values).
//!
//! What the tracker enforces is only what rustc would: a `SerializerConfig` must die before the schema
//! handle it borrows (so that handle can be neither dropped, moved nor consumed while C lives); a
//! borrowed value / slice reader keeps its input buffer alive (buffers are reference counted by the
//! interpreter, so this never restricts the order of operations). Everything else is free: values may
//! outlive schema and reader, Arc handles may be dropped in any order on any thread, and so on.

use crate::fixtures::{self, Codec};

#[derive(Clone, Copy, Debug, PartialEq, Eq, Hash, PartialOrd, Ord)]
pub enum Src {
	S,
	A,
	B,
}
impl Src {
	pub const ALL: [Src; 3] = [Src::S, Src::A, Src::B];
	pub fn letter(self) -> char {
		match self {
			Src::S => 's',
			Src::A => 'a',
			Src::B => 'b',
		}
	}
	pub fn from_letter(c: char) -> Option<Src> {
		Src::ALL.iter().copied().find(|s| s.letter() == c)
	}
	pub fn arc_index(self) -> Option<usize> {
		match self {
			Src::S => None,
			Src::A => Some(0),
			Src::B => Some(1),
		}
	}
}

/// Deserialisation targets.
#[derive(Clone, Copy, Debug, PartialEq, Eq, Hash, PartialOrd, Ord)]
pub enum Tgt {
	/// `RecO`, through the owned API (`from_datum_reader` / `deserialize_next`)
	Owned,
	/// `Rec<'a>` with `Cow` fields, through the borrowing API
	Cow,
	/// `Obs<'a>` through `deserialize_any`, borrowing API (sees field names and enum symbols)
	Any,
	/// `RecRef<'a>` with `&'a str`: fails when the input cannot be borrowed
	Strict,
	/// `Bad`: type mismatch in the middle of the record
	Bad,
}
impl Tgt {
	pub const ALL: [Tgt; 5] = [Tgt::Owned, Tgt::Cow, Tgt::Any, Tgt::Strict, Tgt::Bad];
	pub fn letter(self) -> char {
		match self {
			Tgt::Owned => 'o',
			Tgt::Cow => 'c',
			Tgt::Any => 'y',
			Tgt::Strict => 't',
			Tgt::Bad => 'x',
		}
	}
	pub fn from_letter(c: char) -> Option<Tgt> {
		Tgt::ALL.iter().copied().find(|s| s.letter() == c)
	}
	/// Needs the borrowing API (`from_datum_slice`, `deserialize_next_borrowed`: slice readers only).
	pub fn borrowing(self) -> bool {
		matches!(self, Tgt::Cow | Tgt::Any | Tgt::Strict)
	}
}

#[derive(Clone, Copy, Debug, PartialEq, Eq, Hash, PartialOrd, Ord)]
pub enum RKind {
	/// `Reader::from_slice`
	Slice,
	/// `Reader::from_reader(Cursor<Vec<u8>>)`
	Buf,
	/// `Reader::from_reader` over a `BufRead` that hands out 5 bytes at a time
	Chunked,
	/// `Reader::from_reader(BufReader::with_capacity(16, Cursor<Vec<u8>>))`
	Small,
}
impl RKind {
	pub const ALL: [RKind; 4] = [RKind::Slice, RKind::Buf, RKind::Chunked, RKind::Small];
	pub fn letter(self) -> char {
		match self {
			RKind::Slice => 'l',
			RKind::Buf => 'u',
			RKind::Chunked => 'k',
			RKind::Small => 'm',
		}
	}
	pub fn from_letter(c: char) -> Option<RKind> {
		RKind::ALL.iter().copied().find(|s| s.letter() == c)
	}
}

#[derive(Clone, Copy, Debug, PartialEq, Eq, Hash, PartialOrd, Ord)]
pub enum Op {
	/// M <- text(i).parse::<SchemaMut>()
	Parse(u8),
	/// M <- SchemaMut::from_nodes(graph j) (all freezable; see `fixtures::build_spec`)
	Build(u8),
	/// edit M through `nodes_mut()` (see `fixtures::edit`)
	Edit(u8),
	/// S <- M.freeze() (ok or error path, M is consumed either way)
	Freeze,
	/// S <- text(i).parse::<Schema>()
	ParseS(u8),
	/// SchemaMut::from_nodes(bad graph g).freeze(): the error path of freeze, nothing is kept
	FreezeBad(u8),
	/// from_datum_reader::<_, Gathered>(reader, &GATHER_TEXT.parse::<Schema>()) over a reader that hands out
	/// a few bytes at a time (0: 5-byte chunks, 1: BufReader::with_capacity(16, ..)): three gathered reads of
	/// 100 / 150 / 250 bytes on one `ReaderRead`; nothing is kept
	Gather(u8),
	DropM,
	/// move the owned Schema: 0 = out of its Box into a Vec that then reallocates, and back into a new
	/// Box; 1 = through a channel to another thread (which uses it) and back
	MoveS(u8),
	/// drop the owned schema: 0 here, 1 on another thread
	DropS(u8),
	/// A <- Arc::new(S)
	ArcNew,
	/// clone one Arc handle into the other (free) handle slot: ArcClone(from)
	ArcClone(Src),
	/// drop an Arc handle: where 0 here, 1 on another thread
	DropArc(Src, u8),
	/// C <- SerializerConfig::new(&src)
	Cfg(Src),
	/// serialise value v with the long-lived configuration C
	SerC(u8),
	/// serialise value 0 with a fresh configuration on src
	Ser(Src),
	DropC,
	/// V <- from_datum_slice / from_datum_reader (Tgt::Owned) with the schema in src
	De(Src, Tgt),
	/// Debug-format the schema in src
	Dbg(Src),
	/// Debug-format the schema in src while a panic is in flight: 0 / 1 = into a `fmt::Write` sink that
	/// panics on its 1st / 3rd write (under catch_unwind); 2 = from the destructor of a guard that is dropped
	/// by a panic (under catch_unwind). Native extras only.
	DbgPanic(Src, u8),
	DropV(u8),
	/// R <- Reader::from_slice / from_reader over the container file of the codec
	/// (the third field selects the file: 0 = two small blocks, 1 = four blocks whose decompressed sizes go
	/// up / down / up beyond the first / up, see `fixtures::SIZED_LENS`)
	Open(RKind, Codec, u8),
	/// V <- next value of R
	Next(Tgt),
	/// B <- R.schema().clone()  (into the first free Arc handle slot)
	RSchema,
	/// move R through a channel to another thread and back
	MoveR,
	/// drop the reader: 0 here, 1 on another thread
	DropR(u8),
}

impl Op {
	pub fn token(self) -> String {
		match self {
			Op::Parse(i) => format!("Pm{i}"),
			Op::Build(j) => format!("Bm{j}"),
			Op::Edit(e) => format!("Ed{e}"),
			Op::Freeze => "Fz".into(),
			Op::ParseS(i) => format!("Ps{i}"),
			Op::FreezeBad(g) => format!("Fb{g}"),
			Op::Gather(k) => format!("Ga{k}"),
			Op::DropM => "Xm".into(),
			Op::MoveS(k) => format!("Mv{k}"),
			Op::DropS(w) => format!("Xs{w}"),
			Op::ArcNew => "An".into(),
			Op::ArcClone(s) => format!("Ac{}", s.letter()),
			Op::DropArc(s, w) => format!("Xa{}{w}", s.letter()),
			Op::Cfg(s) => format!("Cf{}", s.letter()),
			Op::SerC(v) => format!("Sc{v}"),
			Op::Ser(s) => format!("Se{}", s.letter()),
			Op::DropC => "Xc".into(),
			Op::De(s, t) => format!("De{}{}", s.letter(), t.letter()),
			Op::Dbg(s) => format!("Dg{}", s.letter()),
			Op::DbgPanic(s, m) => format!("Dp{}{m}", s.letter()),
			Op::DropV(i) => format!("Xv{i}"),
			Op::Open(k, c, 0) => format!("Op{}{}", k.letter(), c.letter()),
			Op::Open(k, c, f) => format!("Op{}{}{f}", k.letter(), c.letter()),
			Op::Next(t) => format!("Nx{}", t.letter()),
			Op::RSchema => "Rs".into(),
			Op::MoveR => "Mr".into(),
			Op::DropR(w) => format!("Xr{w}"),
		}
	}
	pub fn parse(tok: &str) -> Option<Op> {
		let head = tok.get(..2)?;
		let rest: Vec<char> = tok.get(2..)?.chars().collect();
		let num = |i: usize| -> Option<u8> { tok.get(2 + i..)?.parse().ok() };
		let ch = |i: usize| -> Option<char> { rest.get(i).copied() };
		let only = |n: usize| -> Option<()> { (rest.len() == n).then_some(()) };
		Some(match head {
			"Pm" => Op::Parse(if rest.is_empty() { 0 } else { num(0).filter(|i| *i < fixtures::N_TEXTS)? }),
			"Bm" => Op::Build(if rest.is_empty() { 0 } else { num(0).filter(|i| *i < fixtures::N_BUILDS)? }),
			"Ed" => Op::Edit(num(0).filter(|e| *e < fixtures::N_EDITS)?),
			"Fz" => only(0).map(|_| Op::Freeze)?,
			"Ps" => Op::ParseS(if rest.is_empty() { 0 } else { num(0).filter(|i| *i < fixtures::N_TEXTS)? }),
			"Fb" => Op::FreezeBad(num(0).filter(|g| (*g as usize) < fixtures::N_BAD)?),
			"Ga" => Op::Gather(num(0).filter(|k| *k < 2)?),
			"Xm" => only(0).map(|_| Op::DropM)?,
			"Mv" => Op::MoveS(num(0).filter(|k| *k < 2)?),
			"Xs" => Op::DropS(num(0).filter(|k| *k < 2)?),
			"An" => only(0).map(|_| Op::ArcNew)?,
			"Ac" => only(1).and_then(|_| Src::from_letter(ch(0)?)).filter(|s| *s != Src::S).map(Op::ArcClone)?,
			"Xa" => Op::DropArc(Src::from_letter(ch(0)?).filter(|s| *s != Src::S)?, num(1).filter(|k| *k < 2)?),
			"Cf" => only(1).and_then(|_| Src::from_letter(ch(0)?)).map(Op::Cfg)?,
			"Sc" => Op::SerC(num(0).filter(|v| *v < 3)?),
			"Se" => only(1).and_then(|_| Src::from_letter(ch(0)?)).map(Op::Ser)?,
			"Xc" => only(0).map(|_| Op::DropC)?,
			"De" => only(2).map(|_| ()).and_then(|_| Some(Op::De(Src::from_letter(ch(0)?)?, Tgt::from_letter(ch(1)?)?)))?,
			"Dg" => only(1).and_then(|_| Src::from_letter(ch(0)?)).map(Op::Dbg)?,
			"Dp" => Op::DbgPanic(Src::from_letter(ch(0)?)?, num(1).filter(|m| *m < 3)?),
			"Xv" => Op::DropV(num(0).filter(|v| *v < 2)?),
			"Op" => Op::Open(RKind::from_letter(ch(0)?)?, Codec::from_letter(ch(1)?)?, if rest.len() == 2 { 0 } else { num(2).filter(|f| *f < fixtures::N_FILE_VARIANTS)? }),
			"Nx" => only(1).and_then(|_| Tgt::from_letter(ch(0)?)).map(Op::Next)?,
			"Rs" => only(0).map(|_| Op::RSchema)?,
			"Mr" => only(0).map(|_| Op::MoveR)?,
			"Xr" => Op::DropR(num(0).filter(|k| *k < 2)?),
			_ => return None,
		})
	}
}

impl Op {
	/// Human-readable form, as one would write the call in a Rust program.
	pub fn describe(self) -> String {
		let wh = |w: u8| if w == 0 { "" } else { " on another thread" };
		let src = |s: Src| match s {
			Src::S => "schema",
			Src::A => "arc_a",
			Src::B => "arc_b",
		};
		match self {
			Op::Parse(i) => format!("m = {:?}.parse::<SchemaMut>()", fixtures::text(i)),
			Op::Build(j) => format!("m = SchemaMut::from_nodes({})", fixtures::describe_build(j)),
			Op::Edit(e) => format!(
				"m.nodes_mut(): {}",
				[
					"push unreachable map node -> new int node",
					"push unreachable array node whose key is the new nodes.len()",
					"retarget field 0 of the root record to a new string node",
					"retarget field 0 of the root record to key 1000",
					"clear()",
					"re-point the last field of the root record to where field 0 points (its old target becomes unreachable)",
					"pop()"
				][e as usize]
			),
			Op::Freeze => "schema = m.freeze()".into(),
			Op::ParseS(i) => format!("schema = {:?}.parse::<Schema>()", fixtures::text(i)),
			Op::FreezeBad(g) => format!("SchemaMut::from_nodes({}).freeze()", fixtures::describe_bad(g as usize)),
			Op::Gather(k) => format!(
				"from_datum_reader::<_, G>({}, &record G{{a,b,c: string}}) on strings of 100 / 150 / 250 bytes",
				if k == 0 { "BufRead handing out 5 bytes at a time" } else { "BufReader::with_capacity(16, Cursor)" }
			),
			Op::DropM => "drop(m)".into(),
			Op::MoveS(0) => "move schema into a Vec that reallocates, pop it, re-box it".into(),
			Op::MoveS(_) => "send schema through a channel to another thread (which Debug-formats it) and back".into(),
			Op::DropS(w) => format!("drop(schema){}", wh(w)),
			Op::ArcNew => "arc_a = Arc::new(schema)".into(),
			Op::ArcClone(s) => format!("<free arc slot> = {}.clone()", src(s)),
			Op::DropArc(s, w) => format!("drop({}){}", src(s), wh(w)),
			Op::Cfg(s) => format!("config = SerializerConfig::new(&{})", src(s)),
			Op::SerC(v) => format!("to_datum_vec(&value{v}, &mut config)"),
			Op::Ser(s) => format!("to_datum_vec(&value0, &mut SerializerConfig::new(&{}))", src(s)),
			Op::DropC => "drop(config)".into(),
			Op::De(s, Tgt::Owned) => format!("v = from_datum_reader::<_, RecO>(datum, &{})", src(s)),
			Op::De(s, t) => format!("v = from_datum_slice::<{t:?}>(datum, &{})", src(s)),
			Op::Dbg(s) => format!("format!(\"{{:?}}\", {})", src(s)),
			Op::DbgPanic(s, m) => match m {
				0 => format!("catch_unwind(|| write!(sink that panics on its 1st write, \"{{:?}}\", {}))", src(s)),
				1 => format!("catch_unwind(|| write!(sink that panics on its 3rd write, \"{{:?}}\", {}))", src(s)),
				_ => format!("catch_unwind(|| {{ let _g = guard whose Drop does format!(\"{{:?}}\", {}); panic!() }})", src(s)),
			},
			Op::DropV(i) => format!("drop(v{i})"),
			Op::Open(k, c, f) => {
				let file = match f {
					0 => String::new(),
					_ => format!(" with 4 one-record blocks of {:?}-byte strings", fixtures::file_lens(f)),
				};
				if k == RKind::Slice {
					format!("reader = Reader::from_slice({c:?} file{file})")
				} else {
					format!("reader = Reader::from_reader({k:?} over {c:?} file{file})")
				}
			}
			Op::Next(t) if t.borrowing() => format!("v = reader.deserialize_next_borrowed::<{t:?}>()"),
			Op::Next(t) => format!("v = reader.deserialize_next::<{t:?}>()"),
			Op::RSchema => "<free arc slot> = reader.schema().clone()".into(),
			Op::MoveR => "send reader through a channel to another thread and back".into(),
			Op::DropR(w) => format!("drop(reader){}", wh(w)),
		}
	}
}

pub fn describe_history(h: &[Op]) -> String {
	h.iter().map(|o| o.describe()).collect::<Vec<_>>().join("; ")
}

pub fn history_token(h: &[Op]) -> String {
	h.iter().map(|o| o.token()).collect::<Vec<_>>().join(".")
}
pub fn parse_history(s: &str) -> Option<Vec<Op>> {
	if s.is_empty() || s == "-" {
		return Some(Vec::new());
	}
	s.split('.').map(Op::parse).collect()
}

/// Which part of the alphabet is enumerated.
#[derive(Clone, Debug)]
pub struct Profile {
	pub name: &'static str,
	pub depth: usize,
	/// (reader kind, codec) pairs offered to Open (file 0)
	pub opens: Vec<(RKind, Codec)>,
	/// (reader kind, codec) pairs offered to Open with the "sized" file (file 1)
	pub opens_sized: Vec<(RKind, Codec)>,
	/// (reader kind, codec) pairs offered to Open with file 2 (strings that make a gathering
	/// `ReaderRead` grow its scratch buffer after an amortised growth)
	pub opens_gather: Vec<(RKind, Codec)>,
	/// variants offered to Gather
	pub gathers: Vec<u8>,
	/// schema texts offered to Parse / ParseS
	pub texts: Vec<u8>,
	/// graphs offered to Build
	pub builds: Vec<u8>,
	/// bad graphs offered to FreezeBad
	pub bad_graphs: Vec<u8>,
	pub edits: Vec<u8>,
	/// targets of datum deserialisation
	pub de_targets: Vec<Tgt>,
	/// targets of reader `Next`
	pub next_targets: Vec<Tgt>,
	/// values offered to SerC
	pub serc_values: Vec<u8>,
	/// enumerate the "on another thread" variants of DropS / DropR
	pub remote_drops: bool,
	/// enumerate the "on another thread" variant of DropArc
	pub remote_arc_drops: bool,
	pub move_kinds: Vec<u8>,
}

fn product(kinds: &[RKind], codecs: &[Codec]) -> Vec<(RKind, Codec)> {
	kinds.iter().flat_map(|k| codecs.iter().map(move |c| (*k, *c))).collect()
}

impl Profile {
	/// Native sweep, quick tier (also swept one level deeper in the thorough tier).
	pub fn wide() -> Profile {
		let n = fixtures::N_GOOD;
		let bi = fixtures::bad_index;
		Profile {
			name: "wide",
			depth: 4,
			opens: product(&[RKind::Slice, RKind::Buf], &Codec::PURE),
			opens_sized: vec![(RKind::Slice, Codec::Snappy), (RKind::Buf, Codec::Snappy), (RKind::Buf, Codec::Deflate)],
			opens_gather: vec![(RKind::Chunked, Codec::Null), (RKind::Small, Codec::Null)],
			gathers: vec![0],
			texts: vec![0, 2],
			builds: vec![0, 1],
			// key = len at every position for the array kind; the other kinds at the last (and the union
			// also at the first) position with the three key classes; the empty graph; one unnamed cycle
			// (every bad graph runs alone in `extras`)
			bad_graphs: (1..=n).map(|pos| bi('A', pos, 0)).chain([bi('M', n, 1), bi('U', n, 0), bi('U', 1, 0), bi('R', n, 2), fixtures::BAD_EMPTY as u8, fixtures::BAD_EMPTY as u8 + 1]).collect(),
			edits: (0..fixtures::N_EDITS).collect(),
			de_targets: vec![Tgt::Owned, Tgt::Cow, Tgt::Any],
			next_targets: vec![Tgt::Owned, Tgt::Cow, Tgt::Any, Tgt::Bad],
			serc_values: vec![0, 2],
			remote_drops: true,
			remote_arc_drops: true,
			move_kinds: vec![0, 1],
		}
	}
	/// Native / AddressSanitizer sweep of the thorough tier: every codec, reader kind, bad graph, target.
	pub fn full() -> Profile {
		let mut opens = product(&[RKind::Slice, RKind::Buf], &Codec::ALL);
		opens.extend(product(&[RKind::Chunked], &[Codec::Null, Codec::Snappy, Codec::Zstd]));
		Profile {
			name: "full",
			depth: 4,
			opens,
			opens_sized: {
				let mut v = product(&[RKind::Slice], &Codec::ALL);
				v.extend([(RKind::Buf, Codec::Snappy), (RKind::Buf, Codec::Zstd), (RKind::Chunked, Codec::Snappy)]);
				v
			},
			opens_gather: vec![(RKind::Chunked, Codec::Null), (RKind::Small, Codec::Null), (RKind::Chunked, Codec::Deflate), (RKind::Small, Codec::Snappy)],
			// (variant 0 is in `wide`)
			gathers: vec![1],
			texts: (0..fixtures::N_TEXTS).collect(),
			builds: (0..fixtures::N_BUILDS).collect(),
			// every kind x key class at the last position, every position for the union kind with key =
			// len, the empty graph, every unnamed cycle (all 89 bad graphs run alone in `extras`)
			bad_graphs: {
				let n = fixtures::N_GOOD;
				let mut v: Vec<u8> = fixtures::BAD_KINDS.iter().flat_map(|k| (0..fixtures::N_BAD_KEYS).map(move |c| fixtures::bad_index(*k, n, c))).collect();
				v.extend((1..n).map(|pos| fixtures::bad_index('U', pos, 0)));
				v.extend((fixtures::BAD_EMPTY..fixtures::N_BAD).map(|g| g as u8));
				v
			},
			edits: (0..fixtures::N_EDITS).collect(),
			de_targets: Tgt::ALL.to_vec(),
			next_targets: Tgt::ALL.to_vec(),
			serc_values: vec![0, 1, 2],
			remote_drops: true,
			remote_arc_drops: true,
			move_kinds: vec![0, 1],
		}
	}
	/// The C-codec part of `full` (valgrind pass): only the C codecs are opened.
	pub fn ccodecs() -> Profile {
		let mut p = Profile::core();
		p.name = "ccodecs";
		p.depth = 4;
		p.opens = product(&[RKind::Slice, RKind::Buf], &[Codec::Bzip2, Codec::Xz, Codec::Zstd]);
		p.opens_sized = product(&[RKind::Slice], &[Codec::Bzip2, Codec::Xz, Codec::Zstd]);
		p
	}
	/// The alphabet Miri sweeps exhaustively (pure-Rust codecs; one representative per argument class).
	pub fn core() -> Profile {
		Profile {
			name: "core",
			depth: 3,
			opens: vec![(RKind::Slice, Codec::Null), (RKind::Slice, Codec::Snappy), (RKind::Buf, Codec::Deflate)],
			// (the sized files are read to the end in `extras`)
			opens_sized: vec![],
			opens_gather: vec![],
			gathers: vec![],
			texts: vec![0],
			builds: vec![0],
			// (every bad graph is in `extras`; one stays in the product alphabet: unreachable union, key = len)
			bad_graphs: vec![fixtures::bad_index('U', fixtures::N_GOOD, 0)],
			edits: vec![1],
			de_targets: vec![Tgt::Cow],
			next_targets: vec![Tgt::Owned, Tgt::Cow],
			serc_values: vec![0],
			remote_drops: false,
			remote_arc_drops: true,
			move_kinds: vec![0, 1],
		}
	}
	/// A narrower alphabet that Miri sweeps one level deeper in the thorough tier.
	pub fn core4() -> Profile {
		Profile {
			name: "core4",
			depth: 4,
			opens: vec![(RKind::Slice, Codec::Snappy), (RKind::Buf, Codec::Null)],
			opens_sized: vec![],
			opens_gather: vec![],
			gathers: vec![],
			texts: vec![0],
			builds: vec![0],
			bad_graphs: vec![],
			edits: vec![1],
			de_targets: vec![Tgt::Cow],
			next_targets: vec![Tgt::Owned, Tgt::Cow],
			serc_values: vec![0],
			remote_drops: false,
			remote_arc_drops: true,
			move_kinds: vec![1],
		}
	}
	/// `wide` restricted to the one good schema text / graph: swept one level deeper in the thorough tier.
	pub fn wide0() -> Profile {
		let mut p = Profile::wide();
		p.name = "wide0";
		p.depth = 5;
		p.texts = vec![0];
		p.builds = vec![0];
		// depth 5 reaches the fourth block of the sized files
		p.opens_sized = vec![(RKind::Slice, Codec::Snappy), (RKind::Buf, Codec::Snappy)];
		// ... and of file 2
		p.opens_gather = vec![(RKind::Chunked, Codec::Null)];
		p.gathers = vec![];
		p.bad_graphs = vec![fixtures::bad_index('A', 1, 0), fixtures::bad_index('U', fixtures::N_GOOD, 0), fixtures::BAD_EMPTY as u8, fixtures::BAD_EMPTY as u8 + 1];
		p
	}
	pub fn by_name(name: &str) -> Option<Profile> {
		match name {
			"wide0" => Some(Profile::wide0()),
			"core4" => Some(Profile::core4()),
			"wide" => Some(Profile::wide()),
			"full" => Some(Profile::full()),
			"core" => Some(Profile::core()),
			"ccodecs" => Some(Profile::ccodecs()),
			_ => None,
		}
	}
	pub fn with_depth(mut self, d: usize) -> Profile {
		self.depth = d;
		self
	}
	/// Histories outside the product alphabets that every detector must also run:
	/// every bad graph through the error path of freeze (dangling key: 4 node kinds x 7 positions x keys
	/// {len, len+1, usize::MAX}; the empty graph; unnamed cycles), alone, and a representative of each
	/// class after / before a live schema is used; every schema text and every built graph (the ones with
	/// empty unions) parsed / built, frozen and used; every edit (and detach + pop, which leaves an
	/// unreachable union holding a key equal to the number of nodes) followed by freeze and a use.
	pub fn extras() -> Vec<Vec<Op>> {
		let mut out = Vec::new();
		for g in 0..fixtures::N_BAD as u8 {
			out.push(vec![Op::FreezeBad(g)]);
		}
		let n = fixtures::N_GOOD;
		let bi = fixtures::bad_index;
		let mut reps: Vec<u8> = vec![bi('A', 1, 0), bi('M', n, 1), bi('U', n, 0), bi('U', 1, 0), bi('R', n, 2), bi('R', 3, 0)];
		reps.extend((fixtures::BAD_EMPTY..fixtures::N_BAD).map(|g| g as u8));
		for g in reps {
			out.push(vec![Op::ParseS(0), Op::FreezeBad(g), Op::Dbg(Src::S)]);
			out.push(vec![Op::FreezeBad(g), Op::ParseS(0), Op::Ser(Src::S)]);
		}
		for i in 0..fixtures::N_TEXTS {
			out.push(vec![Op::ParseS(i), Op::Dbg(Src::S)]);
			out.push(vec![Op::Parse(i), Op::Freeze, Op::Ser(Src::S)]);
			out.push(vec![Op::ParseS(i), Op::De(Src::S, Tgt::Any), Op::DropS(0)]);
		}
		for j in 0..fixtures::N_BUILDS {
			out.push(vec![Op::Build(j), Op::Freeze, Op::Dbg(Src::S)]);
			out.push(vec![Op::Build(j), Op::Freeze, Op::Ser(Src::S)]);
			out.push(vec![Op::Build(j), Op::Freeze, Op::De(Src::S, Tgt::Cow), Op::DropS(0)]);
		}
		let mut edit_seqs: Vec<Vec<u8>> = (0..fixtures::N_EDITS).map(|e| vec![e]).collect();
		edit_seqs.push(vec![5, 6]);
		edit_seqs.push(vec![6, 6]);
		edit_seqs.push(vec![5, 6, 6]);
		for es in edit_seqs {
			for start in [Op::Parse(0), Op::Build(0)] {
				let mut m = if start == Op::Parse(0) { fixtures::MState::parsed(0) } else { fixtures::MState::built(0) };
				let mut h = vec![start];
				for e in &es {
					m.edit(*e);
					h.push(Op::Edit(*e));
				}
				h.push(Op::Freeze);
				if m.freezable() {
					h.push(if start == Op::Parse(0) { Op::Dbg(Src::S) } else { Op::Ser(Src::S) });
				}
				out.push(h);
			}
		}
		// the sized files read to the end (decompression buffer reused with len < capacity, then grown),
		// values kept and re-read after the reader is gone
		let pure_sized = [(RKind::Slice, Codec::Snappy), (RKind::Buf, Codec::Snappy), (RKind::Slice, Codec::Deflate), (RKind::Buf, Codec::Deflate), (RKind::Slice, Codec::Null)];
		for (k, c) in pure_sized {
			let t = if k == RKind::Slice { Tgt::Cow } else { Tgt::Owned };
			out.push(vec![Op::Open(k, c, 1), Op::Next(t), Op::Next(t), Op::Next(t), Op::Next(t), Op::Next(t), Op::DropR(0)]);
		}
		out.push(vec![Op::Open(RKind::Slice, Codec::Snappy, 1), Op::Next(Tgt::Any), Op::Next(Tgt::Owned), Op::DropV(0), Op::Next(Tgt::Any), Op::DropR(1), Op::DropV(1)]);
		out.push(vec![Op::Open(RKind::Slice, Codec::Snappy, 1), Op::Next(Tgt::Owned), Op::Next(Tgt::Owned), Op::MoveR, Op::Next(Tgt::Owned), Op::RSchema, Op::Next(Tgt::Owned), Op::DropR(0), Op::Dbg(Src::A)]);
		// a `ReaderRead` that has to gather its values (the user's BufRead hands out a few bytes at a time):
		// files 1 and 2 through the null codec read to the end (4 values, EOF, drop; the values are re-read
		// after the reader is gone), and the datum-level fixture, alone and around a live schema
		let o = Tgt::Owned;
		for k in [RKind::Chunked, RKind::Small] {
			out.push(vec![Op::Open(k, Codec::Null, 2), Op::Next(o), Op::Next(o), Op::Next(o), Op::Next(o), Op::Next(o), Op::DropR(0)]);
		}
		out.push(vec![Op::Open(RKind::Chunked, Codec::Null, 1), Op::Next(o), Op::Next(o), Op::Next(o), Op::Next(o), Op::Next(o), Op::DropR(0)]);
		out.push(vec![Op::Open(RKind::Chunked, Codec::Null, 2), Op::Next(o), Op::MoveR, Op::Next(o), Op::DropV(0), Op::Next(o), Op::Next(o), Op::DropR(1)]);
		for k in 0..2 {
			out.push(vec![Op::Gather(k)]);
		}
		out.push(vec![Op::ParseS(0), Op::Gather(0), Op::Ser(Src::S), Op::Gather(1), Op::DropS(0)]);
		debug_assert!(out.iter().all(|h| admissible(h).is_some()));
		out
	}
	/// Native-only extras: Debug-formatting of a schema that is interrupted by a panic (a sink that panics
	/// on its 1st / 3rd write, under catch_unwind) or that runs in a destructor during unwinding, followed
	/// by the ordinary Debug / serialise operations on the same thread. A history with such an operation
	/// runs on a thread of its own (see `cli::run_history`), so the differential oracle compares it with
	/// dependency cones executed on threads that never saw a panic.
	pub fn extras_native() -> Vec<Vec<Op>> {
		let mut out = Vec::new();
		let (s, a, b) = (Src::S, Src::A, Src::B);
		for m in 0..3u8 {
			out.push(vec![Op::ParseS(0), Op::DbgPanic(s, m), Op::Dbg(s)]);
			out.push(vec![Op::ParseS(0), Op::Dbg(s), Op::DbgPanic(s, m), Op::Ser(s), Op::Dbg(s), Op::DbgPanic(s, (m + 1) % 3), Op::Dbg(s)]);
			out.push(vec![Op::ParseS(0), Op::Cfg(s), Op::DbgPanic(s, m), Op::SerC(2), Op::SerC(0), Op::Dbg(s)]);
			out.push(vec![Op::ParseS(0), Op::ArcNew, Op::DbgPanic(a, m), Op::ArcClone(a), Op::DropArc(a, 1), Op::Dbg(b)]);
			out.push(vec![Op::Open(RKind::Slice, Codec::Null, 0), Op::RSchema, Op::DbgPanic(a, m), Op::DropR(0), Op::Dbg(a)]);
			out.push(vec![Op::Build(1), Op::Freeze, Op::DbgPanic(s, m), Op::MoveS(1), Op::Dbg(s)]);
			out.push(vec![Op::ParseS(2), Op::DbgPanic(s, m), Op::Dbg(s), Op::DropS(0), Op::ParseS(0), Op::Dbg(s)]);
		}
		debug_assert!(out.iter().all(|h| admissible(h).is_some()));
		out
	}
	/// The sized files of the C codecs read to the end (native, AddressSanitizer, valgrind only).
	pub fn extras_ccodecs() -> Vec<Vec<Op>> {
		let mut out = Vec::new();
		for c in [Codec::Bzip2, Codec::Xz, Codec::Zstd] {
			for (k, t) in [(RKind::Slice, Tgt::Cow), (RKind::Buf, Tgt::Owned), (RKind::Chunked, Tgt::Owned)] {
				out.push(vec![Op::Open(k, c, 1), Op::Next(t), Op::Next(t), Op::Next(t), Op::Next(t), Op::Next(t), Op::DropR(0)]);
			}
		}
		out
	}
}

/// Abstract resource state: which slots are (predicted to be) occupied and who borrows whom.
#[derive(Clone, Debug, PartialEq, Eq, Hash, Default)]
pub struct Abs {
	/// the live SchemaMut, if any
	pub m: Option<fixtures::MState>,
	pub s: bool,
	pub arc: [bool; 2],
	/// the handle the live SerializerConfig borrows
	pub c: Option<Src>,
	pub r: Option<RKind>,
	/// value slots (maybe-)occupied
	pub v: [bool; 2],
}

impl Abs {
	pub fn src_live(&self, s: Src) -> bool {
		match s {
			Src::S => self.s,
			Src::A => self.arc[0],
			Src::B => self.arc[1],
		}
	}
	fn borrowed(&self, s: Src) -> bool {
		self.c == Some(s)
	}
	/// Is `op` admissible (operands live, nothing the borrow checker forbids)? Independent of profile.
	pub fn admits(&self, op: Op) -> bool {
		match op {
			Op::Parse(_) | Op::Build(_) => self.m.is_none(),
			Op::Edit(_) | Op::DropM => self.m.is_some(),
			Op::Freeze => self.m.is_some() && !self.s,
			Op::ParseS(_) => !self.s,
			Op::FreezeBad(_) | Op::Gather(_) => true,
			Op::MoveS(_) | Op::DropS(_) => self.s && !self.borrowed(Src::S),
			Op::ArcNew => self.s && !self.borrowed(Src::S) && !self.arc[0],
			Op::ArcClone(from) => from != Src::S && self.src_live(from) && !(self.arc[0] && self.arc[1]),
			Op::DropArc(s, _) => s != Src::S && self.src_live(s) && !self.borrowed(s),
			Op::Cfg(s) => self.c.is_none() && self.src_live(s),
			Op::SerC(_) | Op::DropC => self.c.is_some(),
			Op::Ser(s) | Op::Dbg(s) | Op::DbgPanic(s, _) | Op::De(s, _) => self.src_live(s),
			Op::DropV(i) => self.v[i as usize],
			Op::Open(..) => self.r.is_none(),
			Op::Next(t) => match self.r {
				None => false,
				Some(RKind::Slice) => true,
				Some(_) => !t.borrowing(),
			},
			Op::RSchema => self.r.is_some() && !(self.arc[0] && self.arc[1]),
			Op::MoveR | Op::DropR(_) => self.r.is_some(),
		}
	}
	pub fn apply(&mut self, op: Op) {
		debug_assert!(self.admits(op));
		match op {
			Op::Parse(i) => self.m = Some(fixtures::MState::parsed(i)),
			Op::Build(j) => self.m = Some(fixtures::MState::built(j)),
			Op::Edit(e) => {
				if let Some(m) = self.m.as_mut() {
					m.edit(e)
				}
			}
			Op::Freeze => {
				if self.m.as_ref().map_or(false, |m| m.freezable()) {
					self.s = true;
				}
				self.m = None;
			}
			Op::ParseS(_) => self.s = true,
			Op::FreezeBad(_) | Op::Gather(_) => {}
			Op::DropM => self.m = None,
			Op::MoveS(_) => {}
			Op::DropS(_) => self.s = false,
			Op::ArcNew => {
				self.s = false;
				self.arc[0] = true;
			}
			Op::ArcClone(_) | Op::RSchema => {
				let free = if !self.arc[0] { 0 } else { 1 };
				self.arc[free] = true;
			}
			Op::DropArc(s, _) => self.arc[s.arc_index().unwrap()] = false,
			Op::Cfg(s) => self.c = Some(s),
			Op::SerC(_) | Op::Ser(_) | Op::Dbg(_) | Op::DbgPanic(..) => {}
			Op::DropC => self.c = None,
			Op::De(..) | Op::Next(_) => {
				// the value goes to the first free slot; with both occupied it is checked and dropped at once
				if let Some(i) = self.v.iter().position(|x| !*x) {
					self.v[i] = true;
				}
			}
			Op::DropV(i) => self.v[i as usize] = false,
			Op::Open(k, _, _) => self.r = Some(k),
			Op::MoveR => {}
			Op::DropR(_) => self.r = None,
		}
	}
	/// All operations of the profile's alphabet admitted in this state, in a fixed order.
	pub fn enabled(&self, p: &Profile) -> Vec<Op> {
		let mut all: Vec<Op> = Vec::new();
		all.extend(p.texts.iter().map(|i| Op::Parse(*i)));
		all.extend(p.builds.iter().map(|j| Op::Build(*j)));
		all.extend(p.edits.iter().map(|e| Op::Edit(*e)));
		all.push(Op::Freeze);
		all.extend(p.texts.iter().map(|i| Op::ParseS(*i)));
		all.extend(p.bad_graphs.iter().map(|g| Op::FreezeBad(*g)));
		all.push(Op::DropM);
		all.extend(p.move_kinds.iter().map(|k| Op::MoveS(*k)));
		let wheres: &[u8] = if p.remote_drops { &[0, 1] } else { &[0] };
		let arc_wheres: &[u8] = if p.remote_arc_drops { &[0, 1] } else { &[0] };
		all.extend(wheres.iter().map(|w| Op::DropS(*w)));
		all.push(Op::ArcNew);
		for s in [Src::A, Src::B] {
			all.push(Op::ArcClone(s));
			all.extend(arc_wheres.iter().map(|w| Op::DropArc(s, *w)));
		}
		for s in Src::ALL {
			all.push(Op::Cfg(s));
			all.push(Op::Ser(s));
			all.extend(p.de_targets.iter().map(|t| Op::De(s, *t)));
			all.push(Op::Dbg(s));
		}
		all.extend(p.serc_values.iter().map(|v| Op::SerC(*v)));
		all.push(Op::DropC);
		all.push(Op::DropV(0));
		all.push(Op::DropV(1));
		all.extend(p.opens.iter().map(|(k, c)| Op::Open(*k, *c, 0)));
		all.extend(p.opens_sized.iter().map(|(k, c)| Op::Open(*k, *c, 1)));
		all.extend(p.opens_gather.iter().map(|(k, c)| Op::Open(*k, *c, 2)));
		all.extend(p.gathers.iter().map(|k| Op::Gather(*k)));
		all.extend(p.next_targets.iter().map(|t| Op::Next(*t)));
		all.push(Op::RSchema);
		all.push(Op::MoveR);
		all.extend(wheres.iter().map(|w| Op::DropR(*w)));
		all.retain(|o| self.admits(*o));
		all
	}
}

/// Is the whole history admissible? Returns the final abstract state.
pub fn admissible(h: &[Op]) -> Option<Abs> {
	let mut a = Abs::default();
	for op in h {
		if !a.admits(*op) {
			return None;
		}
		a.apply(*op);
	}
	Some(a)
}

/// All histories of length 1..=depth, shortest first (within a length: depth-first order of the
/// alphabet). Every prefix of a history is itself a history (it ends with the canonical clean-up).
pub fn enumerate(p: &Profile) -> Vec<Vec<Op>> {
	let mut out: Vec<Vec<Op>> = Vec::new();
	let mut level: Vec<(Vec<Op>, Abs)> = vec![(Vec::new(), Abs::default())];
	for _ in 0..p.depth {
		let mut next = Vec::new();
		for (h, a) in &level {
			for op in a.enabled(p) {
				let mut h2 = h.clone();
				h2.push(op);
				let mut a2 = a.clone();
				a2.apply(op);
				out.push(h2.clone());
				next.push((h2, a2));
			}
		}
		level = next;
	}
	out
}

/// Number of histories per length (without materialising them).
pub fn count(p: &Profile) -> Vec<u64> {
	use std::collections::HashMap;
	let mut level: HashMap<Abs, u64> = HashMap::new();
	level.insert(Abs::default(), 1);
	let mut out = Vec::new();
	for _ in 0..p.depth {
		let mut next: HashMap<Abs, u64> = HashMap::new();
		let mut n = 0;
		for (a, k) in &level {
			for op in a.enabled(p) {
				let mut a2 = a.clone();
				a2.apply(op);
				*next.entry(a2).or_insert(0) += k;
				n += k;
			}
		}
		out.push(n);
		level = next;
	}
	out
}

/// The dependency cone of operation `idx`: the sub-history of the operations its result depends on
/// (the creation / mutation chain of its operands), ending with the operation itself - the "fresh,
/// sequential, single-resource run" of the differential oracle. Drops of Arc handles that are
/// ancestors of the operand are kept (they only free a handle slot), every other drop, and every
/// operation on unrelated resources, is left out; Arc handle slots are renamed so that the cone is
/// admissible on its own.
pub fn cone(h: &[Op], idx: usize) -> Vec<Op> {
	#[derive(Default, Clone)]
	struct Lin {
		m: Vec<usize>,
		s: Vec<usize>,
		arc: [Vec<usize>; 2],
		c: Vec<usize>,
		r: Vec<usize>,
	}
	fn src_lin(l: &Lin, s: Src) -> Vec<usize> {
		match s {
			Src::S => l.s.clone(),
			Src::A => l.arc[0].clone(),
			Src::B => l.arc[1].clone(),
		}
	}
	let mut l = Lin::default();
	let mut a = Abs::default();
	let mut deps: Vec<usize> = Vec::new();
	// lineage of the handle dropped by each DropArc
	let mut dropped: Vec<(usize, Vec<usize>)> = Vec::new();
	for (i, op) in h.iter().enumerate().take(idx + 1) {
		let mut d: Vec<usize> = Vec::new();
		match *op {
			Op::Parse(_) | Op::Build(_) => {
				l.m = vec![i];
				d = l.m.clone();
			}
			Op::Edit(_) => {
				l.m.push(i);
				d = l.m.clone();
			}
			Op::Freeze => {
				l.m.push(i);
				d = l.m.clone();
				l.s = if a.m.as_ref().map_or(false, |m| m.freezable()) { std::mem::take(&mut l.m) } else { Vec::new() };
				l.m.clear();
			}
			Op::ParseS(_) => {
				l.s = vec![i];
				d = l.s.clone();
			}
			Op::FreezeBad(_) | Op::Gather(_) => d = vec![i],
			Op::DropM => l.m.clear(),
			Op::MoveS(_) => {
				l.s.push(i);
				d = l.s.clone();
			}
			Op::DropS(_) => l.s.clear(),
			Op::ArcNew => {
				l.s.push(i);
				d = l.s.clone();
				l.arc[0] = std::mem::take(&mut l.s);
			}
			Op::ArcClone(from) => {
				let mut x = src_lin(&l, from);
				x.push(i);
				d = x.clone();
				let free = if !a.arc[0] { 0 } else { 1 };
				l.arc[free] = x;
			}
			Op::RSchema => {
				let mut x = l.r.clone();
				x.push(i);
				d = x.clone();
				let free = if !a.arc[0] { 0 } else { 1 };
				l.arc[free] = x;
			}
			Op::DropArc(s, _) => {
				let k = s.arc_index().unwrap();
				dropped.push((i, std::mem::take(&mut l.arc[k])));
			}
			Op::Cfg(s) => {
				let mut x = src_lin(&l, s);
				x.push(i);
				d = x.clone();
				l.c = x;
			}
			Op::SerC(_) => {
				l.c.push(i);
				d = l.c.clone();
			}
			Op::DropC => l.c.clear(),
			Op::Ser(s) | Op::Dbg(s) | Op::DbgPanic(s, _) | Op::De(s, _) => {
				d = src_lin(&l, s);
				d.push(i);
			}
			Op::DropV(_) => {}
			Op::Open(..) => {
				l.r = vec![i];
				d = l.r.clone();
			}
			Op::Next(_) | Op::MoveR => {
				l.r.push(i);
				d = l.r.clone();
			}
			Op::DropR(_) => l.r.clear(),
		}
		a.apply(*op);
		if i == idx {
			deps = d;
		}
	}
	if deps.is_empty() {
		// an operation without result (a drop): its cone is itself only when admissible alone - not used
		return vec![h[idx]];
	}
	for (i, lin) in dropped {
		if i < idx && !lin.is_empty() && lin.iter().all(|x| deps.contains(x)) {
			deps.push(i);
		}
	}
	deps.sort_unstable();
	deps.dedup();
	// rename Arc handle slots
	let mut sub = Abs::default();
	let mut full = Abs::default();
	let mut map: [Option<usize>; 2] = [None, None];
	let mut out = Vec::with_capacity(deps.len());
	let mut di = 0;
	let to_src = |k: usize| if k == 0 { Src::A } else { Src::B };
	for (i, op) in h.iter().enumerate().take(idx + 1) {
		let included = di < deps.len() && deps[di] == i;
		if included {
			di += 1;
			let ren = |s: Src| -> Src {
				match s.arc_index() {
					None => Src::S,
					Some(k) => to_src(map[k].expect("cone: handle of the lineage is mapped")),
				}
			};
			let op2 = match *op {
				Op::ArcClone(from) => Op::ArcClone(ren(from)),
				Op::DropArc(s, w) => Op::DropArc(ren(s), w),
				Op::Cfg(s) => Op::Cfg(ren(s)),
				Op::Ser(s) => Op::Ser(ren(s)),
				Op::Dbg(s) => Op::Dbg(ren(s)),
				Op::DbgPanic(s, m) => Op::DbgPanic(ren(s), m),
				Op::De(s, t) => Op::De(ren(s), t),
				o => o,
			};
			match *op {
				Op::ArcNew => map[0] = Some(0),
				Op::ArcClone(_) | Op::RSchema => {
					let fd = if !full.arc[0] { 0 } else { 1 };
					let sd = if !sub.arc[0] { 0 } else { 1 };
					map[fd] = Some(sd);
				}
				Op::DropArc(s, _) => map[s.arc_index().unwrap()] = None,
				_ => {}
			}
			assert!(sub.admits(op2), "cone of {} at {idx} is not admissible at {}", history_token(h), op2.token());
			sub.apply(op2);
			out.push(op2);
		}
		full.apply(*op);
	}
	out
}

/// Does the operation produce a result that the differential oracle compares?
pub fn has_result(op: Op) -> bool {
	!matches!(op, Op::DropM | Op::DropS(_) | Op::DropArc(..) | Op::DropC | Op::DropV(_) | Op::DropR(_))
}

/// Non-triviality rule of the evidence: the history dereferences schema nodes at least once (freeze,
/// serialise, deserialise, Debug, reader open / next) AND contains at least one lifecycle event that
/// the tests never order differently (drop, move, Arc clone, edit, error-path freeze).
pub fn nontrivial(h: &[Op]) -> bool {
	let uses = h.iter().any(|o| matches!(o, Op::Freeze | Op::ParseS(_) | Op::FreezeBad(_) | Op::Gather(_) | Op::SerC(_) | Op::Ser(_) | Op::De(..) | Op::Dbg(_) | Op::DbgPanic(..) | Op::Open(..) | Op::Next(_)));
	let life = h.iter().any(|o| {
		matches!(
			o,
			Op::DropM | Op::DropS(_) | Op::DropArc(..) | Op::DropC | Op::DropV(_) | Op::DropR(_) | Op::MoveS(_) | Op::MoveR | Op::ArcNew | Op::ArcClone(_) | Op::RSchema | Op::Edit(_) | Op::FreezeBad(_)
		)
	});
	uses && life
}
