//! Batch executor shared by `vhist` (Miri / AddressSanitizer builds) and `vcheck worker C10` (native,
//! valgrind). Reads a batch file, executes every case on the real crate, prints one line per case.
//!
//! Batch file:
//!   F <name> <hex>                              fixture (datum bytes, container file per codec)
//!   H <idx> <history> [<h1,h2,..>|-]            history; optional expected result hashes (one per operation)
//!   T <idx> <r|a> <P> <Q> <schedule|free>       two-thread case: sharing mode, programs, merge or free-running
//! Output (stdout, line buffered):
//!   B <idx>                                     case started (a detector abort is attributed to the last B without E)
//!   E <idx> OK <h1,h2,..> <shape>               case finished, results as hashes, hash of the final resource shape
//!   E <idx> BAD <class> <op#> <detail>          an oracle inside the interpreter failed
//!   X <counters>                                totals of the interpreter's counters
//!   Z done=<n> total=<n> stopped=<0|1>          end of batch (stopped=1: the deadline fired first)

use crate::fixtures::{fnv, Fixtures};
use crate::ops::{self, Op};
use crate::threads::{self, Share, TOp};
use crate::world::{Counters, Finding, World};
use serde_avro_fast::schema::SchemaMut;
use serde_avro_fast::Schema;
use std::collections::HashMap;
use std::io::Write;

#[derive(Clone, Copy, PartialEq, Eq, Debug)]
pub enum RefMode {
	/// compare every result with the same operation in its dependency cone, executed fresh (memoised)
	Cone,
	/// compare with the hashes given in the batch file (produced by a native `Cone` run)
	Given,
	None,
}

pub struct HistRun {
	pub results: Vec<String>,
	pub findings: Vec<Finding>,
	pub counters: Counters,
}

pub fn run_history(h: &[Op], fx: &Fixtures, proto: Option<&crate::fixtures::Protos>) -> HistRun {
	// A history that formats a schema while a panic is in flight runs on a thread of its own: whatever
	// thread-local state the interrupted rendering leaves behind must neither reach the histories that
	// follow in this process nor the reference runs (which stay on this thread).
	if h.iter().any(|o| matches!(o, Op::DbgPanic(..))) {
		return std::thread::scope(|sc| sc.spawn(|| run_history_here(h, fx, None)).join()).unwrap_or_else(|_| HistRun {
			results: vec!["panic".to_owned(); h.len()],
			findings: Vec::new(),
			counters: Counters::default(),
		});
	}
	run_history_here(h, fx, proto)
}

fn run_history_here(h: &[Op], fx: &Fixtures, proto: Option<&crate::fixtures::Protos>) -> HistRun {
	let mut w = World::new(fx, proto);
	for op in h {
		w.apply(*op);
	}
	let (results, findings, counters) = w.finish();
	drop(w);
	HistRun { results, findings, counters }
}

pub struct RefCache {
	map: HashMap<Vec<Op>, String>,
	pub runs: u64,
	pub hits: u64,
}
impl RefCache {
	pub fn new() -> RefCache {
		RefCache { map: HashMap::new(), runs: 0, hits: 0 }
	}
	/// Result of operation `idx` of `h` in a fresh run of its dependency cone.
	pub fn reference(&mut self, h: &[Op], idx: usize, fx: &Fixtures, proto: Option<&crate::fixtures::Protos>) -> String {
		let c = ops::cone(h, idx);
		if let Some(r) = self.map.get(&c) {
			self.hits += 1;
			return r.clone();
		}
		self.runs += 1;
		let run = run_history(&c, fx, proto);
		let r = run.results.last().cloned().unwrap_or_default();
		self.map.insert(c, r.clone());
		r
	}
}
impl Default for RefCache {
	fn default() -> Self {
		Self::new()
	}
}

#[derive(Debug, Clone, PartialEq)]
pub enum Verdict {
	Ok { hashes: Vec<u64> },
	Bad { class: String, at_op: usize, detail: String },
}

pub fn hashes_of(results: &[String]) -> Vec<u64> {
	results.iter().map(|r| fnv(r)).collect()
}

/// Execute one history and apply the oracles that live inside the interpreter.
pub fn check_history(h: &[Op], fx: &Fixtures, proto: Option<&crate::fixtures::Protos>, mode: RefMode, given: Option<&[u64]>, cache: &mut RefCache, totals: &mut Counters) -> Verdict {
	let run = run_history(h, fx, proto);
	totals.add(&run.counters);
	if let Some(f) = run.findings.first() {
		return Verdict::Bad { class: f.class.to_owned(), at_op: f.at_op, detail: f.detail.clone() };
	}
	if run.counters.mispredict > 0 {
		return Verdict::Bad { class: "machinery-mispredict".to_owned(), at_op: 0, detail: "an operation the generator predicted to succeed failed (or the reverse)".to_owned() };
	}
	let hashes = hashes_of(&run.results);
	match mode {
		RefMode::None => {}
		RefMode::Given => {
			if let Some(g) = given {
				if g.len() != hashes.len() {
					return Verdict::Bad { class: "machinery-expected-length".to_owned(), at_op: 0, detail: format!("{} expected hashes for {} operations", g.len(), hashes.len()) };
				}
				for (i, (a, b)) in hashes.iter().zip(g.iter()).enumerate() {
					if a != b {
						return Verdict::Bad {
							class: "result-differs".to_owned(),
							at_op: i,
							detail: format!("operation #{i} {} gave {} under this detector; the native run gave a result with hash {b:016x}", h[i].token(), trunc(&run.results[i])),
						};
					}
				}
			}
		}
		RefMode::Cone => {
			for (i, op) in h.iter().enumerate() {
				if !ops::has_result(*op) {
					continue;
				}
				let want = cache.reference(h, i, fx, proto);
				if want != run.results[i] {
					return Verdict::Bad {
						class: "result-differs".to_owned(),
						at_op: i,
						detail: format!(
							"operation #{i} {} gave {} in the history but {} in a fresh run of its dependency cone [{}]",
							op.token(),
							trunc(&run.results[i]),
							trunc(&want),
							ops::history_token(&ops::cone(h, i))
						),
					};
				}
			}
		}
	}
	Verdict::Ok { hashes }
}

fn trunc(s: &str) -> String {
	if s.len() <= 300 {
		s.to_owned()
	} else {
		let mut e = 300;
		while !s.is_char_boundary(e) {
			e -= 1;
		}
		format!("{}...", &s[..e])
	}
}

fn join_hashes(h: &[u64]) -> String {
	if h.is_empty() {
		return "-".to_owned();
	}
	h.iter().map(|x| format!("{x:016x}")).collect::<Vec<_>>().join(",")
}
pub fn parse_hashes(s: &str) -> Option<Vec<u64>> {
	if s == "-" {
		return Some(Vec::new());
	}
	s.split(',').map(|x| u64::from_str_radix(x, 16).ok()).collect()
}

pub struct ThreadCase {
	pub share: Share,
	pub p: Vec<TOp>,
	pub q: Vec<TOp>,
	/// None = free running
	pub schedule: Option<Vec<u8>>,
}
impl ThreadCase {
	pub fn token(&self) -> String {
		format!("{} {} {} {}", self.share.letter(), threads::program_token(&self.p), threads::program_token(&self.q), self.schedule.as_ref().map(|s| threads::schedule_token(s)).unwrap_or_else(|| "free".to_owned()))
	}
	pub fn parse(parts: &[&str]) -> Option<ThreadCase> {
		if parts.len() != 4 {
			return None;
		}
		let share = Share::from_letter(parts[0].chars().next()?)?;
		let p = threads::parse_program(parts[1])?;
		let q = threads::parse_program(parts[2])?;
		let schedule = if parts[3] == "free" { None } else { Some(threads::parse_schedule(parts[3])?) };
		if let Some(s) = &schedule {
			if s.iter().filter(|b| **b == 0).count() != p.len() || s.iter().filter(|b| **b == 1).count() != q.len() {
				return None;
			}
		}
		Some(ThreadCase { share, p, q, schedule })
	}
}

struct ThreadEnv {
	shared: Schema,
	reference: Vec<(TOp, String)>,
}

fn fresh_schema(proto: Option<&crate::fixtures::Protos>) -> Schema {
	match proto {
		Some(p) => p.get(0).expect("fixture schema parses").freeze().expect("fixture schema freezes"),
		None => crate::fixtures::SCHEMA_TEXT.parse().expect("fixture schema parses"),
	}
}

pub fn check_thread_case(c: &ThreadCase, fx: &Fixtures, proto: Option<&crate::fixtures::Protos>, env: &mut Option<ThreadEnvBox>) -> Verdict {
	if env.is_none() {
		let shared = fresh_schema(proto);
		let reference = threads::sequential_reference(&shared, &fx.datum);
		*env = Some(ThreadEnvBox(Box::new(ThreadEnv { shared, reference })));
	}
	let e = &env.as_ref().unwrap().0;
	let got = match c.share {
		Share::Ref => threads::run_pair_ref(&e.shared, fx, &c.p, &c.q, c.schedule.as_deref()),
		Share::Arc => threads::run_pair_arc(fresh_schema(proto), fx, &c.p, &c.q, c.schedule.as_deref()),
	};
	match threads::compare(&e.reference, &c.p, &c.q, &got) {
		None => Verdict::Ok { hashes: got.0.iter().chain(got.1.iter()).map(|r| fnv(r)).collect() },
		Some(d) => Verdict::Bad { class: "concurrent-differs".to_owned(), at_op: 0, detail: d },
	}
}
pub struct ThreadEnvBox(Box<ThreadEnv>);

fn usage() -> i32 {
	eprintln!("usage: vhist exec <batch-file> [--ref cone|given|none] [--proto] [--deadline-ms N [--min-cases K]]\n       vhist fixtures\n       vhist count quick|thorough");
	2
}

/// Entry point shared by the `vhist` binary and `vcheck worker C10`.
pub fn cli_main(args: &[String]) -> i32 {
	std::panic::set_hook(Box::new(|info| {
		let msg = info.to_string();
		if msg.contains("MACHINERY") || msg.contains("cone") || msg.contains("unsafe precondition") || std::env::var_os("VHIST_PANICS").is_some() {
			eprintln!("{msg}");
		}
	}));
	let Some(cmd) = args.first() else { return usage() };
	match cmd.as_str() {
		"fixtures" => match Fixtures::generate() {
			Ok(f) => {
				print!("{}", f.to_lines());
				0
			}
			Err(e) => {
				eprintln!("MACHINERY: {e}");
				2
			}
		},
		"count" => {
			let Some(mut p) = args.get(1).and_then(|s| ops::Profile::by_name(s)) else { return usage() };
			if let Some(d) = args.get(2).and_then(|s| s.parse().ok()) {
				p.depth = d;
			}
			let c = ops::count(&p);
			println!("{} per depth {:?} total {}", p.name, c, c.iter().sum::<u64>());
			0
		}
		// debugging aid: node structure of a schema text, and whether it freezes
		"nodes" => {
			let Some(text) = args.get(1) else { return usage() };
			match text.parse::<SchemaMut>() {
				Ok(m) => {
					println!("{:?}", crate::fixtures::keys_of(&m));
					for (i, n) in m.nodes().iter().enumerate() {
						println!("  {i}: {:?}", n);
					}
					println!("freeze: {:?}", m.freeze().map(|s| s.json().to_owned()).map_err(|e| e.to_string()));
				}
				Err(e) => println!("parse error: {e}"),
			}
			0
		}
		"sweep" => {
			// sweep <profile> <depth> <unit-lo> <unit-hi> [--verbose] [--nt-file PATH]
			let (Some(mut p), Some(depth), Some(lo), Some(hi)) = (
				args.get(1).and_then(|s| ops::Profile::by_name(s)),
				args.get(2).and_then(|s| s.parse::<usize>().ok()),
				args.get(3).and_then(|s| s.parse::<usize>().ok()),
				args.get(4).and_then(|s| s.parse::<usize>().ok()),
			) else {
				return usage();
			};
			p.depth = depth;
			let verbose = args.iter().any(|a| a == "--verbose");
			let nt_file = args.iter().position(|a| a == "--nt-file").and_then(|i| args.get(i + 1)).cloned();
			let fx_file = args.iter().position(|a| a == "--fixtures").and_then(|i| args.get(i + 1)).cloned();
			let inflight = args.iter().position(|a| a == "--inflight").and_then(|i| args.get(i + 1)).cloned();
			sweep(&p, lo, hi, verbose, nt_file.as_deref(), fx_file.as_deref(), inflight.as_deref())
		}
		"exec" => {
			let Some(path) = args.get(1) else { return usage() };
			let mut mode = RefMode::Cone;
			let mut use_proto = false;
			let mut deadline_ms: Option<u128> = None;
			let mut min_cases: usize = 0;
			let mut i = 2;
			while i < args.len() {
				match args[i].as_str() {
					"--ref" => {
						mode = match args.get(i + 1).map(|s| s.as_str()) {
							Some("cone") => RefMode::Cone,
							Some("given") => RefMode::Given,
							Some("none") => RefMode::None,
							_ => return usage(),
						};
						i += 2;
					}
					"--proto" => {
						use_proto = true;
						i += 1;
					}
					"--deadline-ms" => {
						deadline_ms = args.get(i + 1).and_then(|s| s.parse().ok());
						i += 2;
					}
					// the deadline only applies once this many cases were executed
					"--min-cases" => {
						min_cases = args.get(i + 1).and_then(|s| s.parse().ok()).unwrap_or(0);
						i += 2;
					}
					_ => return usage(),
				}
			}
			exec_batch(path, mode, use_proto, deadline_ms, min_cases)
		}
		_ => usage(),
	}
}

/// Units of a sweep: every history of length 1 and 2 of the profile. A unit of length 1 stands for
/// itself, a unit of length 2 for itself and all its extensions up to the profile's depth.
pub fn sweep_units(p: &ops::Profile) -> Vec<Vec<Op>> {
	let mut q = p.clone();
	q.depth = p.depth.min(2);
	ops::enumerate(&q)
}

struct Sweep<'a> {
	p: &'a ops::Profile,
	fx: Fixtures,
	cache: RefCache,
	totals: Counters,
	verbose: bool,
	histories: u64,
	nontrivial: u64,
	ops: u64,
	bad: u64,
	outcomes: std::collections::HashSet<u64>,
	shapes: std::collections::HashSet<ops::Abs>,
	nt: Option<std::io::BufWriter<std::fs::File>>,
	/// the history being executed is written here first (64 bytes at offset 0), so that a crash of this
	/// process is attributed to it without having to reproduce the crash
	inflight: Option<std::fs::File>,
}

impl Sweep<'_> {
	fn run_one(&mut self, h: &[Op], abs: &ops::Abs) {
		let out = std::io::stdout();
		let token = ops::history_token(h);
		if let Some(f) = self.inflight.as_ref() {
			use std::os::unix::fs::FileExt;
			let mut buf = [b' '; 64];
			let n = token.len().min(63);
			buf[..n].copy_from_slice(&token.as_bytes()[..n]);
			buf[63] = b'\n';
			let _ = f.write_all_at(&buf, 0);
		}
		if self.verbose {
			let mut o = out.lock();
			let _ = writeln!(o, "B {token}");
			let _ = o.flush();
		}
		self.histories += 1;
		self.ops += h.len() as u64;
		let v = check_history(h, &self.fx, None, RefMode::Cone, None, &mut self.cache, &mut self.totals);
		match v {
			Verdict::Ok { hashes } => {
				self.outcomes.insert(fnv(&join_hashes(&hashes)));
			}
			Verdict::Bad { class, at_op, detail } => {
				self.bad += 1;
				if self.bad <= 40 {
					let mut o = out.lock();
					let _ = writeln!(o, "BAD {token} {class} {at_op} {}", detail.replace('\n', " "));
					let _ = o.flush();
				}
			}
		}
		self.shapes.insert(abs.clone());
		if ops::nontrivial(h) {
			self.nontrivial += 1;
			if let Some(w) = self.nt.as_mut() {
				let _ = w.write_all(&fnv(&token).to_le_bytes());
			}
		}
	}
	fn dfs(&mut self, h: &mut Vec<Op>, abs: &ops::Abs) {
		self.run_one(h, abs);
		if h.len() >= self.p.depth {
			return;
		}
		for op in abs.enabled(self.p) {
			let mut a2 = abs.clone();
			a2.apply(op);
			h.push(op);
			self.dfs(h, &a2);
			h.pop();
		}
	}
}

fn load_fixtures(path: &str) -> Result<Fixtures, String> {
	let text = std::fs::read_to_string(path).map_err(|e| format!("cannot read fixtures {path}: {e}"))?;
	let mut fx = Fixtures::empty();
	for line in text.lines().filter(|l| l.starts_with("F ")) {
		fx.absorb(line)?;
	}
	if fx.datum.is_empty() {
		return Err(format!("{path} has no datum fixture"));
	}
	Ok(fx)
}

fn sweep(p: &ops::Profile, lo: usize, hi: usize, verbose: bool, nt_file: Option<&str>, fx_file: Option<&str>, inflight: Option<&str>) -> i32 {
	let fx = match fx_file.map(load_fixtures).unwrap_or_else(Fixtures::generate) {
		Ok(f) => f,
		Err(e) => {
			eprintln!("MACHINERY: {e}");
			return 2;
		}
	};
	for (c, f) in p.opens.iter().map(|(_, c)| (c, 0)).chain(p.opens_sized.iter().map(|(_, c)| (c, 1))).chain(p.opens_gather.iter().map(|(_, c)| (c, 2))) {
		if fx.file(*c, f).is_none() || !c.available() {
			eprintln!("MACHINERY: codec {c:?} of profile {} is not compiled into this build", p.name);
			return 2;
		}
	}
	let units = sweep_units(p);
	let nt = match nt_file {
		Some(f) => match std::fs::File::create(f) {
			Ok(f) => Some(std::io::BufWriter::new(f)),
			Err(e) => {
				eprintln!("MACHINERY: cannot create {f}: {e}");
				return 2;
			}
		},
		None => None,
	};
	let mut sw = Sweep {
		p,
		fx,
		cache: RefCache::new(),
		totals: Counters::default(),
		verbose,
		histories: 0,
		nontrivial: 0,
		ops: 0,
		bad: 0,
		outcomes: Default::default(),
		shapes: Default::default(),
		nt,
		inflight: inflight.and_then(|f| std::fs::File::create(f).ok()),
	};
	for u in units.iter().take(hi.min(units.len())).skip(lo) {
		let abs = ops::admissible(u).expect("units are admissible");
		if u.len() < 2 {
			sw.run_one(u, &abs);
		} else {
			let mut h = u.clone();
			sw.dfs(&mut h, &abs);
		}
	}
	if let Some(mut w) = sw.nt.take() {
		let _ = w.flush();
	}
	let out = std::io::stdout();
	let mut o = out.lock();
	for h in &sw.outcomes {
		let _ = writeln!(o, "O {h:016x}");
	}
	for a in &sw.shapes {
		let _ = writeln!(o, "P {:016x}", fnv(&format!("{a:?}")));
	}
	let _ = writeln!(o, "X {} ref_runs={} ref_hits={}", sw.totals.to_line(), sw.cache.runs, sw.cache.hits);
	let _ = writeln!(o, "S histories={} nontrivial={} ops={} bad={}", sw.histories, sw.nontrivial, sw.ops, sw.bad);
	let _ = writeln!(o, "Z done={} total={} stopped=0", sw.histories, sw.histories);
	let _ = o.flush();
	0
}

fn exec_batch(path: &str, mode: RefMode, use_proto: bool, deadline_ms: Option<u128>, min_cases: usize) -> i32 {
	let started = std::time::Instant::now();
	let text = match std::fs::read_to_string(path) {
		Ok(t) => t,
		Err(e) => {
			eprintln!("MACHINERY: cannot read batch file {path}: {e}");
			return 2;
		}
	};
	let mut fx = Fixtures::empty();
	let mut cases: Vec<&str> = Vec::new();
	for line in text.lines() {
		if line.starts_with("F ") {
			if let Err(e) = fx.absorb(line) {
				eprintln!("MACHINERY: {e}");
				return 2;
			}
		} else if line.starts_with("H ") || line.starts_with("T ") {
			cases.push(line);
		}
	}
	if fx.datum.is_empty() {
		eprintln!("MACHINERY: batch file has no datum fixture");
		return 2;
	}
	let proto: Option<crate::fixtures::Protos> = if use_proto { Some(crate::fixtures::Protos::new()) } else { None };
	let out = std::io::stdout();
	let mut cache = RefCache::new();
	let mut totals = Counters::default();
	let mut thread_env: Option<ThreadEnvBox> = None;
	let mut done = 0usize;
	let mut stopped = 0;
	for line in &cases {
		if let Some(d) = deadline_ms {
			if done >= min_cases && started.elapsed().as_millis() > d {
				stopped = 1;
				break;
			}
		}
		let parts: Vec<&str> = line.split_whitespace().collect();
		let idx = parts.get(1).copied().unwrap_or("?");
		{
			let mut o = out.lock();
			let _ = writeln!(o, "B {idx}");
			let _ = o.flush();
		}
		let verdict = if parts[0] == "H" {
			let Some(h) = parts.get(2).and_then(|s| ops::parse_history(s)) else {
				eprintln!("MACHINERY: bad history line {line:?}");
				return 2;
			};
			if ops::admissible(&h).is_none() {
				eprintln!("MACHINERY: history {} is not admissible (the borrow checker would reject it)", ops::history_token(&h));
				return 2;
			}
			for op in &h {
				if let Op::Open(_, c, f) = op {
					if fx.file(*c, *f).is_none() {
						eprintln!("MACHINERY: history {} needs the container file of codec {c:?}, which is not among the fixtures", ops::history_token(&h));
						return 2;
					}
					if !c.available() {
						eprintln!("MACHINERY: codec {c:?} is not compiled into this build");
						return 2;
					}
				}
			}
			let given = parts.get(3).and_then(|s| parse_hashes(s)).filter(|g| !g.is_empty());
			check_history(&h, &fx, proto.as_ref(), mode, given.as_deref(), &mut cache, &mut totals)
		} else {
			let Some(c) = ThreadCase::parse(&parts[2..]) else {
				eprintln!("MACHINERY: bad thread case line {line:?}");
				return 2;
			};
			check_thread_case(&c, &fx, proto.as_ref(), &mut thread_env)
		};
		done += 1;
		let mut o = out.lock();
		match verdict {
			Verdict::Ok { hashes } => {
				let _ = writeln!(o, "E {idx} OK {}", join_hashes(&hashes));
			}
			Verdict::Bad { class, at_op, detail } => {
				let _ = writeln!(o, "E {idx} BAD {class} {at_op} {}", detail.replace('\n', " "));
			}
		}
		let _ = o.flush();
	}
	drop(thread_env);
	let mut o = out.lock();
	let _ = writeln!(o, "X {} ref_runs={} ref_hits={}", totals.to_line(), cache.runs, cache.hits);
	let _ = writeln!(o, "Z done={done} total={} stopped={stopped}", cases.len());
	let _ = o.flush();
	0
}
