//! CRC-64-AVRO (Rabin) and CRC-32 (IEEE), both bit-serial from their definitions
//! (no tables, so they cannot share a table typo with anybody).

pub const EMPTY: u64 = 0xc15d213aa4d7a795;

/// One byte of the CRC-64-AVRO step, from the spec:
/// `fp = (fp >>> 8) ^ FP_TABLE[(fp ^ b) & 0xff]` where `FP_TABLE[i]` is `i` pushed through
/// 8 rounds of `fp = (fp >>> 1) ^ (EMPTY & -(fp & 1))`. Done bit by bit here.
pub fn crc64_step(mut fp: u64, b: u8) -> u64 {
	fp ^= b as u64;
	for _ in 0..8 {
		fp = (fp >> 1) ^ (EMPTY & (0u64.wrapping_sub(fp & 1)));
	}
	fp
}

pub fn crc64_avro(bytes: &[u8]) -> u64 {
	let mut fp = EMPTY;
	for &b in bytes {
		fp = crc64_step(fp, b);
	}
	fp
}

/// The 8 bytes used in single object encoding: little-endian of the fingerprint.
pub fn fingerprint_le(bytes: &[u8]) -> [u8; 8] {
	crc64_avro(bytes).to_le_bytes()
}

/// CRC-32 IEEE 802.3 (reflected, poly 0xEDB88320), bit-serial.
pub fn crc32_ieee(bytes: &[u8]) -> u32 {
	let mut crc: u32 = 0xffff_ffff;
	for &b in bytes {
		crc ^= b as u32;
		for _ in 0..8 {
			let mask = 0u32.wrapping_sub(crc & 1);
			crc = (crc >> 1) ^ (0xEDB8_8320 & mask);
		}
	}
	!crc
}

#[cfg(test)]
mod tests {
	use super::*;
	#[test]
	fn crc32_check_value() {
		assert_eq!(crc32_ieee(b"123456789"), 0xCBF43926);
	}
	#[test]
	fn crc64_known() {
		// Known fingerprints from the Avro test-suite (Java SchemaNormalization tests)
		assert_eq!(crc64_avro(b"\"null\""), 7195948357588979594u64);
		assert_eq!(crc64_avro(b"\"int\""), 8247732601305521295u64);
		assert_eq!(crc64_avro(b"\"boolean\"") as i64, -6970731678124411036i64);
	}
}
