//! Reference model for the Avro specification, written from the specification text only.
//! Depends on nothing from the subject crate.

pub mod container;
pub mod crc;
pub mod json;
pub mod schema;
pub mod value;

/// Source of decisions: explorers implement this, so that model-side enumeration (spellings,
/// block layouts …) is driven by the same odometer as everything else.
pub trait Pick {
	/// return a number in `0..n` (n >= 1)
	fn pick(&mut self, n: usize) -> usize;
}

/// Always takes choice 0.
pub struct Zero;
impl Pick for Zero {
	fn pick(&mut self, _n: usize) -> usize {
		0
	}
}
