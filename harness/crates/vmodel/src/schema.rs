//! Schema AST with fullnames by construction, JSON spelling with explicit degrees of freedom,
//! Parsing Canonical Form, and an own resolver JSON -> AST (names per the specification).

use crate::json::J;
use crate::Pick;
use std::collections::HashMap;

#[derive(Clone, Debug, PartialEq, Eq, Hash)]
pub enum Logical {
	Decimal { precision: usize, scale: u32 },
	Uuid,
	Date,
	TimeMillis,
	TimeMicros,
	TimestampMillis,
	TimestampMicros,
	Duration,
	BigDecimal,
	Unknown(String),
}

impl Logical {
	pub fn name(&self) -> &str {
		match self {
			Logical::Decimal { .. } => "decimal",
			Logical::Uuid => "uuid",
			Logical::Date => "date",
			Logical::TimeMillis => "time-millis",
			Logical::TimeMicros => "time-micros",
			Logical::TimestampMillis => "timestamp-millis",
			Logical::TimestampMicros => "timestamp-micros",
			Logical::Duration => "duration",
			Logical::BigDecimal => "big-decimal",
			Logical::Unknown(s) => s,
		}
	}
}

#[derive(Clone, Debug, PartialEq, Eq, Hash)]
pub enum RSchema {
	Null,
	Boolean,
	Int,
	Long,
	Float,
	Double,
	Bytes,
	String,
	Array(Box<RSchema>),
	Map(Box<RSchema>),
	Union(Vec<RSchema>),
	/// `name` is the fullname
	Record { name: String, fields: Vec<(String, RSchema)> },
	Enum { name: String, symbols: Vec<String> },
	Fixed { name: String, size: usize },
	/// reference to a named type by fullname
	Ref(String),
	/// annotation over a primitive or fixed
	Logical(Logical, Box<RSchema>),
}

pub fn split_fullname(full: &str) -> (&str, &str) {
	match full.rfind('.') {
		Some(i) => (&full[..i], &full[i + 1..]),
		None => ("", full),
	}
}

impl RSchema {
	pub fn record(name: &str, fields: Vec<(&str, RSchema)>) -> RSchema {
		RSchema::Record { name: name.to_owned(), fields: fields.into_iter().map(|(n, s)| (n.to_owned(), s)).collect() }
	}
	pub fn enum_(name: &str, symbols: &[&str]) -> RSchema {
		RSchema::Enum { name: name.to_owned(), symbols: symbols.iter().map(|s| s.to_string()).collect() }
	}
	pub fn fixed(name: &str, size: usize) -> RSchema {
		RSchema::Fixed { name: name.to_owned(), size }
	}
	pub fn array(s: RSchema) -> RSchema {
		RSchema::Array(Box::new(s))
	}
	pub fn map(s: RSchema) -> RSchema {
		RSchema::Map(Box::new(s))
	}
	pub fn rf(name: &str) -> RSchema {
		RSchema::Ref(name.to_owned())
	}
	pub fn logical(l: Logical, s: RSchema) -> RSchema {
		RSchema::Logical(l, Box::new(s))
	}
	pub fn decimal_bytes(precision: usize, scale: u32) -> RSchema {
		RSchema::logical(Logical::Decimal { precision, scale }, RSchema::Bytes)
	}
	pub fn decimal_fixed(name: &str, size: usize, precision: usize, scale: u32) -> RSchema {
		RSchema::logical(Logical::Decimal { precision, scale }, RSchema::fixed(name, size))
	}
	pub fn fullname(&self) -> Option<&str> {
		match self {
			RSchema::Record { name, .. } | RSchema::Enum { name, .. } | RSchema::Fixed { name, .. } => Some(name),
			RSchema::Ref(n) => Some(n),
			RSchema::Logical(_, b) => b.fullname(),
			_ => None,
		}
	}
	/// Strip logical annotation
	pub fn base(&self) -> &RSchema {
		match self {
			RSchema::Logical(_, b) => b.base(),
			s => s,
		}
	}
	pub fn logical_type(&self) -> Option<&Logical> {
		match self {
			RSchema::Logical(l, _) => Some(l),
			_ => None,
		}
	}
	/// number of AST nodes
	pub fn size(&self) -> usize {
		match self {
			RSchema::Array(s) | RSchema::Map(s) | RSchema::Logical(_, s) => 1 + s.size(),
			RSchema::Union(v) => 1 + v.iter().map(|s| s.size()).sum::<usize>(),
			RSchema::Record { fields, .. } => 1 + fields.iter().map(|(_, s)| s.size()).sum::<usize>(),
			_ => 1,
		}
	}
}

/// All named definitions of a schema, by fullname. (The node stored for a logical-annotated
/// fixed is the annotated node.)
pub struct Env<'a> {
	pub defs: HashMap<&'a str, &'a RSchema>,
}

impl<'a> Env<'a> {
	pub fn new(root: &'a RSchema) -> Env<'a> {
		let mut e = Env { defs: HashMap::new() };
		e.collect(root);
		e
	}
	fn collect(&mut self, s: &'a RSchema) {
		match s {
			RSchema::Array(i) | RSchema::Map(i) => self.collect(i),
			RSchema::Union(v) => v.iter().for_each(|s| self.collect(s)),
			RSchema::Record { name, fields } => {
				self.defs.insert(name, s);
				fields.iter().for_each(|(_, f)| self.collect(f));
			}
			RSchema::Enum { name, .. } | RSchema::Fixed { name, .. } => {
				self.defs.insert(name, s);
			}
			RSchema::Logical(_, b) => {
				if let Some(n) = b.fullname() {
					if !matches!(**b, RSchema::Ref(_)) {
						self.defs.insert(n, s);
						// a logical annotation over a record: its fields may define named types too
						if let RSchema::Record { fields, .. } = &**b {
							fields.iter().for_each(|(_, f)| self.collect(f));
						}
						return;
					}
				}
				self.collect(b)
			}
			_ => {}
		}
	}
	pub fn resolve(&self, s: &'a RSchema) -> &'a RSchema {
		match s {
			RSchema::Ref(n) => self.defs.get(n.as_str()).copied().unwrap_or_else(|| panic!("model: unresolved ref {n}")),
			s => s,
		}
	}
}

// ---------------------------------------------------------------------------------------------
// Parsing canonical form

pub fn pcf(s: &RSchema) -> String {
	let mut out = String::new();
	let mut seen: Vec<String> = Vec::new();
	pcf_into(s, &mut out, &mut seen);
	out
}

fn pcf_str(s: &str, out: &mut String) {
	// [STRINGS]: the reference implementation writes names verbatim between quotes.
	out.push('"');
	out.push_str(s);
	out.push('"');
}

fn pcf_into(s: &RSchema, out: &mut String, seen: &mut Vec<String>) {
	match s {
		RSchema::Null => out.push_str("\"null\""),
		RSchema::Boolean => out.push_str("\"boolean\""),
		RSchema::Int => out.push_str("\"int\""),
		RSchema::Long => out.push_str("\"long\""),
		RSchema::Float => out.push_str("\"float\""),
		RSchema::Double => out.push_str("\"double\""),
		RSchema::Bytes => out.push_str("\"bytes\""),
		RSchema::String => out.push_str("\"string\""),
		RSchema::Array(i) => {
			out.push_str("{\"type\":\"array\",\"items\":");
			pcf_into(i, out, seen);
			out.push('}');
		}
		RSchema::Map(i) => {
			out.push_str("{\"type\":\"map\",\"values\":");
			pcf_into(i, out, seen);
			out.push('}');
		}
		RSchema::Union(v) => {
			out.push('[');
			for (i, b) in v.iter().enumerate() {
				if i > 0 {
					out.push(',');
				}
				pcf_into(b, out, seen);
			}
			out.push(']');
		}
		RSchema::Ref(n) => pcf_str(n, out),
		RSchema::Logical(_, b) => pcf_into(b, out, seen),
		RSchema::Record { name, fields } => {
			if seen.contains(name) {
				return pcf_str(name, out);
			}
			seen.push(name.clone());
			out.push_str("{\"name\":");
			pcf_str(name, out);
			out.push_str(",\"type\":\"record\",\"fields\":[");
			for (i, (fname, ft)) in fields.iter().enumerate() {
				if i > 0 {
					out.push(',');
				}
				out.push_str("{\"name\":");
				pcf_str(fname, out);
				out.push_str(",\"type\":");
				pcf_into(ft, out, seen);
				out.push('}');
			}
			out.push_str("]}");
		}
		RSchema::Enum { name, symbols } => {
			if seen.contains(name) {
				return pcf_str(name, out);
			}
			seen.push(name.clone());
			out.push_str("{\"name\":");
			pcf_str(name, out);
			out.push_str(",\"type\":\"enum\",\"symbols\":[");
			for (i, sy) in symbols.iter().enumerate() {
				if i > 0 {
					out.push(',');
				}
				pcf_str(sy, out);
			}
			out.push_str("]}");
		}
		RSchema::Fixed { name, size } => {
			if seen.contains(name) {
				return pcf_str(name, out);
			}
			seen.push(name.clone());
			out.push_str("{\"name\":");
			pcf_str(name, out);
			out.push_str(",\"type\":\"fixed\",\"size\":");
			out.push_str(&size.to_string());
			out.push('}');
		}
	}
}

// ---------------------------------------------------------------------------------------------
// Spelling

#[derive(Clone, Debug)]
pub struct SpellCfg {
	/// per-site choice among the valid ways of writing a definition's name
	pub vary_names: bool,
	/// per-site choice among the valid ways of writing a reference
	pub vary_refs: bool,
	/// per-site choice "int" vs {"type":"int"}
	pub vary_prims: bool,
	/// per-site choice: omit `scale` when it is 0
	pub vary_scale: bool,
	/// 0: type first; 1: name first; 2: type last
	pub attr_order: usize,
	/// 0: none; 1: doc/aliases/default/order; 2: unknown keys with nested JSON
	pub extras: usize,
	/// 0: minified; 1: spaces and newlines
	pub whitespace: usize,
}

impl SpellCfg {
	pub fn plain() -> Self {
		SpellCfg { vary_names: false, vary_refs: false, vary_prims: false, vary_scale: false, attr_order: 0, extras: 0, whitespace: 0 }
	}
}

pub fn spell(s: &RSchema, p: &mut dyn Pick, cfg: &SpellCfg) -> String {
	let j = spell_j(s, "", p, cfg);
	if cfg.whitespace == 0 {
		j.to_min_string()
	} else {
		let mut out = String::new();
		pretty(&j, 0, &mut out);
		out
	}
}

fn pretty(j: &J, ind: usize, out: &mut String) {
	let pad = |n: usize, out: &mut String| {
		out.push('\n');
		for _ in 0..n {
			out.push_str("\t ");
		}
	};
	match j {
		J::Arr(a) if !a.is_empty() => {
			out.push_str("[ ");
			for (i, v) in a.iter().enumerate() {
				if i > 0 {
					out.push_str(" ,");
				}
				pad(ind + 1, out);
				pretty(v, ind + 1, out);
			}
			pad(ind, out);
			out.push(']');
		}
		J::Obj(kv) if !kv.is_empty() => {
			out.push('{');
			for (i, (k, v)) in kv.iter().enumerate() {
				if i > 0 {
					out.push(',');
				}
				pad(ind + 1, out);
				crate::json::write_str(k, out);
				out.push_str(" :\r\n ");
				pretty(v, ind + 1, out);
			}
			pad(ind, out);
			out.push_str(" }");
		}
		other => other.write_min(out),
	}
}

fn order(mut kv: Vec<(String, J)>, cfg: &SpellCfg) -> J {
	// kv comes in as: type, name, namespace?, rest...
	match cfg.attr_order {
		1 => {
			// name (and namespace) first, then type, then rest
			let mut names: Vec<(String, J)> = Vec::new();
			let mut others: Vec<(String, J)> = Vec::new();
			for e in kv.drain(..) {
				if e.0 == "name" || e.0 == "namespace" {
					names.push(e)
				} else {
					others.push(e)
				}
			}
			names.extend(others);
			J::Obj(names)
		}
		2 => {
			kv.reverse();
			J::Obj(kv)
		}
		_ => J::Obj(kv),
	}
}

fn extras(kv: &mut Vec<(String, J)>, cfg: &SpellCfg, is_field: bool) {
	match cfg.extras {
		1 => {
			kv.push(("doc".into(), J::Str("some \"doc\" \\ with é".into())));
			if is_field {
				kv.push(("default".into(), J::Null));
				kv.push(("order".into(), J::Str("ignore".into())));
			}
			kv.push(("aliases".into(), J::Arr(vec![J::Str("Alias1".into()), J::Str("x.Alias2".into())])));
		}
		2 => {
			kv.insert(
				0,
				(
					"x-unknown".into(),
					J::Obj(vec![
						("type".into(), J::Str("record".into())),
						("name".into(), J::Str("Bogus".into())),
						("nested".into(), J::Arr(vec![J::Num("1".into()), J::Obj(vec![]), J::Null, J::Bool(true)])),
					]),
				),
			);
			kv.push(("zzz".into(), J::Num("1.5e3".into())));
		}
		_ => {}
	}
}

fn prim(name: &str, p: &mut dyn Pick, cfg: &SpellCfg) -> J {
	if cfg.vary_prims && p.pick(2) == 1 {
		J::Obj(vec![("type".into(), J::Str(name.into()))])
	} else {
		J::Str(name.into())
	}
}

/// name attributes for a definition of `full` inside namespace `enclosing`
fn name_attrs(full: &str, enclosing: &str, p: &mut dyn Pick, cfg: &SpellCfg) -> Vec<(String, J)> {
	let (ns, simple) = split_fullname(full);
	// valid options
	let mut opts: Vec<Vec<(String, J)>> = Vec::new();
	if ns == enclosing {
		// inherited
		opts.push(vec![("name".into(), J::Str(simple.into()))]);
	}
	if !ns.is_empty() {
		// dotted
		opts.push(vec![("name".into(), J::Str(full.into()))]);
	}
	// namespace attribute ("" = null namespace)
	opts.push(vec![("name".into(), J::Str(simple.into())), ("namespace".into(), J::Str(ns.into()))]);
	if !ns.is_empty() {
		// dotted name + contradicting namespace attribute: dotted wins
		opts.push(vec![("name".into(), J::Str(full.into())), ("namespace".into(), J::Str("contra.dict".into()))]);
	}
	let i = if cfg.vary_names { p.pick(opts.len()) } else { 0 };
	opts.swap_remove(i)
}

fn ref_str(full: &str, enclosing: &str, p: &mut dyn Pick, cfg: &SpellCfg) -> J {
	let (ns, simple) = split_fullname(full);
	let mut opts: Vec<String> = Vec::new();
	if ns == enclosing {
		opts.push(simple.into());
	}
	if !ns.is_empty() {
		opts.push(full.into());
	}
	if opts.is_empty() {
		// null-namespace type referenced from inside a namespace: not expressible per the
		// specification; the generator must not produce this. Render as simple name (which,
		// per spec, designates enclosing.simple).
		opts.push(simple.into());
	}
	let i = if cfg.vary_refs { p.pick(opts.len()) } else { 0 };
	J::Str(opts.swap_remove(i))
}

fn logical_attrs(l: &Logical, kv: &mut Vec<(String, J)>, p: &mut dyn Pick, cfg: &SpellCfg) {
	kv.push(("logicalType".into(), J::Str(l.name().into())));
	if let Logical::Decimal { precision, scale } = l {
		kv.push(("precision".into(), J::Num(precision.to_string())));
		let omit = *scale == 0 && cfg.vary_scale && p.pick(2) == 1;
		if !omit {
			kv.push(("scale".into(), J::Num(scale.to_string())));
		}
	}
}

fn spell_j(s: &RSchema, enclosing: &str, p: &mut dyn Pick, cfg: &SpellCfg) -> J {
	spell_l(s, None, enclosing, p, cfg)
}

fn spell_l(s: &RSchema, logical: Option<&Logical>, enclosing: &str, p: &mut dyn Pick, cfg: &SpellCfg) -> J {
	let prim_l = |name: &str, p: &mut dyn Pick| -> J {
		match logical {
			None => prim(name, p, cfg),
			Some(l) => {
				let mut kv = vec![("type".into(), J::Str(name.into()))];
				logical_attrs(l, &mut kv, p, cfg);
				order(kv, cfg)
			}
		}
	};
	match s {
		RSchema::Null => prim_l("null", p),
		RSchema::Boolean => prim_l("boolean", p),
		RSchema::Int => prim_l("int", p),
		RSchema::Long => prim_l("long", p),
		RSchema::Float => prim_l("float", p),
		RSchema::Double => prim_l("double", p),
		RSchema::Bytes => prim_l("bytes", p),
		RSchema::String => prim_l("string", p),
		RSchema::Logical(l, b) => spell_l(b, Some(l), enclosing, p, cfg),
		RSchema::Ref(n) => ref_str(n, enclosing, p, cfg),
		RSchema::Array(i) => {
			let mut kv = vec![("type".into(), J::Str("array".into()))];
			kv.push(("items".into(), spell_j(i, enclosing, p, cfg)));
			if let Some(l) = logical {
				logical_attrs(l, &mut kv, p, cfg);
			}
			extras(&mut kv, cfg, false);
			order(kv, cfg)
		}
		RSchema::Map(i) => {
			let mut kv = vec![("type".into(), J::Str("map".into()))];
			kv.push(("values".into(), spell_j(i, enclosing, p, cfg)));
			if let Some(l) = logical {
				logical_attrs(l, &mut kv, p, cfg);
			}
			extras(&mut kv, cfg, false);
			order(kv, cfg)
		}
		RSchema::Union(v) => J::Arr(v.iter().map(|b| spell_j(b, enclosing, p, cfg)).collect()),
		RSchema::Record { name, fields } => {
			let mut kv = vec![("type".into(), J::Str("record".into()))];
			kv.extend(name_attrs(name, enclosing, p, cfg));
			let (ns, _) = split_fullname(name);
			let fs: Vec<J> = fields
				.iter()
				.map(|(fname, ft)| {
					let mut fkv = vec![("name".into(), J::Str(fname.clone())), ("type".into(), spell_j(ft, ns, p, cfg))];
					extras(&mut fkv, cfg, true);
					if cfg.attr_order == 2 {
						fkv.reverse();
					}
					J::Obj(fkv)
				})
				.collect();
			kv.push(("fields".into(), J::Arr(fs)));
			if let Some(l) = logical {
				logical_attrs(l, &mut kv, p, cfg);
			}
			extras(&mut kv, cfg, false);
			order(kv, cfg)
		}
		RSchema::Enum { name, symbols } => {
			let mut kv = vec![("type".into(), J::Str("enum".into()))];
			kv.extend(name_attrs(name, enclosing, p, cfg));
			kv.push(("symbols".into(), J::Arr(symbols.iter().map(|s| J::Str(s.clone())).collect())));
			if let Some(l) = logical {
				logical_attrs(l, &mut kv, p, cfg);
			}
			extras(&mut kv, cfg, false);
			order(kv, cfg)
		}
		RSchema::Fixed { name, size } => {
			let mut kv = vec![("type".into(), J::Str("fixed".into()))];
			kv.extend(name_attrs(name, enclosing, p, cfg));
			kv.push(("size".into(), J::Num(size.to_string())));
			if let Some(l) = logical {
				logical_attrs(l, &mut kv, p, cfg);
			}
			extras(&mut kv, cfg, false);
			order(kv, cfg)
		}
	}
}

// ---------------------------------------------------------------------------------------------
// Resolver: JSON text -> AST, names per the specification

pub struct ResolveCfg {
	/// accept a reference whose definition comes later in the document
	pub allow_forward: bool,
	/// accept the non-standard leading-dot reference `.X` for the null namespace
	pub allow_leading_dot: bool,
}

pub fn resolve_text(text: &str, cfg: &ResolveCfg) -> Result<RSchema, String> {
	let j = crate::json::parse(text)?;
	let mut st = Res { defined: Vec::new(), refs: Vec::new(), cfg };
	let s = st.node(&j, "")?;
	for r in &st.refs {
		if !st.defined.contains(r) {
			return Err(format!("unknown reference {r}"));
		}
	}
	Ok(s)
}

struct Res<'c> {
	defined: Vec<String>,
	refs: Vec<String>,
	cfg: &'c ResolveCfg,
}

fn primitive(n: &str) -> Option<RSchema> {
	Some(match n {
		"null" => RSchema::Null,
		"boolean" => RSchema::Boolean,
		"int" => RSchema::Int,
		"long" => RSchema::Long,
		"float" => RSchema::Float,
		"double" => RSchema::Double,
		"bytes" => RSchema::Bytes,
		"string" => RSchema::String,
		_ => return None,
	})
}

impl<'c> Res<'c> {
	fn fullname_of_def(&self, obj: &J, enclosing: &str) -> Result<String, String> {
		let name = obj.get("name").and_then(|n| n.as_str()).ok_or("missing name")?;
		if name.contains('.') {
			let n = name.strip_prefix('.').filter(|r| !r.contains('.')).unwrap_or(name);
			return Ok(n.to_owned());
		}
		let ns = match obj.get("namespace") {
			Some(J::Str(ns)) => ns.as_str(),
			Some(_) => return Err("namespace not a string".into()),
			None => enclosing,
		};
		Ok(if ns.is_empty() { name.to_owned() } else { format!("{ns}.{name}") })
	}
	fn define(&mut self, full: &str) -> Result<(), String> {
		if self.defined.iter().any(|d| d == full) {
			return Err(format!("duplicate definition {full}"));
		}
		self.defined.push(full.to_owned());
		Ok(())
	}
	fn reference(&mut self, name: &str, enclosing: &str) -> Result<RSchema, String> {
		let full = if let Some(rest) = name.strip_prefix('.').filter(|r| !r.contains('.')) {
			if !self.cfg.allow_leading_dot {
				return Err(format!("leading-dot reference {name}"));
			}
			rest.to_owned()
		} else if name.contains('.') || enclosing.is_empty() {
			name.to_owned()
		} else {
			format!("{enclosing}.{name}")
		};
		if !self.cfg.allow_forward && !self.defined.contains(&full) {
			return Err(format!("unknown reference {full}"));
		}
		self.refs.push(full.clone());
		Ok(RSchema::Ref(full))
	}
	fn node(&mut self, j: &J, enclosing: &str) -> Result<RSchema, String> {
		match j {
			J::Str(s) => match primitive(s) {
				Some(p) => Ok(p),
				None => self.reference(s, enclosing),
			},
			J::Arr(v) => Ok(RSchema::Union(v.iter().map(|b| self.node(b, enclosing)).collect::<Result<_, _>>()?)),
			J::Obj(_) => {
				let t = j.get("type").ok_or("missing type")?;
				let t = match t {
					J::Str(t) => t.as_str(),
					_ => return Err("nested type objects are not supported by the model".into()),
				};
				let base = match t {
					"array" => RSchema::Array(Box::new(self.node(j.get("items").ok_or("missing items")?, enclosing)?)),
					"map" => RSchema::Map(Box::new(self.node(j.get("values").ok_or("missing values")?, enclosing)?)),
					"record" | "error" => {
						let full = self.fullname_of_def(j, enclosing)?;
						self.define(&full)?;
						let ns = split_fullname(&full).0.to_owned();
						let fields = match j.get("fields") {
							Some(J::Arr(f)) => f,
							_ => return Err("missing fields".into()),
						};
						let mut out = Vec::new();
						for f in fields {
							let fname = f.get("name").and_then(|n| n.as_str()).ok_or("missing field name")?;
							let ft = self.node(f.get("type").ok_or("missing field type")?, &ns)?;
							out.push((fname.to_owned(), ft));
						}
						RSchema::Record { name: full, fields: out }
					}
					"enum" => {
						let full = self.fullname_of_def(j, enclosing)?;
						self.define(&full)?;
						let symbols = match j.get("symbols") {
							Some(J::Arr(s)) => s.iter().map(|s| s.as_str().map(|s| s.to_owned()).ok_or("symbol not a string")).collect::<Result<Vec<_>, _>>()?,
							_ => return Err("missing symbols".into()),
						};
						RSchema::Enum { name: full, symbols }
					}
					"fixed" => {
						let full = self.fullname_of_def(j, enclosing)?;
						self.define(&full)?;
						let size = j.get("size").and_then(|s| s.as_usize()).ok_or("missing size")?;
						RSchema::Fixed { name: full, size }
					}
					other => match primitive(other) {
						Some(p) => p,
						None => return Err(format!("{{\"type\": {other:?}}}: named reference in type object is not blessed by the spec")),
					},
				};
				match j.get("logicalType") {
					Some(J::Str(l)) => {
						let l = match l.as_str() {
							"decimal" => Logical::Decimal {
								precision: j.get("precision").and_then(|s| s.as_usize()).ok_or("missing precision")?,
								scale: match j.get("scale") {
									None => 0,
									Some(s) => s.as_usize().ok_or("bad scale")? as u32,
								},
							},
							"uuid" => Logical::Uuid,
							"date" => Logical::Date,
							"time-millis" => Logical::TimeMillis,
							"time-micros" => Logical::TimeMicros,
							"timestamp-millis" => Logical::TimestampMillis,
							"timestamp-micros" => Logical::TimestampMicros,
							"duration" => Logical::Duration,
							"big-decimal" => Logical::BigDecimal,
							o => Logical::Unknown(o.to_owned()),
						};
						Ok(RSchema::Logical(l, Box::new(base)))
					}
					_ => Ok(base),
				}
			}
			_ => Err("schema node must be a string, array or object".into()),
		}
	}
}

/// Unconditional self-containment: a record that contains itself through record fields only.
pub fn has_unconditional_record_cycle(root: &RSchema) -> bool {
	let env = Env::new(root);
	fn visit<'a>(s: &'a RSchema, env: &Env<'a>, stack: &mut Vec<&'a str>) -> bool {
		let s = env.resolve(s);
		if let RSchema::Record { name, fields } = s {
			if stack.contains(&name.as_str()) {
				return true;
			}
			stack.push(name);
			for (_, f) in fields {
				if visit(f, env, stack) {
					return true;
				}
			}
			stack.pop();
		}
		false
	}
	fn all<'a>(s: &'a RSchema, env: &Env<'a>) -> bool {
		let mut stack = Vec::new();
		if visit(s, env, &mut stack) {
			return true;
		}
		match s {
			RSchema::Array(i) | RSchema::Map(i) | RSchema::Logical(_, i) => all(i, env),
			RSchema::Union(v) => v.iter().any(|b| all(b, env)),
			RSchema::Record { fields, .. } => fields.iter().any(|(_, f)| all(f, env)),
			_ => false,
		}
	}
	all(root, &env)
}

#[cfg(test)]
mod tests {
	use super::*;
	use crate::Zero;
	#[test]
	fn pcf_example() {
		let s = RSchema::record(
			"a.R",
			vec![("x", RSchema::Int), ("e", RSchema::enum_("a.E", &["A", "B"])), ("e2", RSchema::rf("a.E")), ("f", RSchema::array(RSchema::fixed("b.F", 3)))],
		);
		assert_eq!(
			pcf(&s),
			r#"{"name":"a.R","type":"record","fields":[{"name":"x","type":"int"},{"name":"e","type":{"name":"a.E","type":"enum","symbols":["A","B"]}},{"name":"e2","type":"a.E"},{"name":"f","type":{"type":"array","items":{"name":"b.F","type":"fixed","size":3}}}]}"#
		);
		let text = spell(&s, &mut Zero, &SpellCfg::plain());
		let back = resolve_text(&text, &ResolveCfg { allow_forward: false, allow_leading_dot: false }).unwrap();
		assert_eq!(back, s);
	}
}
