//! Object container files, from the specification. Codec framing through *streaming*
//! encoders/decoders or foreign implementations, never through the subject's code paths.

use crate::crc::crc32_ieee;
use crate::value::{write_long, zigzag};
use std::io::{Read, Write};

pub const MAGIC: [u8; 4] = [b'O', b'b', b'j', 1];

#[derive(Clone, Debug, PartialEq)]
pub struct CfBlock {
	pub count: u64,
	/// codec-framed bytes as found in the file
	pub raw: Vec<u8>,
	/// after removing the codec framing
	pub data: Vec<u8>,
}

#[derive(Clone, Debug, PartialEq)]
pub struct CfFile {
	/// metadata pairs in file order
	pub meta: Vec<(String, Vec<u8>)>,
	pub sync: [u8; 16],
	pub blocks: Vec<CfBlock>,
	/// codec name (absent => "null")
	pub codec: String,
}

impl CfFile {
	pub fn meta_get(&self, k: &str) -> Option<&[u8]> {
		self.meta.iter().find(|(kk, _)| kk == k).map(|(_, v)| v.as_slice())
	}
}

struct Cur<'a> {
	b: &'a [u8],
	i: usize,
}
impl<'a> Cur<'a> {
	fn take(&mut self, n: usize) -> Result<&'a [u8], String> {
		if n > self.b.len() - self.i {
			return Err(format!("premature end at offset {} (wanted {n} bytes)", self.i));
		}
		let s = &self.b[self.i..self.i + n];
		self.i += n;
		Ok(s)
	}
	fn long(&mut self) -> Result<i64, String> {
		let mut u: u64 = 0;
		let mut shift = 0;
		loop {
			let b = self.take(1)?[0];
			if shift >= 64 {
				return Err("varint too long".into());
			}
			u |= ((b & 0x7f) as u64) << shift;
			shift += 7;
			if b & 0x80 == 0 {
				break;
			}
		}
		Ok(crate::value::unzigzag(u))
	}
}

pub fn decompress(codec: &str, raw: &[u8]) -> Result<Vec<u8>, String> {
	match codec {
		"null" => Ok(raw.to_vec()),
		"deflate" => {
			// libflate: an independent DEFLATE implementation (raw RFC 1951, no zlib header)
			let mut d = libflate::deflate::Decoder::new(raw);
			let mut out = Vec::new();
			d.read_to_end(&mut out).map_err(|e| format!("deflate: {e}"))?;
			let rest = d.into_inner();
			if !rest.is_empty() {
				return Err(format!("deflate: {} bytes after end of stream", rest.len()));
			}
			Ok(out)
		}
		"bzip2" => {
			let mut d = bzip2::read::BzDecoder::new(raw);
			let mut out = Vec::new();
			d.read_to_end(&mut out).map_err(|e| format!("bzip2: {e}"))?;
			if d.total_in() as usize != raw.len() {
				return Err(format!("bzip2: stream ends after {} of {} bytes", d.total_in(), raw.len()));
			}
			Ok(out)
		}
		"xz" => {
			let mut d = xz2::read::XzDecoder::new(raw);
			let mut out = Vec::new();
			d.read_to_end(&mut out).map_err(|e| format!("xz: {e}"))?;
			if d.total_in() as usize != raw.len() {
				return Err(format!("xz: stream ends after {} of {} bytes", d.total_in(), raw.len()));
			}
			Ok(out)
		}
		"zstandard" => zstd::stream::decode_all(raw).map_err(|e| format!("zstandard: {e}")),
		"snappy" => {
			if raw.len() < 4 {
				return Err("snappy: block shorter than its CRC".into());
			}
			let (body, crc) = raw.split_at(raw.len() - 4);
			let out = snap::raw::Decoder::new().decompress_vec(body).map_err(|e| format!("snappy: {e}"))?;
			let expect = u32::from_be_bytes(crc.try_into().unwrap());
			let got = crc32_ieee(&out);
			if expect != got {
				return Err(format!("snappy: CRC-32 of uncompressed data is {got:08x}, trailer says {expect:08x} (big-endian)"));
			}
			Ok(out)
		}
		other => Err(format!("unknown codec {other:?}")),
	}
}

pub fn compress(codec: &str, data: &[u8]) -> Result<Vec<u8>, String> {
	match codec {
		"null" => Ok(data.to_vec()),
		"deflate" => {
			let mut e = libflate::deflate::Encoder::new(Vec::new());
			e.write_all(data).map_err(|e| e.to_string())?;
			e.finish().into_result().map_err(|e| e.to_string())
		}
		"bzip2" => {
			let mut e = bzip2::write::BzEncoder::new(Vec::new(), bzip2::Compression::new(6));
			e.write_all(data).map_err(|e| e.to_string())?;
			e.finish().map_err(|e| e.to_string())
		}
		"xz" => {
			let mut e = xz2::write::XzEncoder::new(Vec::new(), 3);
			e.write_all(data).map_err(|e| e.to_string())?;
			e.finish().map_err(|e| e.to_string())
		}
		"zstandard" => zstd::stream::encode_all(data, 3).map_err(|e| e.to_string()),
		"snappy" => {
			let mut out = snap::raw::Encoder::new().compress_vec(data).map_err(|e| e.to_string())?;
			out.extend_from_slice(&crc32_ieee(data).to_be_bytes());
			Ok(out)
		}
		other => Err(format!("unknown codec {other:?}")),
	}
}

/// Parse a complete container file. Strict: whole blocks only, every sync must match.
pub fn cf_parse(bytes: &[u8]) -> Result<CfFile, String> {
	let mut c = Cur { b: bytes, i: 0 };
	if c.take(4)? != MAGIC {
		return Err("bad magic".into());
	}
	// metadata: map<bytes>
	let mut meta: Vec<(String, Vec<u8>)> = Vec::new();
	loop {
		let n = c.long()?;
		if n == 0 {
			break;
		}
		let count = if n < 0 {
			let _size = c.long()?;
			(n as i128).unsigned_abs() as u64
		} else {
			n as u64
		};
		for _ in 0..count {
			let kl = c.long()?;
			if kl < 0 {
				return Err("negative key length".into());
			}
			let k = std::str::from_utf8(c.take(kl as usize)?).map_err(|e| e.to_string())?.to_owned();
			let vl = c.long()?;
			if vl < 0 {
				return Err("negative value length".into());
			}
			let v = c.take(vl as usize)?.to_vec();
			meta.push((k, v));
		}
	}
	let sync: [u8; 16] = c.take(16)?.try_into().unwrap();
	let codec = match meta.iter().find(|(k, _)| k == "avro.codec") {
		None => "null".to_owned(),
		Some((_, v)) => String::from_utf8(v.clone()).map_err(|e| e.to_string())?,
	};
	let mut blocks = Vec::new();
	while c.i < bytes.len() {
		let at = c.i;
		let count = c.long()?;
		let size = c.long()?;
		if count < 0 || size < 0 {
			return Err(format!("block at {at}: negative count/size"));
		}
		let raw = c.take(size as usize).map_err(|e| format!("block at {at}: {e}"))?.to_vec();
		let s = c.take(16).map_err(|e| format!("block at {at}: sync: {e}"))?;
		if s != sync {
			return Err(format!("block at {at}: sync marker mismatch"));
		}
		let data = decompress(&codec, &raw).map_err(|e| format!("block at {at}: {e}"))?;
		blocks.push(CfBlock { count: count as u64, raw, data });
	}
	Ok(CfFile { meta, sync, blocks, codec })
}

/// How to lay out the metadata map when writing a file
#[derive(Clone, Debug)]
pub struct MetaLayout {
	/// sizes of the successive blocks of the metadata map (must sum to the number of pairs)
	pub blocks: Vec<usize>,
	/// write blocks with negative count + byte size
	pub sized: bool,
}

pub fn write_meta(meta: &[(String, Vec<u8>)], layout: &MetaLayout, out: &mut Vec<u8>) {
	let mut idx = 0;
	for &n in &layout.blocks {
		if n == 0 {
			continue;
		}
		let mut body = Vec::new();
		for (k, v) in &meta[idx..idx + n] {
			write_long(k.len() as i64, &mut body);
			body.extend_from_slice(k.as_bytes());
			write_long(v.len() as i64, &mut body);
			body.extend_from_slice(v);
		}
		idx += n;
		if layout.sized {
			write_long(-(n as i64), out);
			write_long(body.len() as i64, out);
		} else {
			write_long(n as i64, out);
		}
		out.extend_from_slice(&body);
	}
	assert_eq!(idx, meta.len());
	write_long(0, out);
}

/// Write a container file. `blocks` = (object count, uncompressed concatenated datums).
pub fn cf_write(meta: &[(String, Vec<u8>)], layout: &MetaLayout, sync: [u8; 16], codec: &str, blocks: &[(u64, Vec<u8>)]) -> Result<Vec<u8>, String> {
	let mut out = Vec::new();
	out.extend_from_slice(&MAGIC);
	write_meta(meta, layout, &mut out);
	out.extend_from_slice(&sync);
	for (count, data) in blocks {
		let raw = compress(codec, data)?;
		crate::value::write_varint(zigzag(*count as i64), &mut out);
		write_long(raw.len() as i64, &mut out);
		out.extend_from_slice(&raw);
		out.extend_from_slice(&sync);
	}
	Ok(out)
}

#[cfg(test)]
mod tests {
	use super::*;
	#[test]
	fn roundtrip_all_codecs() {
		let meta = vec![("avro.schema".to_owned(), b"\"long\"".to_vec()), ("avro.codec".to_owned(), b"x".to_vec())];
		for codec in ["null", "deflate", "bzip2", "xz", "zstandard", "snappy"] {
			let mut m = meta.clone();
			m[1].1 = codec.as_bytes().to_vec();
			let f = cf_write(&m, &MetaLayout { blocks: vec![1, 1], sized: true }, [7; 16], codec, &[(2, vec![2, 4]), (1, vec![6])]).unwrap();
			let p = cf_parse(&f).unwrap();
			assert_eq!(p.codec, codec);
			assert_eq!(p.blocks.len(), 2);
			assert_eq!(p.blocks[0].data, vec![2, 4]);
			assert_eq!(p.blocks[1].count, 1);
			assert_eq!(p.meta, m);
		}
	}
}
