//! Minimal ordered JSON reader/writer (object key order preserved, duplicate keys kept).

#[derive(Clone, Debug, PartialEq)]
pub enum J {
	Null,
	Bool(bool),
	/// numbers are kept as their source text
	Num(String),
	Str(String),
	Arr(Vec<J>),
	Obj(Vec<(String, J)>),
}

impl J {
	pub fn get(&self, key: &str) -> Option<&J> {
		match self {
			J::Obj(kv) => kv.iter().find(|(k, _)| k == key).map(|(_, v)| v),
			_ => None,
		}
	}
	pub fn as_str(&self) -> Option<&str> {
		match self {
			J::Str(s) => Some(s),
			_ => None,
		}
	}
	pub fn as_usize(&self) -> Option<usize> {
		match self {
			J::Num(s) => s.parse().ok(),
			_ => None,
		}
	}
	pub fn to_min_string(&self) -> String {
		let mut s = String::new();
		self.write_min(&mut s);
		s
	}
	pub fn write_min(&self, out: &mut String) {
		match self {
			J::Null => out.push_str("null"),
			J::Bool(b) => out.push_str(if *b { "true" } else { "false" }),
			J::Num(n) => out.push_str(n),
			J::Str(s) => write_str(s, out),
			J::Arr(a) => {
				out.push('[');
				for (i, v) in a.iter().enumerate() {
					if i > 0 {
						out.push(',');
					}
					v.write_min(out);
				}
				out.push(']');
			}
			J::Obj(kv) => {
				out.push('{');
				for (i, (k, v)) in kv.iter().enumerate() {
					if i > 0 {
						out.push(',');
					}
					write_str(k, out);
					out.push(':');
					v.write_min(out);
				}
				out.push('}');
			}
		}
	}
}

pub fn write_str(s: &str, out: &mut String) {
	out.push('"');
	for c in s.chars() {
		match c {
			'"' => out.push_str("\\\""),
			'\\' => out.push_str("\\\\"),
			'\n' => out.push_str("\\n"),
			'\r' => out.push_str("\\r"),
			'\t' => out.push_str("\\t"),
			'\u{08}' => out.push_str("\\b"),
			'\u{0c}' => out.push_str("\\f"),
			c if (c as u32) < 0x20 => out.push_str(&format!("\\u{:04x}", c as u32)),
			c => out.push(c),
		}
	}
	out.push('"');
}

pub fn parse(s: &str) -> Result<J, String> {
	let mut p = P { b: s.as_bytes(), i: 0, depth: 0 };
	p.ws();
	let v = p.value()?;
	p.ws();
	if p.i != p.b.len() {
		return Err(format!("trailing characters at {}", p.i));
	}
	Ok(v)
}

struct P<'a> {
	b: &'a [u8],
	i: usize,
	depth: usize,
}

impl<'a> P<'a> {
	fn ws(&mut self) {
		while self.i < self.b.len() && matches!(self.b[self.i], b' ' | b'\t' | b'\n' | b'\r') {
			self.i += 1;
		}
	}
	fn peek(&self) -> Option<u8> {
		self.b.get(self.i).copied()
	}
	fn value(&mut self) -> Result<J, String> {
		self.depth += 1;
		if self.depth > 500 {
			return Err("too deep".into());
		}
		let r = self.value_inner();
		self.depth -= 1;
		r
	}
	fn value_inner(&mut self) -> Result<J, String> {
		match self.peek() {
			None => Err("eof".into()),
			Some(b'n') => self.lit("null", J::Null),
			Some(b't') => self.lit("true", J::Bool(true)),
			Some(b'f') => self.lit("false", J::Bool(false)),
			Some(b'"') => Ok(J::Str(self.string()?)),
			Some(b'[') => {
				self.i += 1;
				let mut v = Vec::new();
				self.ws();
				if self.peek() == Some(b']') {
					self.i += 1;
					return Ok(J::Arr(v));
				}
				loop {
					self.ws();
					v.push(self.value()?);
					self.ws();
					match self.peek() {
						Some(b',') => self.i += 1,
						Some(b']') => {
							self.i += 1;
							return Ok(J::Arr(v));
						}
						_ => return Err(format!("expected , or ] at {}", self.i)),
					}
				}
			}
			Some(b'{') => {
				self.i += 1;
				let mut v = Vec::new();
				self.ws();
				if self.peek() == Some(b'}') {
					self.i += 1;
					return Ok(J::Obj(v));
				}
				loop {
					self.ws();
					if self.peek() != Some(b'"') {
						return Err(format!("expected key at {}", self.i));
					}
					let k = self.string()?;
					self.ws();
					if self.peek() != Some(b':') {
						return Err(format!("expected : at {}", self.i));
					}
					self.i += 1;
					self.ws();
					let val = self.value()?;
					v.push((k, val));
					self.ws();
					match self.peek() {
						Some(b',') => self.i += 1,
						Some(b'}') => {
							self.i += 1;
							return Ok(J::Obj(v));
						}
						_ => return Err(format!("expected , or }} at {}", self.i)),
					}
				}
			}
			Some(c) if c == b'-' || c.is_ascii_digit() => {
				let st = self.i;
				self.i += 1;
				while self.i < self.b.len()
					&& matches!(self.b[self.i], b'0'..=b'9' | b'.' | b'e' | b'E' | b'+' | b'-')
				{
					self.i += 1;
				}
				Ok(J::Num(String::from_utf8_lossy(&self.b[st..self.i]).into_owned()))
			}
			Some(c) => Err(format!("unexpected byte {c:#x} at {}", self.i)),
		}
	}
	fn lit(&mut self, s: &str, v: J) -> Result<J, String> {
		if self.b[self.i..].starts_with(s.as_bytes()) {
			self.i += s.len();
			Ok(v)
		} else {
			Err(format!("bad literal at {}", self.i))
		}
	}
	fn string(&mut self) -> Result<String, String> {
		self.i += 1; // opening quote
		let mut out: Vec<u8> = Vec::new();
		loop {
			let c = *self.b.get(self.i).ok_or("eof in string")?;
			self.i += 1;
			match c {
				b'"' => break,
				b'\\' => {
					let e = *self.b.get(self.i).ok_or("eof in escape")?;
					self.i += 1;
					match e {
						b'"' => out.push(b'"'),
						b'\\' => out.push(b'\\'),
						b'/' => out.push(b'/'),
						b'b' => out.push(8),
						b'f' => out.push(12),
						b'n' => out.push(b'\n'),
						b'r' => out.push(b'\r'),
						b't' => out.push(b'\t'),
						b'u' => {
							let cp = self.hex4()?;
							let ch = if (0xD800..0xDC00).contains(&cp) {
								if self.b.get(self.i) == Some(&b'\\') && self.b.get(self.i + 1) == Some(&b'u') {
									self.i += 2;
									let lo = self.hex4()?;
									let c = 0x10000 + ((cp - 0xD800) << 10) + (lo.wrapping_sub(0xDC00));
									char::from_u32(c).ok_or("bad surrogate")?
								} else {
									return Err("lone surrogate".into());
								}
							} else {
								char::from_u32(cp).ok_or("bad codepoint")?
							};
							let mut buf = [0u8; 4];
							out.extend_from_slice(ch.encode_utf8(&mut buf).as_bytes());
						}
						_ => return Err("bad escape".into()),
					}
				}
				c => out.push(c),
			}
		}
		String::from_utf8(out).map_err(|e| e.to_string())
	}
	fn hex4(&mut self) -> Result<u32, String> {
		let s = self.b.get(self.i..self.i + 4).ok_or("eof in \\u")?;
		self.i += 4;
		u32::from_str_radix(std::str::from_utf8(s).map_err(|e| e.to_string())?, 16).map_err(|e| e.to_string())
	}
}

#[cfg(test)]
mod tests {
	use super::*;
	#[test]
	fn roundtrip() {
		let s = r#"{"a":[1,2,{"b":"x\ny"}],"c":null,"d":true,"e":-1.5e3}"#;
		assert_eq!(parse(s).unwrap().to_min_string(), s);
		assert_eq!(parse(" { \"a\" : [ ] } ").unwrap().to_min_string(), "{\"a\":[]}");
	}
}
