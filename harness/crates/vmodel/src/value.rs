//! Avro binary encoding of values, from the specification.

use crate::schema::{Env, Logical, RSchema};
use crate::Pick;

#[derive(Clone, Debug, PartialEq, Eq, Hash)]
pub enum RValue {
	Null,
	Bool(bool),
	Int(i32),
	Long(i64),
	/// bit pattern
	Float(u32),
	/// bit pattern
	Double(u64),
	Bytes(Vec<u8>),
	Str(String),
	Fixed(Vec<u8>),
	Enum(usize),
	Array(Vec<RValue>),
	Map(Vec<(String, RValue)>),
	Union(usize, Box<RValue>),
	Record(Vec<RValue>),
}

pub fn zigzag(n: i64) -> u64 {
	((n << 1) ^ (n >> 63)) as u64
}
pub fn unzigzag(u: u64) -> i64 {
	((u >> 1) as i64) ^ -((u & 1) as i64)
}

pub fn write_varint(u: u64, out: &mut Vec<u8>) {
	let mut u = u;
	loop {
		let b = (u & 0x7f) as u8;
		u >>= 7;
		if u == 0 {
			out.push(b);
			break;
		} else {
			out.push(b | 0x80);
		}
	}
}
pub fn write_long(n: i64, out: &mut Vec<u8>) {
	write_varint(zigzag(n), out)
}
pub fn long_bytes(n: i64) -> Vec<u8> {
	let mut v = Vec::new();
	write_long(n, &mut v);
	v
}

/// One block of an array/map: number of items, and whether it is written with a negative count
/// followed by the block's byte size.
#[derive(Clone, Copy, Debug, PartialEq, Eq)]
pub struct Block {
	pub items: usize,
	pub sized: bool,
}

/// Chooses block layouts for collections.
pub trait Layout {
	fn blocks(&mut self, n_items: usize) -> Vec<Block>;
}

/// The layout the specification's writer would typically produce: one block (if non-empty).
pub struct Canonical;
impl Layout for Canonical {
	fn blocks(&mut self, n: usize) -> Vec<Block> {
		if n == 0 {
			vec![]
		} else {
			vec![Block { items: n, sized: false }]
		}
	}
}

/// Every composition of n into blocks, every sign assignment: driven by picks.
/// `allow_empty_blocks` is not offered: a zero count terminates the collection by definition.
pub struct PickLayout<'p> {
	pub p: &'p mut dyn Pick,
	/// collections with more than this many items get the canonical layout
	pub max_items: usize,
	/// how many collections were given a non-canonical layout
	pub noncanonical: usize,
}
impl<'p> Layout for PickLayout<'p> {
	fn blocks(&mut self, n: usize) -> Vec<Block> {
		if n == 0 {
			return vec![];
		}
		if n > self.max_items {
			return Canonical.blocks(n);
		}
		let mut out = Vec::new();
		let mut cur = 1usize;
		for _ in 1..n {
			// cut here?
			if self.p.pick(2) == 1 {
				out.push(cur);
				cur = 1;
			} else {
				cur += 1;
			}
		}
		out.push(cur);
		let res: Vec<Block> = out.into_iter().map(|items| Block { items, sized: self.p.pick(2) == 1 }).collect();
		if res.len() > 1 || res[0].sized {
			self.noncanonical += 1;
		}
		res
	}
}

pub fn encode(v: &RValue, s: &RSchema, env: &Env, layout: &mut dyn Layout) -> Result<Vec<u8>, String> {
	let mut out = Vec::new();
	enc(v, s, env, layout, &mut out)?;
	Ok(out)
}

fn enc(v: &RValue, s: &RSchema, env: &Env, layout: &mut dyn Layout, out: &mut Vec<u8>) -> Result<(), String> {
	let s = env.resolve(s).base();
	let s = env.resolve(s).base();
	match (s, v) {
		(RSchema::Null, RValue::Null) => {}
		(RSchema::Boolean, RValue::Bool(b)) => out.push(*b as u8),
		(RSchema::Int, RValue::Int(i)) => write_long(*i as i64, out),
		(RSchema::Long, RValue::Long(i)) => write_long(*i, out),
		(RSchema::Float, RValue::Float(b)) => out.extend_from_slice(&b.to_le_bytes()),
		(RSchema::Double, RValue::Double(b)) => out.extend_from_slice(&b.to_le_bytes()),
		(RSchema::Bytes, RValue::Bytes(b)) => {
			write_long(b.len() as i64, out);
			out.extend_from_slice(b);
		}
		(RSchema::String, RValue::Str(st)) => {
			write_long(st.len() as i64, out);
			out.extend_from_slice(st.as_bytes());
		}
		(RSchema::Fixed { size, .. }, RValue::Fixed(b)) => {
			if b.len() != *size {
				return Err("fixed size mismatch".into());
			}
			out.extend_from_slice(b);
		}
		(RSchema::Enum { symbols, .. }, RValue::Enum(i)) => {
			if *i >= symbols.len() {
				return Err("enum index out of range".into());
			}
			write_long(*i as i64, out);
		}
		(RSchema::Array(item), RValue::Array(items)) => {
			let blocks = layout.blocks(items.len());
			let mut idx = 0;
			for b in blocks {
				let mut body = Vec::new();
				for it in &items[idx..idx + b.items] {
					enc(it, item, env, layout, &mut body)?;
				}
				idx += b.items;
				if b.sized {
					write_long(-(b.items as i64), out);
					write_long(body.len() as i64, out);
				} else {
					write_long(b.items as i64, out);
				}
				out.extend_from_slice(&body);
			}
			assert_eq!(idx, items.len());
			write_long(0, out);
		}
		(RSchema::Map(item), RValue::Map(items)) => {
			let blocks = layout.blocks(items.len());
			let mut idx = 0;
			for b in blocks {
				let mut body = Vec::new();
				for (k, it) in &items[idx..idx + b.items] {
					write_long(k.len() as i64, &mut body);
					body.extend_from_slice(k.as_bytes());
					enc(it, item, env, layout, &mut body)?;
				}
				idx += b.items;
				if b.sized {
					write_long(-(b.items as i64), out);
					write_long(body.len() as i64, out);
				} else {
					write_long(b.items as i64, out);
				}
				out.extend_from_slice(&body);
			}
			assert_eq!(idx, items.len());
			write_long(0, out);
		}
		(RSchema::Union(branches), RValue::Union(i, inner)) => {
			let b = branches.get(*i).ok_or("union index out of range")?;
			write_long(*i as i64, out);
			enc(inner, b, env, layout, out)?;
		}
		(RSchema::Record { fields, .. }, RValue::Record(vals)) => {
			if fields.len() != vals.len() {
				return Err("record arity".into());
			}
			for ((_, fs), fv) in fields.iter().zip(vals) {
				enc(fv, fs, env, layout, out)?;
			}
		}
		(s, v) => return Err(format!("value {v:?} does not conform to {s:?}")),
	}
	Ok(())
}

#[derive(Clone, Debug, PartialEq)]
pub enum Verdict {
	/// valid encoding of this value, consuming this many bytes
	Valid(RValue, usize),
	/// the specification makes this an invalid encoding
	Invalid(String),
	/// the specification does not say (or the model refuses to judge)
	Unspecified(String),
}

enum Stop {
	Invalid(String),
	Unspec(String),
}

pub struct Limits {
	/// refuse to model collections with more items than this (-> Unspecified)
	pub max_items: u64,
}
impl Default for Limits {
	fn default() -> Self {
		Limits { max_items: 100_000 }
	}
}

pub fn decode(bytes: &[u8], s: &RSchema, env: &Env) -> Verdict {
	decode_with(bytes, s, env, &Limits::default())
}

pub fn decode_with(bytes: &[u8], s: &RSchema, env: &Env, limits: &Limits) -> Verdict {
	let mut d = D { b: bytes, i: 0, env, limits, depth: 0, max_depth: 0, max_collection: 0, max_field: 0 };
	match d.dec(s) {
		Ok(v) => Verdict::Valid(v, d.i),
		Err(Stop::Invalid(m)) => Verdict::Invalid(m),
		Err(Stop::Unspec(m)) => Verdict::Unspecified(m),
	}
}

/// Facts about a valid datum, used by the resource-limit oracle.
#[derive(Clone, Debug, Default, PartialEq)]
pub struct Shape {
	/// nesting depth counted as the number of array/map/union/record levels on the deepest path
	pub depth: usize,
	/// largest number of items in a single array/map
	pub max_collection: usize,
	/// largest length-prefixed or fixed field in bytes
	pub max_field: usize,
}

pub fn decode_shape(bytes: &[u8], s: &RSchema, env: &Env) -> (Verdict, Shape) {
	let limits = Limits::default();
	let mut d = D { b: bytes, i: 0, env, limits: &limits, depth: 0, max_depth: 0, max_collection: 0, max_field: 0 };
	let v = match d.dec(s) {
		Ok(v) => Verdict::Valid(v, d.i),
		Err(Stop::Invalid(m)) => Verdict::Invalid(m),
		Err(Stop::Unspec(m)) => Verdict::Unspecified(m),
	};
	(v, Shape { depth: d.max_depth, max_collection: d.max_collection, max_field: d.max_field })
}

struct D<'a> {
	b: &'a [u8],
	i: usize,
	env: &'a Env<'a>,
	limits: &'a Limits,
	depth: usize,
	max_depth: usize,
	max_collection: usize,
	max_field: usize,
}

impl<'a> D<'a> {
	fn eof<T>(&self) -> Result<T, Stop> {
		Err(Stop::Invalid("premature end of input".into()))
	}
	/// zig-zag varint; `max_bytes` = 5 for int, 10 for long
	fn varint(&mut self, max_bytes: usize) -> Result<i64, Stop> {
		let mut u: u64 = 0;
		let mut shift = 0u32;
		let mut n = 0usize;
		loop {
			let Some(&b) = self.b.get(self.i) else { return self.eof() };
			self.i += 1;
			n += 1;
			if shift < 64 {
				let part = (b & 0x7f) as u64;
				if shift == 63 && part > 1 {
					return Err(Stop::Unspec("varint overflows 64 bits".into()));
				}
				u |= part << shift;
			} else if b & 0x7f != 0 {
				return Err(Stop::Unspec("varint overflows 64 bits".into()));
			}
			shift += 7;
			if b & 0x80 == 0 {
				break;
			}
			if n >= 10 {
				return Err(Stop::Unspec("varint longer than 10 bytes".into()));
			}
		}
		if n > max_bytes {
			return Err(Stop::Unspec("varint longer than the type allows".into()));
		}
		// over-long encodings (trailing zero groups): the spec does not forbid nor define them
		if n > 1 && self.b[self.i - 1] == 0 {
			return Err(Stop::Unspec("over-long varint".into()));
		}
		Ok(unzigzag(u))
	}
	fn int(&mut self) -> Result<i32, Stop> {
		let v = self.varint(5)?;
		i32::try_from(v).map_err(|_| Stop::Unspec("int does not fit 32 bits".into()))
	}
	fn long(&mut self) -> Result<i64, Stop> {
		self.varint(10)
	}
	fn take(&mut self, n: usize) -> Result<&'a [u8], Stop> {
		if n > self.b.len() - self.i {
			return self.eof();
		}
		let s = &self.b[self.i..self.i + n];
		self.i += n;
		Ok(s)
	}
	fn len_prefixed(&mut self) -> Result<&'a [u8], Stop> {
		let l = self.long()?;
		if l < 0 {
			return Err(Stop::Invalid("negative length".into()));
		}
		let l = usize::try_from(l).map_err(|_| Stop::Invalid("length too large".into()))?;
		self.max_field = self.max_field.max(l);
		self.take(l)
	}
	fn enter(&mut self) {
		self.depth += 1;
		self.max_depth = self.max_depth.max(self.depth);
	}
	fn dec(&mut self, s: &'a RSchema) -> Result<RValue, Stop> {
		let s = self.env.resolve(s).base();
		let s = self.env.resolve(s).base();
		Ok(match s {
			RSchema::Null => RValue::Null,
			RSchema::Boolean => match self.take(1)?[0] {
				0 => RValue::Bool(false),
				1 => RValue::Bool(true),
				o => return Err(Stop::Invalid(format!("boolean byte {o}"))),
			},
			RSchema::Int => RValue::Int(self.int()?),
			RSchema::Long => RValue::Long(self.long()?),
			RSchema::Float => RValue::Float(u32::from_le_bytes(self.take(4)?.try_into().unwrap())),
			RSchema::Double => RValue::Double(u64::from_le_bytes(self.take(8)?.try_into().unwrap())),
			RSchema::Bytes => RValue::Bytes(self.len_prefixed()?.to_vec()),
			RSchema::String => {
				let b = self.len_prefixed()?;
				RValue::Str(std::str::from_utf8(b).map_err(|_| Stop::Invalid("invalid utf-8".into()))?.to_owned())
			}
			RSchema::Fixed { size, .. } => {
				self.max_field = self.max_field.max(*size);
				RValue::Fixed(self.take(*size)?.to_vec())
			}
			RSchema::Enum { symbols, .. } => {
				let i = self.long()?;
				if i < 0 || (i as u64) >= symbols.len() as u64 {
					return Err(Stop::Invalid("enum index out of range".into()));
				}
				RValue::Enum(i as usize)
			}
			RSchema::Union(branches) => {
				let i = self.long()?;
				if i < 0 || (i as u64) >= branches.len() as u64 {
					return Err(Stop::Invalid("union index out of range".into()));
				}
				self.enter();
				let inner = self.dec(&branches[i as usize])?;
				self.depth -= 1;
				RValue::Union(i as usize, Box::new(inner))
			}
			RSchema::Record { fields, .. } => {
				self.enter();
				let mut vals = Vec::with_capacity(fields.len());
				for (_, f) in fields {
					vals.push(self.dec(f)?);
				}
				self.depth -= 1;
				RValue::Record(vals)
			}
			RSchema::Array(item) => {
				self.enter();
				let mut items = Vec::new();
				self.blocks(|d| {
					items.push(d.dec(item)?);
					Ok(items.len())
				})?;
				self.depth -= 1;
				RValue::Array(items)
			}
			RSchema::Map(item) => {
				self.enter();
				let mut items = Vec::new();
				self.blocks(|d| {
					let k = d.len_prefixed()?;
					let k = std::str::from_utf8(k).map_err(|_| Stop::Invalid("invalid utf-8 in map key".into()))?.to_owned();
					let v = d.dec(item)?;
					items.push((k, v));
					Ok(items.len())
				})?;
				self.depth -= 1;
				RValue::Map(items)
			}
			RSchema::Ref(_) | RSchema::Logical(..) => unreachable!(),
		})
	}
	fn blocks(&mut self, mut item: impl FnMut(&mut Self) -> Result<usize, Stop>) -> Result<(), Stop> {
		let mut total: u64 = 0;
		loop {
			let c = self.long()?;
			if c == 0 {
				return Ok(());
			}
			let (count, sized) = if c < 0 { ((c as i128).unsigned_abs() as u64, true) } else { (c as u64, false) };
			let declared = if sized { Some(self.long()?) } else { None };
			total = total.saturating_add(count);
			if total > self.limits.max_items {
				return Err(Stop::Unspec(format!("model refuses collections above {} items", self.limits.max_items)));
			}
			let start = self.i;
			for _ in 0..count {
				let n = item(self)?;
				self.max_collection = self.max_collection.max(n);
			}
			if let Some(d) = declared {
				if d < 0 || (d as u64) != (self.i - start) as u64 {
					return Err(Stop::Unspec("block byte size disagrees with block content".into()));
				}
			}
		}
	}
}

// ---------------------------------------------------------------------------------------------
// Decimal helpers (logical interpretation of bytes/fixed)

/// Big-endian two's complement -> i128 (None if longer than 16 bytes; empty = 0)
pub fn be_to_i128(b: &[u8]) -> Option<i128> {
	if b.len() > 16 {
		return None;
	}
	let mut buf = if b.first().map_or(false, |x| x & 0x80 != 0) { [0xffu8; 16] } else { [0u8; 16] };
	buf[16 - b.len()..].copy_from_slice(b);
	Some(i128::from_be_bytes(buf))
}

/// Minimal big-endian two's complement (at least one byte)
pub fn i128_to_be_min(v: i128) -> Vec<u8> {
	let b = v.to_be_bytes();
	let mut start = 0;
	while start < 15 {
		let cur = b[start];
		let next_msb = b[start + 1] & 0x80 != 0;
		if (cur == 0 && !next_msb) || (cur == 0xff && next_msb) {
			start += 1;
		} else {
			break;
		}
	}
	b[start..].to_vec()
}

/// Sign-extended to exactly `size` bytes; None if it does not fit
pub fn i128_to_be_sized(v: i128, size: usize) -> Option<Vec<u8>> {
	let min = i128_to_be_min(v);
	if size == 0 {
		return if v == 0 { Some(vec![]) } else { None };
	}
	if min.len() > size {
		return None;
	}
	let fill = if v < 0 { 0xff } else { 0 };
	let mut out = vec![fill; size - min.len()];
	out.extend_from_slice(&min);
	Some(out)
}

/// Java-layout big-decimal payload: bytes( long(len(unscaled)) unscaled long(scale) )
pub fn big_decimal_payload(unscaled: i128, scale: i64) -> Vec<u8> {
	let u = i128_to_be_min(unscaled);
	let mut inner = Vec::new();
	write_long(u.len() as i64, &mut inner);
	inner.extend_from_slice(&u);
	write_long(scale, &mut inner);
	inner
}

/// Parse a big-decimal payload (the content of the outer bytes). None if not in Java's layout.
pub fn parse_big_decimal(payload: &[u8]) -> Option<(i128, i64)> {
	let env_schema = RSchema::Null;
	let env = Env::new(&env_schema);
	let limits = Limits::default();
	let mut d = D { b: payload, i: 0, env: &env, limits: &limits, depth: 0, max_depth: 0, max_collection: 0, max_field: 0 };
	let l = d.long().ok()?;
	if l < 0 {
		return None;
	}
	let u = d.take(l as usize).ok()?;
	let unscaled = be_to_i128(u)?;
	let scale = d.long().ok()?;
	if d.i != payload.len() {
		return None;
	}
	Some((unscaled, scale))
}

pub fn logical_of<'a>(s: &'a RSchema, env: &Env<'a>) -> Option<&'a Logical> {
	let r = env.resolve(s);
	r.logical_type()
}

#[cfg(test)]
mod tests {
	use super::*;
	#[test]
	fn spec_examples() {
		// from the specification: zig-zag examples
		assert_eq!(long_bytes(0), [0x00]);
		assert_eq!(long_bytes(-1), [0x01]);
		assert_eq!(long_bytes(1), [0x02]);
		assert_eq!(long_bytes(-2), [0x03]);
		assert_eq!(long_bytes(2), [0x04]);
		assert_eq!(long_bytes(-64), [0x7f]);
		assert_eq!(long_bytes(64), [0x80, 0x01]);
		// "foo" string: 06 66 6f 6f
		let s = RSchema::String;
		let env = Env::new(&s);
		assert_eq!(encode(&RValue::Str("foo".into()), &s, &env, &mut Canonical).unwrap(), [0x06, 0x66, 0x6f, 0x6f]);
		// record {a: long = 27, b: string = "foo"}: 36 06 66 6f 6f
		let r = RSchema::record("test", vec![("a", RSchema::Long), ("b", RSchema::String)]);
		let env = Env::new(&r);
		let v = RValue::Record(vec![RValue::Long(27), RValue::Str("foo".into())]);
		let b = encode(&v, &r, &env, &mut Canonical).unwrap();
		assert_eq!(b, [0x36, 0x06, 0x66, 0x6f, 0x6f]);
		assert_eq!(decode(&b, &r, &env), Verdict::Valid(v, 5));
		// array of longs 3, 27: 04 06 36 00
		let a = RSchema::array(RSchema::Long);
		let env = Env::new(&a);
		let v = RValue::Array(vec![RValue::Long(3), RValue::Long(27)]);
		assert_eq!(encode(&v, &a, &env, &mut Canonical).unwrap(), [0x04, 0x06, 0x36, 0x00]);
		// union ["null","string"]: null -> 00 ; "a" -> 02 02 61
		let u = RSchema::Union(vec![RSchema::Null, RSchema::String]);
		let env = Env::new(&u);
		assert_eq!(encode(&RValue::Union(0, Box::new(RValue::Null)), &u, &env, &mut Canonical).unwrap(), [0x00]);
		assert_eq!(encode(&RValue::Union(1, Box::new(RValue::Str("a".into()))), &u, &env, &mut Canonical).unwrap(), [0x02, 0x02, 0x61]);
		// sized block decode
		let bytes = [0x03, 0x04, 0x06, 0x36, 0x00];
		assert_eq!(decode(&bytes, &a, &env), Verdict::Valid(v, 5));
	}
	#[test]
	fn decimals() {
		assert_eq!(i128_to_be_min(128), [0x00, 0x80]);
		assert_eq!(i128_to_be_min(-128), [0x80]);
		assert_eq!(i128_to_be_min(-129), [0xff, 0x7f]);
		assert_eq!(i128_to_be_min(0), [0x00]);
		assert_eq!(be_to_i128(&[0x80]), Some(-128));
		assert_eq!(i128_to_be_sized(256, 1), None);
		assert_eq!(i128_to_be_sized(-1, 2), Some(vec![0xff, 0xff]));
	}
}
